import TpmProofs.Trunc
import TpmProofs.MsgSound
/-!
# Truncated streams (C05, C10): a stream cut anywhere

The stream loop looks at the end of the input (`if the input is exhausted: emit the next message's root event and stop`),
so a run on a prefix has one more way to end than `TRB` allows: cleanly, when the cut falls exactly where the full run
starts its next message.  `SRB k s r r'`: either the step consumed at most `k` bytes and nothing differs, or the run on the
prefix stopped (`depleted`, or cleanly with `None`) having consumed exactly the `k` bytes and emitted exactly the events
the full run emits up to that byte count.
-/

def SRB (k : Nat) (s : St) (r r' : R Val) : Prop :=
  ∃ new : List (Nat × Event),
    (stOf r).out = s.out ++ new ∧ s.pos ≤ (stOf r).pos ∧
    (∀ ke ∈ new, s.pos ≤ ke.1 ∧ ke.1 ≤ (stOf r).pos) ∧
    ((used s r ≤ k ∧ r' = r.mapSt (cutSt (k - used s r))) ∨
     (∃ t, (r' = .error (.depleted, t) ∨ r' = .ok (.none, t)) ∧ t.inp = [] ∧ t.pos = s.pos + k ∧
        t.out = s.out ++ new.filter (fun ke => ke.1 ≤ s.pos + k)))

theorem SRB.of_trb {k : Nat} {s : St} {r r' : R Val} (h : TRB k s r r') : SRB k s r r' := by
  obtain ⟨new, ho, hp, hst, hle, hlt⟩ := h
  refine ⟨new, ho, hp, hst, ?_⟩
  by_cases hu : used s r ≤ k
  · exact Or.inl ⟨hu, hle hu⟩
  · obtain ⟨t, h0, h1, h2, h3⟩ := hlt (by omega)
    exact Or.inr ⟨t, Or.inl h0, h1, h2, h3⟩

/-- first part `TRB`, continuation `SRB` -/
theorem SRB.bind {α : Type} {k : Nat} {s : St} {r r' : R α} {g : α → St → R Val} (h : TRB k s r r')
    (hg : ∀ a t, r = .ok (a, t) → ∀ k', SRB k' t (g a t) (g a (cutSt k' t))) :
    SRB k s (r.bind g) (r'.bind g) := by
  obtain ⟨new, ho, hp, hst, hle, hlt⟩ := h
  cases r with
  | error e =>
    obtain ⟨e, t⟩ := e
    refine ⟨new, ho, hp, hst, ?_⟩
    by_cases hu : used s (.error (e, t) : R α) ≤ k
    · left
      refine ⟨hu, ?_⟩
      rw [hle hu]; rfl
    · right
      obtain ⟨t', h0, h1, h2, h3⟩ := hlt (by omega)
      exact ⟨t', Or.inl (by rw [h0]; rfl), h1, h2, h3⟩
  | ok at' =>
    obtain ⟨a, t⟩ := at'
    have ho' : t.out = s.out ++ new := ho
    have hp' : s.pos ≤ t.pos := hp
    have hst' : ∀ ke ∈ new, s.pos ≤ ke.1 ∧ ke.1 ≤ t.pos := hst
    have hused : used s (.ok (a, t) : R α) = t.pos - s.pos := rfl
    rw [hused] at hle hlt
    clear ho hp hst hused
    by_cases hc : t.pos - s.pos ≤ k
    · have hr' : r' = .ok (a, cutSt (k - (t.pos - s.pos)) t) := hle hc
      subst hr'
      obtain ⟨new2, go, gp, gst, gd⟩ := hg a t rfl (k - (t.pos - s.pos))
      clear hle hlt hg
      show SRB k s (g a t) (g a (cutSt (k - (t.pos - s.pos)) t))
      generalize g a (cutSt (k - (t.pos - s.pos)) t) = q' at gd ⊢
      generalize hq : g a t = q at go gp gst gd ⊢
      have hq_used : used s q = (t.pos - s.pos) + used t q := by clear gd; simp only [used]; omega
      have hmem : ∀ ke ∈ new ++ new2, s.pos ≤ ke.1 ∧ ke.1 ≤ (stOf q).pos := by
        clear gd
        intro ke hke
        simp only [List.mem_append] at hke
        rcases hke with hke | hke
        · have := hst' ke hke; omega
        · have := gst ke hke; omega
      refine ⟨new ++ new2, by rw [go, ho', List.append_assoc], by clear gd; omega, hmem, ?_⟩
      rcases gd with ⟨hu2, hq'⟩ | ⟨t2, h0, h1, h2, h3⟩
      · left
        refine ⟨by omega, ?_⟩
        rw [hq']
        have : k - (t.pos - s.pos) - used t q = k - used s q := by omega
        rw [this]
      · right
        refine ⟨t2, h0, h1, by omega, ?_⟩
        have hb : t.pos + (k - (t.pos - s.pos)) = s.pos + k := by omega
        have hf := filter_le_self (new := new) (b := s.pos + k) (fun ke hke => by have := hst' ke hke; omega)
        rw [h3, ho', List.filter_append, hf, hb, List.append_assoc]
    · have hc' : k < t.pos - s.pos := by omega
      obtain ⟨t', h0, h1, h2, h3⟩ := hlt hc'
      subst h0
      obtain ⟨new2, go, gp, gst, -⟩ := hg a t rfl 0
      clear hle hlt hg
      show SRB k s (g a t) (.error (.depleted, t'))
      generalize g a t = q at go gp gst ⊢
      refine ⟨new ++ new2, by rw [go, ho', List.append_assoc], by omega, ?_, Or.inr ⟨t', Or.inl rfl, h1, h2, ?_⟩⟩
      · intro ke hke
        simp only [List.mem_append] at hke
        rcases hke with hke | hke
        · have := hst' ke hke; omega
        · have := gst ke hke; omega
      · have hf := filter_le_nil (new := new2) (b := s.pos + k) (fun ke hke => by have := gst ke hke; omega)
        rw [h3, List.filter_append, hf, List.append_nil]

/-- the cut falls exactly where the next message starts: on the prefix the loop stops cleanly with the message's root event,
which is also the first event of the full run's next message -/
theorem SRB.boundary {α : Type} {s : St} {r r0 : R α} {g : α → St → R Val} (h : TRB 0 s r r0) (t0 t : St)
    (h0 : r0 = .error (.depleted, t0)) (hti : t.inp = []) (htp : t.pos = s.pos) (hto : t.out = t0.out)
    (hg : ∀ a t1, r = .ok (a, t1) → SRB 0 t1 (g a t1) (g a (cutSt 0 t1))) :
    SRB 0 s (r.bind g) (.ok (.none, t)) := by
  obtain ⟨new, ho, hp, hst, hle, hlt⟩ := h
  -- what the run on the empty prefix shows is what the full run shows up to byte count 0
  have hfil : t0.out = s.out ++ new.filter (fun ke => ke.1 ≤ s.pos + 0) := by
    by_cases hu : used s r ≤ 0
    · have hr0 := hle hu
      rw [h0] at hr0
      have hall : ∀ ke ∈ new, ke.1 ≤ s.pos + 0 := by
        intro ke hke
        have := hst ke hke
        simp only [used] at hu; omega
      rw [filter_le_self hall, ← ho]
      cases r with
      | ok a => simp [R.mapSt] at hr0
      | error e =>
        obtain ⟨e, t1⟩ := e
        simp only [R.mapSt, Except.error.injEq, Prod.mk.injEq] at hr0
        rw [hr0.2]; rfl
    · obtain ⟨t', h1, _, _, h4⟩ := hlt (by omega)
      rw [h0] at h1
      simp only [Except.error.injEq, Prod.mk.injEq, true_and] at h1
      rw [h1]; exact h4
  cases r with
  | error e =>
    obtain ⟨e, t1⟩ := e
    exact ⟨new, ho, hp, hst, Or.inr ⟨t, Or.inr rfl, hti, by omega, by rw [hto, hfil]⟩⟩
  | ok at' =>
    obtain ⟨a, t1⟩ := at'
    have ho' : t1.out = s.out ++ new := ho
    have hp' : s.pos ≤ t1.pos := hp
    have hst' : ∀ ke ∈ new, s.pos ≤ ke.1 ∧ ke.1 ≤ t1.pos := hst
    obtain ⟨new2, go, gp, gst, -⟩ := hg a t1 rfl
    show SRB 0 s (g a t1) (.ok (.none, t))
    generalize g a t1 = q at go gp gst ⊢
    refine ⟨new ++ new2, by rw [go, ho', List.append_assoc], by omega, ?_, Or.inr ⟨t, Or.inr rfl, hti, by omega, ?_⟩⟩
    · intro ke hke
      simp only [List.mem_append] at hke
      rcases hke with hke | hke
      · have := hst' ke hke; omega
      · have := gst ke hke; omega
    · -- the command / response consumed at least one byte, or it did not finish
      by_cases hu : t1.pos = s.pos
      · -- consumed nothing and finished: impossible, the run on the empty prefix is `depleted`
        have hu' : used s (.ok (a, t1) : R α) ≤ 0 := by
          show t1.pos - s.pos ≤ 0
          omega
        have := hle hu'
        rw [h0] at this
        simp [R.mapSt] at this
      · have hf := filter_le_nil (new := new2) (b := s.pos + 0) (fun ke hke => by have := gst ke hke; omega)
        rw [hto, hfil, List.filter_append, hf, List.append_nil]

/-! ## a message on the empty input -/

theorem readPrim_empty (p : Prim) (hp : 0 < p.size) (path : Path) (s : St) (hs : s.inp = []) (c : SC) (hsc : s.scs = [c])
    (hc : c.max = none) :
    ∃ t, readPrim true p path s = .error (.depleted, t) ∧ t.inp = [] ∧ t.pos = s.pos ∧ t.out = s.out := by
  unfold readPrim bytesParsed
  rw [hsc]
  have hov : c.over p.size = false := by simp [SC.over, hc]
  simp only [bpGo, hov, Bool.false_eq_true, if_false, List.nil_append, R.bind, take, hs, List.length_nil, hp, if_true]
  exact ⟨_, rfl, rfl, by simp, rfl⟩

theorem decodeCommand_empty (tb : MsgTables) (htag : 0 < tb.tagCmd.size) (path : Path) (s : St) (hs : s.inp = []) :
    ∃ t, decodeCommand true tb path s = .error (.depleted, t) ∧ t.inp = [] ∧ t.pos = s.pos ∧
      t.out = s.out ++ [(s.pos, .marshal ⟨path, .named "Command" false, none, "", 0⟩)] := by
  unfold decodeCommand
  simp only [msgCatch_true]
  obtain ⟨t, h, h1, h2, h3⟩ := readPrim_empty tb.tagCmd htag (path ++ [⟨"tag", none⟩])
    (emitM ⟨path, .named "Command" false, none, "", 0⟩ { s with scs := [⟨s.pos, [], 0, none⟩] }) hs _ rfl rfl
  rw [h]
  exact ⟨t, rfl, h1, h2, h3⟩

theorem decodeResponse_empty (tb : MsgTables) (htag : 0 < tb.tagRsp.size) (cc : Option Int) (enc : Bool) (path : Path)
    (s : St) (hs : s.inp = []) :
    ∃ t, decodeResponse true tb cc enc path s = .error (.depleted, t) ∧ t.inp = [] ∧ t.pos = s.pos ∧
      t.out = s.out ++ [(s.pos, .marshal ⟨path, .named "Response" false, none, "", 0⟩)] := by
  unfold decodeResponse
  simp only [msgCatch_true]
  obtain ⟨t, h, h1, h2, h3⟩ := readPrim_empty tb.tagRsp htag (path ++ [⟨"tag", none⟩])
    (emitM ⟨path, .named "Response" false, none, "", 0⟩ { s with scs := [⟨s.pos, [], 0, none⟩] }) hs _ rfl rfl
  rw [h]
  exact ⟨t, rfl, h1, h2, h3⟩

/-! ## an accepted message consumes at least one byte -/

theorem MsgTables.wf_tags {tb : MsgTables} (hw : tb.wf = true) : 0 < tb.tagCmd.size ∧ 0 < tb.tagRsp.size := by
  simp only [MsgTables.wf, Bool.and_eq_true, decide_eq_true_eq] at hw
  exact ⟨hw.1.1.1.1.1.1.1.1.1.1.1.1.1.1.1.1.1.2, hw.1.1.1.1.1.1.1.1.1.1.2⟩

theorem command_shrinks (tb : MsgTables) (hw : tb.wf = true) (path : Path) (s s1 : St) (v : Val)
    (h : decodeCommand true tb path s = .ok (v, s1)) : s1.inp.length < s.inp.length := by
  obtain ⟨p, bs, evs, _, hsp, hi, _, _, _⟩ := decodeCommand_sound tb hw path s s1 v h
  have := specCommand_pos (MsgTables.wf_tags hw).1 hsp
  rw [hi]; simp; omega

theorem response_shrinks (tb : MsgTables) (hw : tb.wf = true) (cc : Option Int) (enc : Bool) (path : Path) (s s1 : St)
    (v : Val) (h : decodeResponse true tb cc enc path s = .ok (v, s1)) : s1.inp.length < s.inp.length := by
  obtain ⟨p, bs, evs, _, hsp, hi, _, _, _⟩ := decodeResponse_sound tb hw cc enc path s s1 v h
  have := specResponse_pos (MsgTables.wf_tags hw).2 hsp
  rw [hi]; simp; omega

/-! ## the loop's fuel does not matter once it exceeds the input length -/

theorem decodeStream_fuel (tb : MsgTables) (hw : tb.wf = true) (path : Path) :
    ∀ (fuel fuel' : Nat) (s : St), s.inp.length < fuel → s.inp.length < fuel' →
      decodeStream true tb path fuel s = decodeStream true tb path fuel' s := by
  intro fuel
  induction fuel with
  | zero => intro fuel' s h; omega
  | succ n ih =>
    intro fuel' s h h'
    obtain ⟨n', rfl⟩ : ∃ n', fuel' = n' + 1 := ⟨fuel' - 1, by omega⟩
    unfold decodeStream
    split
    · rfl
    · cases hc : decodeCommand true tb path s with
      | error e => rfl
      | ok vs =>
        obtain ⟨cmd, s1⟩ := vs
        have h1 := command_shrinks tb hw path s s1 cmd hc
        simp only [R.bind]
        split
        · rfl
        · split
          · rfl
          · rename_i enc _ _
            cases hr : decodeResponse true tb ((objField cmd "commandCode").bind vInt) enc path s1 with
            | error e => rfl
            | ok vs2 =>
              obtain ⟨rsp, s2⟩ := vs2
              have h2 := response_shrinks tb hw _ _ path s1 s2 rsp hr
              simp only [R.bind]
              exact ih n' s2 (by omega) (by omega)

/-! ## the stream loop on a prefix -/

theorem cut_isEmpty_of_empty (k : Nat) (s : St) (h : s.inp.isEmpty = true) : (cutSt k s).inp.isEmpty = true := by
  simp only [cutSt_inp]
  cases hs : s.inp with
  | nil => simp
  | cons a l => rw [hs] at h; simp at h

theorem cut_isEmpty_zero (s : St) : (cutSt 0 s).inp.isEmpty = true := by simp

theorem cut_isEmpty_pos (k : Nat) (s : St) (hk : k ≠ 0) (h : ¬ s.inp.isEmpty = true) : ¬ (cutSt k s).inp.isEmpty = true := by
  simp only [cutSt_inp]
  cases hs : s.inp with
  | nil => rw [hs] at h; simp at h
  | cons a l =>
    cases k with
    | zero => exact absurd rfl hk
    | succ k => simp

theorem decodeStream_srb (tb : MsgTables) (hw : tb.wf = true) (path : Path) :
    ∀ (fuel : Nat) (s : St) (k : Nat), s.inp.length < fuel →
      SRB k s (decodeStream true tb path fuel s) (decodeStream true tb path fuel (cutSt k s)) := by
  have htags := MsgTables.wf_tags hw
  intro fuel
  induction fuel with
  | zero => intro s k h; omega
  | succ n ih =>
    intro s k hf
    -- the part of an iteration after the command
    have kont : ∀ (cmd : Val) (s1 : St), s1.inp.length < s.inp.length → ∀ k',
        SRB k' s1
          (match cmdEncrypt tb cmd with
            | .error cls => crash cls "is_parameter_encryption(command)" s1
            | .ok enc =>
              if s1.inp.isEmpty then .ok (.none, emitM ⟨path, .named "Response" false, none, "", 0⟩ s1) else
              (decodeResponse true tb ((objField cmd "commandCode").bind vInt) enc path s1).bind fun _ s =>
                decodeStream true tb path n s)
          (match cmdEncrypt tb cmd with
            | .error cls => crash cls "is_parameter_encryption(command)" (cutSt k' s1)
            | .ok enc =>
              if (cutSt k' s1).inp.isEmpty then
                .ok (.none, emitM ⟨path, .named "Response" false, none, "", 0⟩ (cutSt k' s1)) else
              (decodeResponse true tb ((objField cmd "commandCode").bind vInt) enc path (cutSt k' s1)).bind fun _ s =>
                decodeStream true tb path n s) := by
      intro cmd s1 hs1 k'
      cases cmdEncrypt tb cmd with
      | error cls => exact SRB.of_trb (TRB.crash k' s1 _ _)
      | ok enc =>
        simp only []
        by_cases he1 : s1.inp.isEmpty = true
        · rw [if_pos he1, if_pos (cut_isEmpty_of_empty k' s1 he1)]
          exact SRB.of_trb (TRB.ok_emit k' s1 _ _)
        · rw [if_neg he1]
          by_cases hk' : k' = 0
          · subst hk'
            rw [if_pos (cut_isEmpty_zero s1)]
            obtain ⟨t0, h0, h1, h2, h3⟩ := decodeResponse_empty tb htags.2 ((objField cmd "commandCode").bind vInt) enc path
              (cutSt 0 s1) (by simp)
            refine SRB.boundary (decodeResponse_tr tb _ enc path s1 0) t0 _ h0 (by simp [emitM, emit]) rfl
              (by rw [h3]; rfl) ?_
            intro rsp s2 hr
            exact ih s2 0 (by have := response_shrinks tb hw _ _ path s1 s2 rsp hr; omega)
          · rw [if_neg (cut_isEmpty_pos k' s1 hk' he1)]
            refine SRB.bind (decodeResponse_tr tb _ enc path s1 k') ?_
            intro rsp s2 hr k''
            exact ih s2 k'' (by have := response_shrinks tb hw _ _ path s1 s2 rsp hr; omega)
    unfold decodeStream
    by_cases he : s.inp.isEmpty = true
    · rw [if_pos he, if_pos (cut_isEmpty_of_empty k s he)]
      exact SRB.of_trb (TRB.ok_emit k s _ _)
    · rw [if_neg he]
      by_cases hk : k = 0
      · subst hk
        rw [if_pos (cut_isEmpty_zero s)]
        obtain ⟨t0, h0, h1, h2, h3⟩ := decodeCommand_empty tb htags.1 path (cutSt 0 s) (by simp)
        refine SRB.boundary (decodeCommand_tr tb path s 0) t0 _ h0 (by simp [emitM, emit]) rfl (by rw [h3]; rfl) ?_
        intro cmd s1 hc
        exact kont cmd s1 (command_shrinks tb hw path s s1 cmd hc) 0
      · rw [if_neg (cut_isEmpty_pos k s hk he)]
        refine SRB.bind (decodeCommand_tr tb path s k) ?_
        intro cmd s1 hc k'
        exact kont cmd s1 (command_shrinks tb hw path s s1 cmd hc) k'
