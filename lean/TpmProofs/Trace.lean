import TpmModel.Pump
import TpmProofs.BE
/-!
# Byte accounting of every strict-mode run (any input, any layout)

`Acct s r`: whatever the walker did from state `s` to the state carried by result `r` (success *or*
error), the input it consumed is exactly: the bytes of the primitive events it emitted, in order,
followed — only if it ended in an error — by the bytes it consumed without emitting an event (the
offending field, or the skipped rest of an overrun region).  Moreover every event was emitted at the
moment when the bytes consumed so far were exactly the bytes of the events emitted so far (`Stamped`):
nothing is consumed ahead of an emission.

This is the common core of C02 (re-encoding reproduces the input), C13 (remaining bytes), C10 (look-ahead).
-/

def Event.bytes : Event → List Byte
  | .marshal m => m.bytes
  | .warning _ => []

def evBytes (new : List (Nat × Event)) : List Byte := new.flatMap fun ke => ke.2.bytes

/-- each event carries the byte count reached after its own bytes, starting from `p` -/
def Stamped : Nat → List (Nat × Event) → Prop
  | _, [] => True
  | p, (k, e) :: rest => k = p + e.bytes.length ∧ Stamped k rest

def isOkR {α : Type} : R α → Bool
  | .ok _ => true
  | .error _ => false

def Acct {α : Type} (s : St) (r : R α) : Prop :=
  ∃ (new : List (Nat × Event)) (off : List Byte),
    (stOf r).out = s.out ++ new ∧
    s.inp = evBytes new ++ off ++ (stOf r).inp ∧
    (stOf r).pos = s.pos + (evBytes new).length + off.length ∧
    Stamped s.pos new ∧
    (isOkR r = true → off = [])

@[simp] theorem evBytes_nil : evBytes [] = [] := rfl
theorem evBytes_append (a b : List (Nat × Event)) : evBytes (a ++ b) = evBytes a ++ evBytes b := by
  simp [evBytes]

theorem stamped_append (p : Nat) (a b : List (Nat × Event)) :
    Stamped p (a ++ b) ↔ Stamped p a ∧ Stamped (p + (evBytes a).length) b := by
  induction a generalizing p with
  | nil => simp [Stamped]
  | cons x a ih =>
    obtain ⟨k, e⟩ := x
    simp only [List.cons_append, Stamped, ih, evBytes, List.flatMap_cons, List.length_append]
    constructor
    · rintro ⟨hk, ha, hb⟩
      refine ⟨⟨hk, ha⟩, ?_⟩
      rw [hk] at hb; simpa [evBytes, Nat.add_assoc] using hb
    · rintro ⟨⟨hk, ha⟩, hb⟩
      refine ⟨hk, ha, ?_⟩
      rw [hk]; simpa [evBytes, Nat.add_assoc] using hb

/-- a step that neither reads input nor emits: result state has the same `inp`, `pos`, `out` -/
def Quiet {α : Type} (s : St) (r : R α) : Prop :=
  (stOf r).inp = s.inp ∧ (stOf r).pos = s.pos ∧ (stOf r).out = s.out

theorem Quiet.acct {α : Type} {s : St} {r : R α} (h : Quiet s r) : Acct s r := by
  obtain ⟨h1, h2, h3⟩ := h
  exact ⟨[], [], by simp [h3], by simp [h1], by simp [h2], trivial, fun _ => rfl⟩

theorem Acct.bind {α β : Type} {s : St} {r : R α} {f : α → St → R β} (h : Acct s r)
    (hf : ∀ a s', r = .ok (a, s') → Acct s' (f a s')) : Acct s (r.bind f) := by
  cases r with
  | error e =>
    obtain ⟨e, s'⟩ := e
    obtain ⟨new, off, h1, h2, h3, h4, _⟩ := h
    exact ⟨new, off, h1, h2, h3, h4, by simp [R.bind, isOkR]⟩
  | ok as =>
    obtain ⟨a, s'⟩ := as
    obtain ⟨new, off, h1, h2, h3, h4, h5⟩ := h
    have hoff : off = [] := h5 rfl
    subst hoff
    simp only [stOf, List.append_nil, List.length_nil, Nat.add_zero] at h1 h2 h3
    obtain ⟨new2, off2, g1, g2, g3, g4, g5⟩ := hf a s' rfl
    refine ⟨new ++ new2, off2, ?_, ?_, ?_, ?_, ?_⟩
    · simp [R.bind, g1, h1, List.append_assoc]
    · simp [R.bind, h2, g2, evBytes_append, List.append_assoc]
    · simp only [R.bind, g3, h3, evBytes_append, List.length_append]; omega
    · rw [stamped_append]; refine ⟨h4, ?_⟩; rw [← h3]; exact g4
    · simpa [R.bind] using g5

/-- state change that only touches `scs` or appends a structural (zero-byte) event, then continues -/
theorem Acct.of_emit {α : Type} {s : St} (e : Event) (he : e.bytes = []) {r : R α} (h : Acct (emit e s) r) :
    Acct s r := by
  obtain ⟨new, off, h1, h2, h3, h4, h5⟩ := h
  refine ⟨(s.pos, e) :: new, off, ?_, ?_, ?_, ?_, h5⟩
  · simp [h1, emit]
  · simpa [evBytes, he, emit] using h2
  · simpa [evBytes, he, emit] using h3
  · simpa [Stamped, he, emit] using h4

theorem Acct.of_scs {α : Type} {s : St} (scs : List SC) {r : R α} (h : Acct { s with scs := scs } r) : Acct s r := h

theorem acct_ok {α : Type} (s : St) (a : α) : Acct s (.ok (a, s) : R α) :=
  Quiet.acct ⟨rfl, rfl, rfl⟩

theorem acct_crash {α : Type} (s : St) (c m : String) : Acct s (crash c m s : R α) :=
  Quiet.acct ⟨rfl, rfl, rfl⟩

theorem acct_error {α : Type} (s : St) (e : Err) : Acct s (.error (e, s) : R α) :=
  Quiet.acct ⟨rfl, rfl, rfl⟩

/-! ### consumption without an event only ever precedes an error -/

/-- `Skip s r`: `r`'s state has consumed some bytes `off` from `s` without emitting anything -/
def Skip {α : Type} (s : St) (r : R α) : Prop :=
  ∃ off, (stOf r).out = s.out ∧ s.inp = off ++ (stOf r).inp ∧ (stOf r).pos = s.pos + off.length

theorem take_skip (n : Nat) (s : St) : Skip s (take n s) := by
  unfold take
  split
  · exact ⟨s.inp, rfl, by simp [stOf], by simp [stOf]⟩
  · rename_i h
    refine ⟨s.inp.take n, rfl, by simp [stOf], ?_⟩
    simp only [stOf, List.length_take]; omega

theorem consume_skip (n : Nat) (s : St) : Skip s (consume n s) := by
  unfold consume
  obtain ⟨off, h1, h2, h3⟩ := take_skip n s
  cases ht : take n s with
  | error e => rw [ht] at h1 h2 h3; exact ⟨off, h1, h2, h3⟩
  | ok as => obtain ⟨a, s'⟩ := as; rw [ht] at h1 h2 h3; exact ⟨off, h1, h2, h3⟩

/-- a skip followed by an error is accounted as "offending bytes" -/
theorem Skip.acct_error {α β : Type} {s : St} {r : R α} (h : Skip s r) (e : Err) :
    Acct s (r.bind fun _ s' => (.error (e, s') : R β)) := by
  obtain ⟨off, h1, h2, h3⟩ := h
  cases r with
  | error x =>
    obtain ⟨x, s'⟩ := x
    simp only [stOf] at h1 h2 h3
    exact ⟨[], off, by simp [R.bind, stOf, h1], by simp [R.bind, stOf, h2], by simp [R.bind, stOf, h3], trivial, by simp [R.bind, isOkR]⟩
  | ok x =>
    obtain ⟨a, s'⟩ := x
    simp only [stOf] at h1 h2 h3
    exact ⟨[], off, by simp [R.bind, stOf, h1], by simp [R.bind, stOf, h2], by simp [R.bind, stOf, h3], trivial, by simp [R.bind, isOkR]⟩

theorem bpGo_acct (path : Path) (size : Nat) : ∀ (todo done : List SC) (s : St), Acct s (bpGo path size done todo s) := by
  intro todo
  induction todo with
  | nil => intro done s; exact Quiet.acct ⟨rfl, rfl, rfl⟩
  | cons c rest ih =>
    intro done s
    unfold bpGo
    split
    · exact Skip.acct_error (consume_skip _ _) _
    · exact ih _ _

theorem bytesParsed_acct (path : Path) (size : Nat) (s : St) : Acct s (bytesParsed path size s) :=
  bpGo_acct path size s.scs [] s

/-- `bytes_parsed` succeeding leaves `inp`, `pos`, `out` alone -/
theorem bpGo_ok_quiet (path : Path) (size : Nat) : ∀ (todo done : List SC) (s s' : St),
    bpGo path size done todo s = .ok ((), s') → s'.inp = s.inp ∧ s'.pos = s.pos ∧ s'.out = s.out := by
  intro todo
  induction todo with
  | nil => intro done s s' h; simp only [bpGo, Except.ok.injEq, Prod.mk.injEq, true_and] at h; subst h; exact ⟨rfl, rfl, rfl⟩
  | cons c rest ih =>
    intro done s s' h
    unfold bpGo at h
    split at h
    · exfalso
      revert h
      simp only []
      generalize consume _ _ = r
      cases r with
      | error e => simp [R.bind]
      | ok a => simp [R.bind]
    · exact ih _ _ _ h

/-- `process_primitive` in strict mode -/
theorem readPrim_acct (p : Prim) (path : Path) (s : St) : Acct s (readPrim true p path s) := by
  unfold readPrim
  cases hb : bytesParsed path p.size s with
  | error e =>
    have := bytesParsed_acct path p.size s
    rw [hb] at this
    obtain ⟨new, off, h1, h2, h3, h4, _⟩ := this
    exact ⟨new, off, h1, h2, h3, h4, by simp [R.bind, isOkR]⟩
  | ok as =>
    obtain ⟨u, s1⟩ := as
    obtain ⟨q1, q2, q3⟩ := bpGo_ok_quiet path p.size s.scs [] s s1 hb
    simp only [R.bind_ok]
    cases ht : take p.size s1 with
    | error e =>
      obtain ⟨e, s2⟩ := e
      obtain ⟨off, h1, h2, h3⟩ := take_skip p.size s1
      rw [ht] at h1 h2 h3
      simp only [stOf] at h1 h2 h3
      exact ⟨[], off, by simp [stOf, h1, q3], by simp [stOf, ← q1, h2], by simp [stOf, h3, q2], trivial, by simp [R.bind, isOkR]⟩
    | ok as =>
      obtain ⟨bs, s2⟩ := as
      have hlen : bs.length = p.size ∧ s1.inp = bs ++ s2.inp ∧ s2.pos = s1.pos + p.size ∧ s2.out = s1.out := by
        unfold take at ht
        split at ht
        · simp at ht
        · rename_i hn
          simp only [Except.ok.injEq, Prod.mk.injEq] at ht
          obtain ⟨rfl, rfl⟩ := ht
          refine ⟨by simp; omega, by simp, rfl, rfl⟩
      obtain ⟨hl, hi, hp, ho⟩ := hlen
      simp only [R.bind_ok]
      have hbytes : intToBytes p.size (p.ofBytes bs) = bs := intToBytes_intOfBytes p.size p.signed bs hl
      split
      · refine ⟨[(s2.pos, .marshal ⟨path, .named p.name false, some (p.ofBytes bs), p.name, p.size⟩)], [], ?_, ?_, ?_, ?_, fun _ => rfl⟩
        · simp [stOf, emitM, emit, ho, q3]
        · simp [stOf, emitM, emit, evBytes, Event.bytes, MEvent.bytes, hbytes, ← q1, hi]
        · simp [stOf, emitM, emit, evBytes, Event.bytes, MEvent.bytes, hbytes, hp, q2, hl]
        · simp [Stamped, Event.bytes, MEvent.bytes, hbytes, hp, q2, hl]
      · simp only [if_true]
        exact ⟨[], bs, by simp [stOf, ho, q3], by simp [stOf, ← q1, hi], by simp [stOf, hp, q2, hl], trivial, by simp [isOkR]⟩

theorem repeatDec_acct (f : Path → St → R Val) (hf : ∀ p s, Acct s (f p s)) (path : Path) :
    ∀ (n i : Nat) (s : St), Acct s (repeatDec f path n i s) := by
  intro n
  induction n with
  | zero => intro i s; exact acct_ok s _
  | succ k ih =>
    intro i s
    unfold repeatDec
    exact (hf _ s).bind fun v s' _ => (ih (i+1) s').bind fun vs s'' _ => acct_ok s'' _

theorem readPrimList_acct (p : Prim) (path : Path) (n : Nat) (s : St) : Acct s (readPrimList true p path n s) := by
  unfold readPrimList
  apply Acct.of_emit (.marshal ⟨path, .listOf p.name, none, "", 0⟩) rfl
  exact (repeatDec_acct _ (fun q s => readPrim_acct p q s) path n 0 _).bind fun vs s' _ => acct_ok s' _

theorem anticipateM_acct (vpath : Path) (v id : Nat) (s : St) : Acct s (anticipateM true vpath v id s) := by
  unfold anticipateM
  split
  · exact acct_ok s _
  · exact acct_error s _

theorem openRegion_acct (id : Nat) (cpath : Path) (n : Nat) (s : St) : Acct s (openRegion true id cpath n s) := by
  unfold openRegion
  exact (anticipateM_acct cpath n id s).bind fun _ s' _ => Quiet.acct ⟨rfl, rfl, rfl⟩

theorem setListed_acct (id : Nat) (cpath : Path) (n : Nat) (s : St) : Acct s (setListed true id cpath n s) := by
  unfold setListed
  exact Acct.of_scs _ (anticipateM_acct cpath n id _)

theorem assertDoneSC_acct (c : SC) (s : St) : Acct s (assertDoneSC true c s) := by
  unfold assertDoneSC
  split
  · exact acct_crash s _ _
  · split
    · exact acct_ok s _
    · exact acct_error s _

theorem assertDone_acct (id : Nat) (s : St) : Acct s (assertDone true id s) := by
  unfold assertDone
  split
  · exact acct_crash s _ _
  · exact Acct.of_scs _ (assertDoneSC_acct _ _)

theorem ownCatch_acct (id : Nat) {s : St} {r : R Val} (k : Val → St → R Val) (hr : Acct s r)
    (hk : ∀ v s', r = .ok (v, s') → Acct s' (k v s')) : Acct s (ownCatch true id r k) := by
  unfold ownCatch
  cases r with
  | error e =>
    obtain ⟨e, s'⟩ := e
    cases e <;> simpa using hr
  | ok vs =>
    obtain ⟨v, s'⟩ := vs
    have := hr.bind (f := k) hk
    simpa [R.bind] using this

theorem readListArm_acct (elem : Prim) (n : Option Nat) (path : Path) (s : St) :
    Acct s (readListArm true elem n path s) := by
  unfold readListArm
  cases n with
  | none => exact acct_crash s _ _
  | some k => exact readPrimList_acct elem path k s

theorem fieldWith_acct (d : Path → Option Int → St → R Val) (hd : ∀ p sel s, Acct s (d p sel s)) (tname : String) :
    ∀ (kind : FKind) (fpath : Path) (vals : List (String × Val)) (s : St),
    Acct s (decodeFieldWith d tname kind fpath vals s) := by
  intro kind fpath vals s
  cases kind with
  | plain => exact hd _ _ _
  | selected sel =>
    simp only [decodeFieldWith]
    split
    · exact acct_crash s _ _
    · exact hd _ _ _
  | counted =>
    simp only [decodeFieldWith]
    split
    · exact acct_crash s _ _
    · apply Acct.of_emit (.marshal ⟨fpath, .listOf tname, none, "", 0⟩) rfl
      exact (repeatDec_acct _ (fun p s => hd p none s) fpath _ 0 _).bind fun vs s' _ => acct_ok s' _

mutual
theorem decode_acct : (t : Ty) → ∀ (path : Path) (sel : Option Int) (s : St), Acct s (decode true t path sel s)
  | .prim p, path, sel, s => by simp only [decode]; exact readPrim_acct p path s
  | .struct name isP fs, path, sel, s => by
    simp only [decode]
    apply Acct.of_emit (.marshal ⟨path, .named name false, none, "", 0⟩) rfl
    exact (fields_acct fs path [] _).bind fun vals s' _ => acct_ok s' _
  | .tpm2bBytes name szName szP bufName elem, path, sel, s => by
    simp only [decode]
    apply Acct.of_emit (.marshal ⟨path, .named name false, none, "", 0⟩) rfl
    refine (readPrim_acct szP _ _).bind fun nv s1 _ => ?_
    split
    · exact acct_crash s1 _ _
    · refine (openRegion_acct _ _ _ s1).bind fun _ s2 _ => ?_
      refine (readPrimList_acct elem _ _ s2).bind fun bv s3 _ => ?_
      exact (assertDone_acct _ s3).bind fun _ s4 _ => acct_ok s4 _
  | .tpm2b name szName szP bufName body, path, sel, s => by
    simp only [decode]
    apply Acct.of_emit (.marshal ⟨path, .named name false, none, "", 0⟩) rfl
    refine (readPrim_acct szP _ _).bind fun nv s1 _ => ?_
    split
    · exact acct_crash s1 _ _
    · refine (openRegion_acct _ _ _ s1).bind fun _ s2 _ => ?_
      split
      · apply Acct.of_emit (.marshal ⟨_, body.eventTag, none, "", 0⟩) rfl
        exact (assertDone_acct _ _).bind fun _ s4 _ => acct_ok s4 _
      · exact ownCatch_acct _ _ (decode_acct body _ none s2) fun bv s3 _ =>
          (assertDone_acct _ s3).bind fun _ s4 _ => acct_ok s4 _
  | .union name arms, path, sel, s => by
    simp only [decode]
    apply Acct.of_emit (.marshal ⟨path, .named name false, none, "", 0⟩) rfl
    split
    · split
      · exact acct_error _ _
      · exact acct_error _ _
    · exact arm_acct arms name _ path _
  | .bad r, path, sel, s => by simp only [decode]; exact acct_crash s _ _

theorem arm_acct : (arms : Arms) → ∀ (un want : String) (path : Path) (s : St), Acct s (decodeArm true arms un want path s)
  | .nil, un, want, path, s => by simp only [decodeArm]; exact acct_crash s _ _
  | .consNone an key rest, un, want, path, s => by
    simp only [decodeArm]
    split
    · exact acct_ok s _
    · exact arm_acct rest un want path s
  | .cons an key t rest, un, want, path, s => by
    simp only [decodeArm]
    split
    · exact (decode_acct t _ none s).bind fun v s' _ => acct_ok s' _
    · exact arm_acct rest un want path s
  | .consBytes an key elem n rest, un, want, path, s => by
    simp only [decodeArm]
    split
    · exact (readListArm_acct elem n _ s).bind fun v s' _ => acct_ok s' _
    · exact arm_acct rest un want path s

theorem fields_acct : (fs : Fields) → ∀ (path : Path) (vals : List (String × Val)) (s : St),
    Acct s (decodeFields true fs path vals s)
  | .nil, path, vals, s => by simp only [decodeFields]; exact acct_ok s _
  | .cons fname kind t rest, path, vals, s => by
    simp only [decodeFields]
    exact (fieldWith_acct _ (fun p sel s => decode_acct t p sel s) t.name kind _ vals s).bind fun v s' _ =>
      fields_acct rest path _ s'
end

/-! ## messages -/

theorem decodeArea_acct (tb : MsgTables) (enc : Bool) (t : Ty) (path : Path) (s : St) :
    Acct s (decodeArea true tb enc t path s) := by
  unfold decodeArea
  split
  · split
    · exact decode_acct t path none s
    · apply Acct.of_emit (.marshal ⟨path, .named _ true, none, "", 0⟩) rfl
      exact (fields_acct _ path [] _).bind fun vals s' _ => acct_ok s' _
  · exact decode_acct t path none s

theorem sizedLoop_acct (t : Ty) (path : Path) (cid : Nat) : ∀ (fuel i : Nat) (acc : List Val) (s : St),
    Acct s (sizedLoop true t path cid fuel i acc s) := by
  intro fuel
  induction fuel with
  | zero => intro i acc s; exact acct_crash s _ _
  | succ n ih =>
    intro i acc s
    unfold sizedLoop
    split
    · exact acct_crash s _ _
    · split
      · exact acct_crash s _ _
      · split
        · exact ownCatch_acct _ _ (decode_acct t _ none s) fun v s' _ => ih _ _ s'
        · exact (Acct.of_scs _ (assertDoneSC_acct _ _)).bind fun _ s' _ => acct_ok s' _

theorem decodeSized_acct (t : Ty) (path : Path) (cid : Nat) (s : St) : Acct s (decodeSized true t path cid s) := by
  unfold decodeSized
  apply Acct.of_emit (.marshal ⟨path, .listOf t.name, none, "", 0⟩) rfl
  exact sizedLoop_acct t path cid _ 0 [] _

theorem msgCatch_acct (id1 id2 : Nat) (name : String) (vals : List (String × Val)) {s : St} {r : R Val}
    (k : Val → St → R Val) (hr : Acct s r) (hk : ∀ v s', r = .ok (v, s') → Acct s' (k v s')) :
    Acct s (msgCatch true id1 id2 name vals r k) := by
  unfold msgCatch
  cases r with
  | error e =>
    obtain ⟨e, s'⟩ := e
    cases e <;> simpa using hr
  | ok vs =>
    obtain ⟨v, s'⟩ := vs
    have := hr.bind (f := k) hk
    simpa [R.bind] using this

theorem decodeCommand_acct (tb : MsgTables) (path : Path) (s0 : St) : Acct s0 (decodeCommand true tb path s0) := by
  unfold decodeCommand
  simp only []
  apply Acct.of_scs [⟨s0.pos, [], 0, none⟩]
  apply Acct.of_emit (.marshal ⟨path, .named "Command" false, none, "", 0⟩) rfl
  refine msgCatch_acct _ _ _ _ _ (readPrim_acct _ _ _) fun tag s1 _ => ?_
  refine msgCatch_acct _ _ _ _ _ (readPrim_acct _ _ _) fun csz s2 _ => ?_
  split
  · exact acct_crash _ _ _
  · split
    · exact acct_crash _ _ _
    · refine (setListed_acct _ _ _ _).bind fun _ s3 _ => ?_
      refine msgCatch_acct _ _ _ _ _ (readPrim_acct _ _ _) fun ccv s4 _ => ?_
      split
      · exact acct_error _ _
      · refine msgCatch_acct _ _ _ _ _ (decodeArea_acct _ _ _ _ _) fun hv s5 _ => ?_
        -- the tail (parameters + final assert_done) is accounted from any state, for any session result
        have tail : ∀ (vals : List (String × Val)) (enc : Bool) (s : St),
            Acct s (match lookupTy tb.cmdParams ((vInt ccv).getD 0) with
              | none => (.error (.value (path ++ [⟨"commandCode", none⟩]) tb.cc.name ((vInt ccv).getD 0), s) : R Val)
              | some pty =>
                msgCatch true s0.pos (s0.pos + 1) "Command" vals
                  (decodeArea true tb enc pty (path ++ [⟨"parameters", none⟩]) s) fun pv s =>
                  (assertDone true s0.pos s).bind fun _ s => .ok (.obj "Command" false (vals ++ [("parameters", pv)]), s)) := by
          intro vals enc s
          split
          · exact acct_error _ _
          · exact msgCatch_acct _ _ _ _ _ (decodeArea_acct _ _ _ _ _) fun pv s6 _ =>
              (assertDone_acct _ s6).bind fun _ s7 _ => acct_ok s7 _
        split
        · refine msgCatch_acct _ _ _ _ _ (readPrim_acct _ _ _) fun asz s6 _ => ?_
          split
          · exact acct_crash _ _ _
          · split
            · exact acct_crash _ _ _
            · refine (openRegion_acct _ _ _ _).bind fun _ s7 _ => ?_
              refine msgCatch_acct _ _ _ _ _ (decodeSized_acct _ _ _ _) fun area s8 _ => ?_
              split
              · exact acct_crash _ _ _
              · exact tail _ _ _
        · exact tail _ _ _

/-- one step of the routine accounting argument for the message walkers -/
macro "acct_step" : tactic => `(tactic| first
  | exact acct_ok _ _ | exact acct_crash _ _ _ | exact acct_error _ _
  | exact readPrim_acct _ _ _ | exact decodeArea_acct _ _ _ _ _ | exact decodeSized_acct _ _ _ _
  | exact assertDone_acct _ _ | exact openRegion_acct _ _ _ _ | exact setListed_acct _ _ _ _
  | (refine msgCatch_acct _ _ _ _ _ ?_ (fun _ _ _ => ?_))
  | (refine Acct.bind ?_ (fun _ _ _ => ?_))
  | split)

theorem decodeResponse_acct (tb : MsgTables) (cc : Option Int) (encFlag : Bool) (path : Path) (s0 : St) :
    Acct s0 (decodeResponse true tb cc encFlag path s0) := by
  unfold decodeResponse
  simp only []
  apply Acct.of_scs [⟨s0.pos, [], 0, none⟩]
  apply Acct.of_emit (.marshal ⟨path, .named "Response" false, none, "", 0⟩) rfl
  repeat' acct_step

theorem decodeStream_acct (tb : MsgTables) (path : Path) : ∀ (fuel : Nat) (s : St),
    Acct s (decodeStream true tb path fuel s) := by
  intro fuel
  induction fuel with
  | zero => intro s; exact acct_crash s _ _
  | succ n ih =>
    intro s
    unfold decodeStream
    split
    · exact Acct.of_emit (.marshal ⟨path, .named "Command" false, none, "", 0⟩) rfl (acct_ok _ _)
    · refine (decodeCommand_acct tb path s).bind fun cmd s1 _ => ?_
      split
      · exact acct_crash _ _ _
      · split
        · exact Acct.of_emit (.marshal ⟨path, .named "Response" false, none, "", 0⟩) rfl (acct_ok _ _)
        · exact (decodeResponse_acct tb _ _ path s1).bind fun _ s2 _ => ih s2

/-- every strict run of every top-level decode (`process(...)` on a fresh coroutine) is accounted -/
theorem runWalker_acct (tb : MsgTables) (top : Top) (x : List Byte) : Acct (initSt x) (runWalker true tb top x) := by
  unfold runWalker
  cases top with
  | ty t => exact decode_acct t rootPath none _
  | command => exact decodeCommand_acct tb rootPath _
  | response cc enc => exact decodeResponse_acct tb cc enc rootPath _
  | stream => exact decodeStream_acct tb rootPath _ _
