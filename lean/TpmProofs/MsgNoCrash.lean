import TpmProofs.NoCrash
import TpmProofs.MsgSound
/-!
# Commands, responses and streams never fail with an internal error — but for one assertion (C06)

The message walkers under the static side conditions `MsgTables.total`.  The only internal error left is the
`assert` in `process_response` that compares the caller's `parameter_encryption` flag with the response's own session
attributes (a known finding: a response whose sessions disagree with its command's trips it).
-/

/-- first field with this name, if it is a plain integer field -/
def Fields.firstPrim (n : String) : Fields → Option Prim
  | .nil => none
  | .cons f kind t rest =>
    if f = n then (match kind, t with | .plain, .prim p => some p | _, _ => none) else rest.firstPrim n

/-- the session attribute lookup of `is_parameter_encryption` works on every conforming session -/
def sessOk (t : Ty) (flag : String) : Bool :=
  match t with
  | .struct _ _ sfs =>
    match sfs.firstPrim "sessionAttributes", sessionFlag.findP sfs with
    | some _, some p' => (p'.masks.find? (·.1 == flag)).isSome
    | _, _ => false
  | _ => false

theorem specFields_lookup (n : String) : ∀ (fs : Fields) (path : Path) (vals fvs : List (String × Val)) (bs : List Byte)
    (evs : List SEv) (p : Prim), fs.firstPrim n = some p → specFields fs path vals fvs = some (bs, evs) →
    ∃ x, lookupVal fvs n = some (.int p.name x)
  | .nil, _, _, _, _, _, _, hp, _ => by simp [Fields.firstPrim] at hp
  | .cons f kind t rest, path, vals, [], bs, evs, p, hp, h => by simp [specFields] at h
  | .cons f kind t rest, path, vals, (fn, v) :: fvs', bs, evs, p, hp, h => by
    simp only [specFields] at h
    split at h
    · rename_i hfn
      split at h
      · simp at h
      · rename_i b e hf
        split at h
        · simp at h
        · rename_i bs' es' hr
          simp only [Fields.firstPrim] at hp
          by_cases hfe : f = n
          · simp only [hfe, if_true] at hp
            cases kind with
            | plain =>
              cases t with
              | prim q =>
                simp only [Option.some.injEq] at hp
                subst hp
                simp only [specFieldWith, spec] at hf
                obtain ⟨x, rfl, _⟩ := specPrim_inv hf
                exact ⟨x, by simp [lookupVal, List.find?_cons, hfn, hfe]⟩
              | _ => simp at hp
            | _ => simp at hp
          · simp only [hfe, if_false] at hp
            obtain ⟨x, hx⟩ := specFields_lookup n rest path _ fvs' bs' es' p hp hr
            have : (fn == n) = false := by rw [hfn]; simpa using hfe
            exact ⟨x, by simpa [lookupVal, List.find?_cons, this] using hx⟩
    · simp at h

theorem sessionFlag_ok {t : Ty} {flag : String} (hok : sessOk t flag = true) {path : Path} {v : Val} {bs : List Byte}
    {evs : List SEv} (h : spec t path none v = some (bs, evs)) : ∃ b, sessionFlag t flag v = .ok b := by
  cases t with
  | struct name isP sfs =>
    simp only [sessOk] at hok
    split at hok
    · rename_i p p' hfp hfind
      simp only [spec] at h
      split at h
      · simp at h
      · rename_i fvs hobj
        obtain rfl := asObj_inv hobj
        simp only [Option.map_eq_some_iff] at h
        obtain ⟨⟨b, e⟩, hf, _⟩ := h
        obtain ⟨x, hx⟩ := specFields_lookup "sessionAttributes" sfs path [] fvs b e p hfp hf
        cases hm : p'.masks.find? (·.1 == flag) with
        | none => simp [hm] at hok
        | some nm =>
          obtain ⟨_, m⟩ := nm
          exact ⟨(x.toNat &&& m != 0), by simp only [sessionFlag, hx, hfind, hm]⟩
    · simp at hok
  | _ => simp [sessOk] at hok

theorem anyFlag_ok {t : Ty} {flag : String} (hok : sessOk t flag = true) (path : Path) :
    ∀ (vs : List Val) (i : Nat) (bs : List Byte) (evs : List SEv), specRepeat (sessSpec t) path vs i = some (bs, evs) →
      ∃ b, anyFlag t flag vs = .ok b
  | [], _, _, _, _ => ⟨false, rfl⟩
  | v :: vs, i, bs, evs, h => by
    simp only [specRepeat] at h
    split at h
    · simp at h
    · rename_i b e hb
      split at h
      · simp at h
      · rename_i bs' es' hr
        obtain ⟨hspec, _⟩ := sessSpec_inv hb
        obtain ⟨fb, hfb⟩ := sessionFlag_ok hok hspec
        obtain ⟨rb, hrb⟩ := anyFlag_ok hok path vs (i+1) bs' es' hr
        cases fb with
        | true => exact ⟨true, by simp [anyFlag, hfb]⟩
        | false => exact ⟨rb, by simp [anyFlag, hfb, hrb]⟩

theorem areaFlag_ok {t : Ty} {flag : String} (hok : sessOk t flag = true) {path : Path} {area : Val} {bs : List Byte}
    {evs : List SEv} (h : specSessions t path area = some (bs, evs)) : ∃ b, areaFlag t flag area = .ok b := by
  unfold specSessions at h
  split at h
  · simp at h
  · rename_i vs hvs
    obtain rfl := asList_inv hvs
    simp only [Option.map_eq_some_iff] at h
    obtain ⟨⟨b, e⟩, hr, _⟩ := h
    exact anyFlag_ok hok path vs 0 b e hr

/-! ## side conditions on the message tables -/

def areaTotal (encParam : Ty) (t : Ty) : Bool :=
  t.total && t.okNoSel &&
  (match encVariant encParam t with
   | some (_, fs) => fs.total none []
   | none => true)

def MsgTables.total (tb : MsgTables) : Bool :=
  tb.wf && !tb.cmdSize.signed && !tb.authSize.signed && !tb.rspSize.signed && !tb.paramSize.signed &&
  tb.authCmd.total && tb.authCmd.okNoSel && tb.authRsp.total && tb.authRsp.okNoSel &&
  sessOk tb.authCmd "decrypt" && sessOk tb.authCmd "encrypt" && sessOk tb.authRsp "encrypt" &&
  tb.cmdHandles.all (areaTotal tb.encParam ·.2) && tb.cmdParams.all (areaTotal tb.encParam ·.2) &&
  tb.rspHandles.all (areaTotal tb.encParam ·.2) && tb.rspParams.all (areaTotal tb.encParam ·.2)

theorem lookupTy_all {P : Ty → Bool} {m : List (Int × Ty)} (h : m.all (fun kt => P kt.2) = true) {k : Int} {t : Ty}
    (hl : lookupTy m k = some t) : P t = true := by
  unfold lookupTy at hl
  simp only [Option.map_eq_some_iff] at hl
  obtain ⟨⟨k', t'⟩, hf, rfl⟩ := hl
  exact List.all_eq_true.mp h _ (List.mem_of_find?_eq_some hf)

/-! ## areas and the session loop -/

theorem decodeArea_nc (tb : MsgTables) (enc : Bool) (t : Ty) (hwt : t.wf = true) (hwe : tb.encParam.wf = true)
    (hat : areaTotal tb.encParam t = true) (path : Path) (s : St) (hfresh : Fresh s.scs s.pos) :
    NC (decodeArea true tb enc t path s) := by
  simp only [areaTotal, Bool.and_eq_true] at hat
  obtain ⟨⟨htot, hok⟩, hv⟩ := hat
  unfold decodeArea
  by_cases hc : (enc && t.isParams) = true
  · simp only [hc, if_true]
    cases henc : encVariant tb.encParam t with
    | none => simp only []; exact decode_nc t hwt htot path none s (fun _ => hok) hfresh
    | some nf =>
      obtain ⟨name, fs⟩ := nf
      simp only [henc] at hv
      simp only []
      exact (fields_nc fs (encVariant_wf hwe hwt henc) none [] hv path [] _ VOK.nil
        (by simpa [emitM, emit] using hfresh)).bind fun vals t' _ => NC.ok _ _
  · simp only [hc, Bool.false_eq_true, if_false]
    exact decode_nc t hwt htot path none s (fun _ => hok) hfresh

theorem sizedLoop_nc (t : Ty) (hwt : t.wf = true) (htot : t.total = true) (hok : t.okNoSel = true)
    (hne : t.nonEmpty = true) (path : Path) (cid : Nat) :
    ∀ (fuel i : Nat) (acc : List Val) (pre : List SC) (c : SC) (m : Nat) (s : St),
    s.scs = pre ++ [c] → c.id = cid → (∀ d ∈ pre, d.id ≠ cid) → c.max = some m → Fresh s.scs s.pos →
    (m - c.already) + 1 ≤ fuel → NC (sizedLoop true t path cid fuel i acc s) := by
  intro fuel
  induction fuel with
  | zero => intro i acc pre c m s _ _ _ _ _ hf; omega
  | succ n ih =>
    intro i acc pre c m s hscs hc hpre hm hfresh hf
    unfold sizedLoop
    rw [hscs, findSC_last cid pre c hc hpre]
    simp only [hm, ownCatch_strict]
    by_cases hlt : c.already < m
    · rw [if_pos hlt]
      refine (decode_nc t hwt htot _ none s (fun _ => hok) hfresh).bind fun ev s1 h1 => ?_
      obtain ⟨b, e, hspec, _, p1, _, c1⟩ := decode_sound t hwt _ none s s1 ev hfresh h1
      have hb : b.isEmpty = false := spec_nonEmpty hne hspec
      have hbl : 0 < b.length := by
        cases b with
        | nil => simp at hb
        | cons => simp
      have hs1 : s1.scs = bump pre b.length ++ [c.bump b.length] := by rw [c1, hscs]; exact bump_append _ _ _
      have hfresh1 : Fresh s1.scs s1.pos := by rw [c1, p1]; exact fresh_bump hfresh
      exact ih (i+1) (acc ++ [ev]) (bump pre b.length) (c.bump b.length) m s1 hs1 (by simpa [SC.bump] using hc)
        (bump_ids hpre) (by simpa [SC.bump] using hm) hfresh1 (by simp only [SC.bump]; omega)
    · rw [if_neg hlt]
      exact (assertDoneSC_nc c _ m hm).bind fun _ t' _ => NC.ok _ _

theorem decodeSized_nc (t : Ty) (hwt : t.wf = true) (htot : t.total = true) (hok : t.okNoSel = true)
    (hne : t.nonEmpty = true) (path : Path) (cid : Nat) (pre : List SC) (c : SC) (m : Nat) (s : St)
    (hscs : s.scs = pre ++ [c]) (hc : c.id = cid) (hpre : ∀ d ∈ pre, d.id ≠ cid) (hm : c.max = some m)
    (hfresh : Fresh s.scs s.pos) : NC (decodeSized true t path cid s) := by
  unfold decodeSized
  refine sizedLoop_nc t hwt htot hok hne path cid _ 0 [] pre c m _ (by simpa [emitM, emit] using hscs) hc hpre hm
    (by simpa [emitM, emit] using hfresh) ?_
  simp only [emitM, emit, sizedFuel, hscs, findSC_last cid pre c hc hpre, hm, Option.getD_some]
  omega

/-! ## commands -/

theorem NC.error_ne {α : Type} {e : Err} {s : St} (h : ∀ c m, e ≠ .crash c m) : NC (.error (e, s) : R α) := by
  intro c m t hh
  simp only [Except.error.injEq, Prod.mk.injEq] at hh
  exact h c m hh.1

theorem decodeCommand_nc (tb : MsgTables) (ht : tb.total = true) (path : Path) (s0 : St) :
    NC (decodeCommand true tb path s0) := by
  simp only [MsgTables.total, Bool.and_eq_true, Bool.not_eq_true'] at ht
  obtain ⟨⟨⟨⟨⟨⟨⟨⟨⟨⟨⟨⟨⟨⟨⟨hw, uCsz⟩, uAsz⟩, _⟩, _⟩, tAuth⟩, okAuth⟩, _⟩, _⟩, sDec⟩, _⟩, _⟩, aCH⟩, aCP⟩, _⟩, _⟩ := ht
  have hw' := hw
  simp only [MsgTables.wf, Bool.and_eq_true, decide_eq_true_eq] at hw
  obtain ⟨⟨⟨⟨⟨⟨⟨⟨⟨⟨⟨⟨⟨⟨⟨⟨⟨⟨wTag, hTagPos⟩, wCsz⟩, wCc⟩, wAsz⟩, wAuth⟩, neAuth⟩, _⟩, _⟩, _⟩, _⟩, _⟩, _⟩, _⟩, wEnc⟩, wCH⟩, wCP⟩, _⟩, _⟩ := hw
  unfold decodeCommand
  simp only [msgCatch_strict]
  refine (readPrim_nc _ _ _).bind fun tag s1 h1 => ?_
  obtain ⟨b1, e1, g1, i1, p1, o1, c1⟩ := readPrim_sound wTag h1
  simp only [emitM, emit] at i1 p1 o1 c1
  have l1 := specPrim_length g1
  refine (readPrim_nc _ _ _).bind fun csz s2 h2 => ?_
  obtain ⟨n, rfl, hn0⟩ := readPrim_unsigned uCsz h2
  obtain ⟨b2, e2, g2, i2, p2, o2, c2⟩ := readPrim_sound wCsz h2
  rw [vInt_int]
  simp only []
  rw [if_neg (by omega)]
  refine (setListed_nc _ _ _ _).bind fun _ s3 h3 => ?_
  have hs3 := setListed_ok_inv h3
  have e3p : s3.pos = s2.pos := by rw [hs3]
  have e3c : s3.scs = [(⟨s0.pos, path ++ [⟨"commandSize", none⟩], b1.length + b2.length, some n.toNat⟩ : SC)] := by
    rw [hs3, c2, c1]; simp [bump, SC.bump]
  refine (readPrim_nc _ _ _).bind fun ccv s4 h4 => ?_
  obtain ⟨b3, e3, g3, i4, p4, o4, c4⟩ := readPrim_sound wCc h4
  obtain ⟨xc, rfl, _, _, _, _⟩ := specPrim_inv g3
  simp only [vInt_int, Option.getD_some]
  have p4' : s4.pos = s0.pos + b1.length + b2.length + b3.length := by rw [p4, e3p, p2, p1]
  have hfr4 : Fresh s4.scs s4.pos := by
    rw [c4, e3c]; simp only [bump, List.map_cons, List.map_nil, SC.bump]
    exact fresh_one _ _ (by simp only []; omega)
  cases hh : lookupTy tb.cmdHandles xc with
  | none => simp only []; exact NC.error_ne (by intro c m h; cases h)
  | some hty =>
    simp only []
    refine (decodeArea_nc tb false hty (lookupTy_wf wCH hh) wEnc (lookupTy_all aCH hh) _ s4 hfr4).bind fun hv s5 h5 => ?_
    obtain ⟨b4, e4, g4, i5, p5, o5, c5⟩ := decodeArea_sound tb false hty (lookupTy_wf wCH hh) wEnc _ s4 s5 hv hfr4 h5
    have c5' : s5.scs = [(⟨s0.pos, path ++ [⟨"commandSize", none⟩], b1.length + b2.length + b3.length + b4.length, some n.toNat⟩ : SC)] := by
      rw [c5, c4, e3c]; simp [bump, SC.bump]
    have p5' : s5.pos = s0.pos + b1.length + b2.length + b3.length + b4.length := by rw [p5, p4']
    have tail : ∀ (vals : List (String × Val)) (enc : Bool) (s6 : St) (a6 : Nat),
        s6.scs = [(⟨s0.pos, path ++ [⟨"commandSize", none⟩], a6, some n.toNat⟩ : SC)] → s0.pos ≤ s6.pos →
        NC (match lookupTy tb.cmdParams xc with
          | none => (.error (.value (path ++ [(⟨"commandCode", none⟩ : PathNode)]) tb.cc.name xc, s6) : R Val)
          | some pty =>
            (decodeArea true tb enc pty (path ++ [(⟨"parameters", none⟩ : PathNode)]) s6).bind fun pv s =>
            (assertDone true s0.pos s).bind fun _ s => .ok (.obj "Command" false (vals ++ [("parameters", pv)]), s)) := by
      intro vals enc s6 a6 hscs hpos
      cases hp : lookupTy tb.cmdParams xc with
      | none => simp only []; exact NC.error_ne (by intro c m h; cases h)
      | some pty =>
        simp only []
        have hfr6 : Fresh s6.scs s6.pos := by rw [hscs]; exact fresh_one _ _ hpos
        refine (decodeArea_nc tb enc pty (lookupTy_wf wCP hp) wEnc (lookupTy_all aCP hp) _ s6 hfr6).bind fun pv s7 h7 => ?_
        obtain ⟨b6, e6, g6, i7, p7, o7, c7⟩ := decodeArea_sound tb enc pty (lookupTy_wf wCP hp) wEnc _ s6 s7 pv hfr6 h7
        have hs7 : s7.scs = [] ++ [(⟨s0.pos, path ++ [⟨"commandSize", none⟩], a6 + b6.length, some n.toNat⟩ : SC)] := by
          rw [c7, hscs]; simp [bump, SC.bump]
        exact (assertDone_last_nc hs7 rfl (by intro d hd; cases hd) rfl).bind fun _ s8 _ => NC.ok _ _
    by_cases hsess : (vInt tag == some tb.sessionsTag) = true
    · rw [if_pos hsess]
      refine (readPrim_nc _ _ _).bind fun asz s6 h6 => ?_
      obtain ⟨an, rfl, han0⟩ := readPrim_unsigned uAsz h6
      obtain ⟨ba, ea, ga, i6, p6, o6, c6⟩ := readPrim_sound wAsz h6
      rw [vInt_int]
      simp only []
      rw [if_neg (by omega)]
      refine (openRegion_nc _ _ _ _).bind fun _ s7 h7 => ?_
      have hs7 := openRegion_ok_inv h7
      have c6' : s6.scs = [(⟨s0.pos, path ++ [⟨"commandSize", none⟩],
          b1.length + b2.length + b3.length + b4.length + ba.length, some n.toNat⟩ : SC)] := by
        rw [c6, c5']; simp [bump, SC.bump]
      have p6' : s6.pos = s0.pos + b1.length + b2.length + b3.length + b4.length + ba.length := by rw [p6, p5']
      have hs7scs : s7.scs = [(⟨s0.pos, path ++ [⟨"commandSize", none⟩],
          b1.length + b2.length + b3.length + b4.length + ba.length, some n.toNat⟩ : SC)] ++
          [(⟨s0.pos + 1, path ++ [⟨"authSize", none⟩], 0, some an.toNat⟩ : SC)] := by rw [hs7, c6']
      have e7p : s7.pos = s6.pos := by rw [hs7]
      have hfr7 : Fresh s7.scs s7.pos := by
        rw [hs7scs, e7p, p6']
        intro d hd
        simp only [List.mem_append, List.mem_singleton] at hd
        rcases hd with rfl | rfl <;> simp only [] <;> omega
      have hpre : ∀ d ∈ [(⟨s0.pos, path ++ [⟨"commandSize", none⟩],
          b1.length + b2.length + b3.length + b4.length + ba.length, some n.toNat⟩ : SC)], d.id ≠ s0.pos + 1 := by
        intro d hd; simp only [List.mem_singleton] at hd; subst hd; simp
      refine (decodeSized_nc tb.authCmd wAuth tAuth okAuth neAuth _ (s0.pos + 1) _ _ an.toNat s7 hs7scs rfl hpre rfl hfr7).bind
        fun area s8 h8 => ?_
      obtain ⟨bs, es, gs, hlen, i8, p8, o8, c8⟩ := decodeSized_sound tb.authCmd wAuth neAuth _ (s0.pos + 1) _ _ an.toNat
        s7 s8 area hs7scs rfl hpre rfl hfr7 h8
      obtain ⟨enc, hflag⟩ := areaFlag_ok (flag := "decrypt") sDec gs
      simp only [hflag]
      have c8' : s8.scs = [(⟨s0.pos, path ++ [⟨"commandSize", none⟩],
          b1.length + b2.length + b3.length + b4.length + ba.length + bs.length, some n.toNat⟩ : SC)] := by
        rw [c8]; simp [bump, SC.bump]
      exact tail _ enc s8 _ c8' (by rw [p8, e7p, p6']; omega)
    · rw [if_neg hsess]
      exact tail _ false s5 _ c5' (by rw [p5']; omega)

/-! ## responses: no internal error but the encryption-flag assertion -/

/-- the only crash allowed -/
def isMismatch (c m : String) : Prop := c = "AssertionError" ∧ m = "process_response: parameter_encryption mismatch"

def NCX {α : Type} (r : R α) : Prop := ∀ c m s, r = .error (.crash c m, s) → isMismatch c m

theorem NC.ncx {α : Type} {r : R α} (h : NC r) : NCX r := fun c m s hh => absurd hh (h c m s)

theorem NCX.bind {α β : Type} {r : R α} {f : α → St → R β} (h : NCX r) (hf : ∀ a t, r = .ok (a, t) → NCX (f a t)) :
    NCX (r.bind f) := by
  cases r with
  | error e =>
    obtain ⟨e, s⟩ := e
    intro c m t hh
    simp only [R.bind_error, Except.error.injEq, Prod.mk.injEq] at hh
    exact h c m t (by rw [hh.1, hh.2])
  | ok at' => obtain ⟨a, t⟩ := at'; exact hf a t rfl

theorem decodeResponse_ncx (tb : MsgTables) (ht : tb.total = true) (cc : Option Int) (enc : Bool) (path : Path) (s0 : St)
    (hcc : (cc.bind (lookupTy tb.rspHandles)).isSome = true ∧ (cc.bind (lookupTy tb.rspParams)).isSome = true) :
    NCX (decodeResponse true tb cc enc path s0) := by
  simp only [MsgTables.total, Bool.and_eq_true, Bool.not_eq_true'] at ht
  obtain ⟨⟨⟨⟨⟨⟨⟨⟨⟨⟨⟨⟨⟨⟨⟨hw, _⟩, _⟩, uRsz⟩, uPsz⟩, _⟩, _⟩, tAuth⟩, okAuth⟩, _⟩, _⟩, sEnc⟩, _⟩, _⟩, aRH⟩, aRP⟩ := ht
  simp only [MsgTables.wf, Bool.and_eq_true, decide_eq_true_eq] at hw
  obtain ⟨⟨⟨⟨⟨⟨⟨⟨⟨⟨⟨⟨⟨⟨⟨⟨⟨⟨_, _⟩, _⟩, _⟩, _⟩, _⟩, _⟩, wTag⟩, hTagPos⟩, wRsz⟩, wRc⟩, wPsz⟩, wAuth⟩, neAuth⟩, wEnc⟩, _⟩, _⟩, wRH⟩, wRP⟩ := hw
  unfold decodeResponse
  simp only [msgCatch_strict]
  refine (readPrim_nc _ _ _).ncx.bind fun tag s1 h1 => ?_
  obtain ⟨b1, e1, g1, i1, p1, o1, c1⟩ := readPrim_sound wTag h1
  simp only [emitM, emit] at i1 p1 o1 c1
  have l1 := specPrim_length g1
  refine (readPrim_nc _ _ _).ncx.bind fun rsz s2 h2 => ?_
  obtain ⟨n, rfl, hn0⟩ := readPrim_unsigned uRsz h2
  obtain ⟨b2, e2, g2, i2, p2, o2, c2⟩ := readPrim_sound wRsz h2
  rw [vInt_int]
  simp only []
  rw [if_neg (by omega)]
  refine (setListed_nc _ _ _ _).ncx.bind fun _ s3 h3 => ?_
  have hs3 := setListed_ok_inv h3
  have e3p : s3.pos = s2.pos := by rw [hs3]
  have e3c : s3.scs = [(⟨s0.pos, path ++ [⟨"responseSize", none⟩], b1.length + b2.length, some n.toNat⟩ : SC)] := by
    rw [hs3, c2, c1]; simp [bump, SC.bump]
  refine (readPrim_nc _ _ _).ncx.bind fun rcv s4 h4 => ?_
  obtain ⟨b3, e3, g3, i4, p4, o4, c4⟩ := readPrim_sound wRc h4
  have p4' : s4.pos = s0.pos + b1.length + b2.length + b3.length := by rw [p4, e3p, p2, p1]
  have c4' : s4.scs = [(⟨s0.pos, path ++ [⟨"responseSize", none⟩], b1.length + b2.length + b3.length, some n.toNat⟩ : SC)] := by
    rw [c4, e3c]; simp [bump, SC.bump]
  have finish : ∀ (vals : List (String × Val)) (s6 : St) (a6 : Nat),
      s6.scs = [(⟨s0.pos, path ++ [⟨"responseSize", none⟩], a6, some n.toNat⟩ : SC)] →
      NCX ((assertDone true s0.pos s6).bind fun _ s =>
        if s.scs.isEmpty then (.ok (.obj "Response" false vals, s) : R Val)
        else crash "AssertionError" "size_constraints.assert_done()" s) := by
    intro vals s6 a6 hscs
    have hs6 : s6.scs = [] ++ [(⟨s0.pos, path ++ [⟨"responseSize", none⟩], a6, some n.toNat⟩ : SC)] := by rw [hscs]; rfl
    refine (assertDone_last_nc hs6 rfl (by intro d hd; cases hd) rfl).ncx.bind fun _ s7 h7 => ?_
    obtain ⟨_, hs7⟩ := assertDone_last_inv hs6 rfl (by intro d hd; cases hd) h7
    rw [hs7]
    simp only [List.isEmpty_nil, if_true]
    exact (NC.ok _ _).ncx
  by_cases hrc : (vInt rcv != some tb.rcSuccess) = true
  · rw [if_pos hrc]; exact finish _ s4 _ c4'
  · rw [if_neg hrc]
    obtain ⟨hH, hP⟩ := hcc
    cases hh : cc.bind (lookupTy tb.rspHandles) with
    | none => simp [hh] at hH
    | some hty =>
      cases hp : cc.bind (lookupTy tb.rspParams) with
      | none => simp [hp] at hP
      | some pty =>
        simp only []
        have whty : hty.wf = true ∧ areaTotal tb.encParam hty = true := by
          cases cc with
          | none => simp at hh
          | some c => exact ⟨lookupTy_wf wRH (by simpa using hh), lookupTy_all aRH (by simpa using hh)⟩
        have wpty : pty.wf = true ∧ areaTotal tb.encParam pty = true := by
          cases cc with
          | none => simp at hp
          | some c => exact ⟨lookupTy_wf wRP (by simpa using hp), lookupTy_all aRP (by simpa using hp)⟩
        have hfr4 : Fresh s4.scs s4.pos := by rw [c4']; exact fresh_one _ _ (by simp only []; omega)
        refine (decodeArea_nc tb enc hty whty.1 wEnc whty.2 _ s4 hfr4).ncx.bind fun hv s5 h5 => ?_
        obtain ⟨b4, e4, g4, i5, p5, o5, c5⟩ := decodeArea_sound tb enc hty whty.1 wEnc _ s4 s5 hv hfr4 h5
        have p5' : s5.pos = s0.pos + b1.length + b2.length + b3.length + b4.length := by rw [p5, p4']
        have c5' : s5.scs = [(⟨s0.pos, path ++ [⟨"responseSize", none⟩], b1.length + b2.length + b3.length + b4.length, some n.toNat⟩ : SC)] := by
          rw [c5, c4']; simp [bump, SC.bump]
        by_cases hsess : (vInt tag == some tb.sessionsTag) = true
        · simp only [hsess, if_true, Bool.not_true, Bool.false_eq_true, if_false]
          refine (readPrim_nc _ _ _).ncx.bind fun psz s6 h6 => ?_
          obtain ⟨pn, rfl, hpn0⟩ := readPrim_unsigned uPsz h6
          obtain ⟨bp, ep, gp, i6, p6, o6, c6⟩ := readPrim_sound wPsz h6
          rw [vInt_int]
          simp only []
          rw [if_neg (by omega)]
          refine (openRegion_nc _ _ _ _).ncx.bind fun _ s7 h7 => ?_
          have hs7 := openRegion_ok_inv h7
          have p6' : s6.pos = s0.pos + b1.length + b2.length + b3.length + b4.length + bp.length := by rw [p6, p5']
          have c6' : s6.scs = [(⟨s0.pos, path ++ [⟨"responseSize", none⟩],
              b1.length + b2.length + b3.length + b4.length + bp.length, some n.toNat⟩ : SC)] := by
            rw [c6, c5']; simp [bump, SC.bump]
          have hs7scs : s7.scs = [(⟨s0.pos, path ++ [⟨"responseSize", none⟩],
              b1.length + b2.length + b3.length + b4.length + bp.length, some n.toNat⟩ : SC)] ++
              [(⟨s0.pos + 1, path ++ [⟨"parameterSize", none⟩], 0, some pn.toNat⟩ : SC)] := by rw [hs7, c6']
          have e7p : s7.pos = s6.pos := by rw [hs7]
          have hfr7 : Fresh s7.scs s7.pos := by
            rw [hs7scs, e7p, p6']
            intro d hd
            simp only [List.mem_append, List.mem_singleton] at hd
            rcases hd with rfl | rfl <;> simp only [] <;> omega
          refine NCX.bind (r := (decodeArea true tb enc pty _ s7).bind _) ?_ fun pv s8 h8 => ?_
          · refine (decodeArea_nc tb enc pty wpty.1 wEnc wpty.2 _ s7 hfr7).ncx.bind fun pv' s8a h8a => ?_
            obtain ⟨b6, e6, g6, i8, p8, o8, c8⟩ := decodeArea_sound tb enc pty wpty.1 wEnc _ s7 s8a pv' hfr7 h8a
            have hs8a : s8a.scs = [(⟨s0.pos, path ++ [⟨"responseSize", none⟩],
                b1.length + b2.length + b3.length + b4.length + bp.length + b6.length, some n.toNat⟩ : SC)] ++
                [(⟨s0.pos + 1, path ++ [⟨"parameterSize", none⟩], 0 + b6.length, some pn.toNat⟩ : SC)] := by
              rw [c8, hs7scs]; simp [bump, SC.bump]
            exact ((assertDone_last_nc hs8a rfl
              (by intro d hd; simp only [List.mem_singleton] at hd; subst hd; simp) rfl).bind fun _ t' _ => NC.ok _ _).ncx
          · obtain ⟨pv', s8a, h8a, h8⟩ := bind_ok_inv h8
            obtain ⟨b6, e6, g6, i8, p8, o8, c8⟩ := decodeArea_sound tb enc pty wpty.1 wEnc _ s7 s8a pv' hfr7 h8a
            obtain ⟨_, s8b, h8b, h8⟩ := bind_ok_inv h8
            simp only [Except.ok.injEq, Prod.mk.injEq] at h8
            obtain ⟨rfl, rfl⟩ := h8
            have hs8a : s8a.scs = [(⟨s0.pos, path ++ [⟨"responseSize", none⟩],
                b1.length + b2.length + b3.length + b4.length + bp.length + b6.length, some n.toNat⟩ : SC)] ++
                [(⟨s0.pos + 1, path ++ [⟨"parameterSize", none⟩], 0 + b6.length, some pn.toNat⟩ : SC)] := by
              rw [c8, hs7scs]; simp [bump, SC.bump]
            obtain ⟨_, hs8b⟩ := assertDone_last_inv hs8a rfl
              (by intro d hd; simp only [List.mem_singleton] at hd; subst hd; simp) h8b
            have hs8scs : s8b.scs = [] ++ [(⟨s0.pos, path ++ [⟨"responseSize", none⟩],
                b1.length + b2.length + b3.length + b4.length + bp.length + b6.length, some n.toNat⟩ : SC)] := by
              rw [hs8b]; rfl
            have e8p : s8b.pos = s8a.pos := by rw [hs8b]
            have hfr8 : Fresh s8b.scs s8b.pos := by
              rw [hs8scs, e8p, p8, e7p, p6']; exact fresh_one _ _ (by simp only []; omega)
            refine (decodeSized_nc tb.authRsp wAuth tAuth okAuth neAuth _ s0.pos _ _ n.toNat s8b hs8scs rfl
              (by intro d hd; cases hd) rfl hfr8).ncx.bind fun area s9 h9 => ?_
            obtain ⟨bs, es, gs, hlen, i9, p9, o9, c9⟩ := decodeSized_sound tb.authRsp wAuth neAuth _ s0.pos _ _ n.toNat
              s8b s9 area hs8scs rfl (by intro d hd; cases hd) rfl hfr8 h9
            obtain ⟨expected, hflag⟩ := areaFlag_ok (flag := "encrypt") sEnc gs
            simp only [hflag]
            by_cases hexp : (expected != enc) = true
            · rw [if_pos hexp]
              intro c m t hh
              simp only [crash, Except.error.injEq, Prod.mk.injEq, Err.crash.injEq] at hh
              exact ⟨hh.1.1.symm, hh.1.2.symm⟩
            · rw [if_neg hexp]
              have hs9 : s9.scs = [] := by rw [c9]; rfl
              rw [hs9]
              simp only [List.isEmpty_nil, if_true]
              exact (NC.ok _ _).ncx
        · have hsess' : (vInt tag == some tb.sessionsTag) = false := by simpa using hsess
          simp only [hsess', Bool.false_eq_true, if_false, Bool.not_false, if_true]
          have hfr5 : Fresh s5.scs s5.pos := by rw [c5']; exact fresh_one _ _ (by simp only []; omega)
          refine NCX.bind (r := (decodeArea true tb enc pty _ s5).bind _) ?_ fun pv s8 h8 => ?_
          · exact ((decodeArea_nc tb enc pty wpty.1 wEnc wpty.2 _ s5 hfr5).bind fun _ _ _ => NC.ok _ _).ncx
          · obtain ⟨pv', s8a, h8a, h8⟩ := bind_ok_inv h8
            simp only [Except.ok.injEq, Prod.mk.injEq] at h8
            obtain ⟨rfl, rfl⟩ := h8
            obtain ⟨b6, e6, g6, i8, p8, o8, c8⟩ := decodeArea_sound tb enc pty wpty.1 wEnc _ s5 s8a pv' hfr5 h8a
            have c8' : s8a.scs = [(⟨s0.pos, path ++ [⟨"responseSize", none⟩],
                b1.length + b2.length + b3.length + b4.length + b6.length, some n.toNat⟩ : SC)] := by
              rw [c8, c5']; simp [bump, SC.bump]
            exact finish _ s8a _ c8'

/-! ## streams -/

/-- every command code with command layouts also has response layouts -/
def MsgTables.paired (tb : MsgTables) : Bool :=
  tb.cmdHandles.all fun kt => (lookupTy tb.rspHandles kt.1).isSome && (lookupTy tb.rspParams kt.1).isSome

theorem lookupTy_key {m : List (Int × Ty)} {k : Int} {t : Ty} (hl : lookupTy m k = some t) : (k, t) ∈ m := by
  unfold lookupTy at hl
  simp only [Option.map_eq_some_iff] at hl
  obtain ⟨⟨k', t'⟩, hf, rfl⟩ := hl
  have hm := List.mem_of_find?_eq_some hf
  have hk := List.find?_some hf
  simp only [beq_iff_eq] at hk
  subst hk
  exact hm

theorem specCommand_inv {tb : MsgTables} {path : Path} {p : CmdParts} {bs : List Byte} {evs : List SEv}
    (h : specCommand tb path p = some (bs, evs)) :
    (∃ xc hty, vInt p.ccv = some xc ∧ lookupTy tb.cmdHandles xc = some hty) ∧
    (∀ asz area, p.auth = some (asz, area) → ∃ b e, specSessions tb.authCmd (path ++ [⟨"authorizationArea", none⟩]) area = some (b, e)) := by
  unfold specCommand at h
  split at h
  · rename_i b1 e1 b2 e2 b3 e3 h1 h2 h3
    obtain ⟨xc, hcv, hci⟩ := specPrim_vInt h3
    simp only [] at h
    split at h
    · rename_i hty pty hh hp
      split at h
      · rename_i b4 e4 b5 e5 enc h4 h5
        refine ⟨⟨xc, hty, hci, by simpa [hci] using hh⟩, ?_⟩
        intro asz area hauth
        rw [hauth] at h5
        unfold specCmdAuth at h5
        split at h5
        · simp at *
        · rename_i heq1 heq2
          simp only [Option.some.injEq, Prod.mk.injEq] at heq2
          obtain ⟨rfl, rfl⟩ := heq2
          split at h5
          · rename_i ba ea bsess es enc' ha hs hflag
            exact ⟨bsess, es, hs⟩
          · simp at h5
        · simp at h5
      · simp at h
    · simp at h
  · simp at h

theorem objField_auth (p : CmdParts) : objField p.toVal "authorizationArea" = p.auth.map (·.2) := by
  cases h : p.auth with
  | none => simp [CmdParts.toVal, objField, lookupVal, List.find?, h]
  | some aa => obtain ⟨a, ar⟩ := aa; simp [CmdParts.toVal, objField, lookupVal, List.find?, h]

theorem decodeStream_ncx (tb : MsgTables) (ht : tb.total = true) (hp : tb.paired = true) (path : Path) :
    ∀ (fuel : Nat) (s : St), s.inp.length < fuel → NCX (decodeStream true tb path fuel s) := by
  have ht' := ht
  simp only [MsgTables.total, Bool.and_eq_true, Bool.not_eq_true'] at ht'
  obtain ⟨⟨⟨⟨⟨⟨⟨⟨⟨⟨⟨⟨⟨⟨⟨hw, _⟩, _⟩, _⟩, _⟩, _⟩, _⟩, _⟩, _⟩, _⟩, sEncC⟩, _⟩, _⟩, _⟩, _⟩, _⟩ := ht'
  have hwc := hw
  simp only [MsgTables.wf, Bool.and_eq_true, decide_eq_true_eq] at hwc
  have hTagPos : 0 < tb.tagCmd.size := hwc.1.1.1.1.1.1.1.1.1.1.1.1.1.1.1.1.1.2
  intro fuel
  induction fuel with
  | zero => intro s hf; omega
  | succ n ih =>
    intro s hf
    unfold decodeStream
    by_cases he : s.inp.isEmpty = true
    · rw [if_pos he]; exact (NC.ok _ _).ncx
    · rw [if_neg he]
      refine (decodeCommand_nc tb ht path s).ncx.bind fun cmd s1 h1 => ?_
      obtain ⟨p, bc, ec, rfl, gc, i1, p1, o1, c1⟩ := decodeCommand_sound tb hw path s s1 _ h1
      obtain ⟨⟨xc, hty, hcv, hch⟩, hauth⟩ := specCommand_inv gc
      have hbc := specCommand_pos hTagPos gc
      -- the command's own `encrypt` flag is computable
      have henc : ∃ enc, cmdEncrypt tb p.toVal = .ok enc := by
        unfold cmdEncrypt
        rw [objField_auth]
        cases ha : p.auth with
        | none => exact ⟨false, rfl⟩
        | some aa =>
          obtain ⟨asz, area⟩ := aa
          obtain ⟨b, e, hs⟩ := hauth asz area ha
          obtain ⟨fb, hfb⟩ := areaFlag_ok (flag := "encrypt") sEncC hs
          simp only [Option.map_some]
          cases area with
          | none => exact ⟨false, rfl⟩
          | _ => exact ⟨fb, by simpa using hfb⟩
      obtain ⟨enc, henc⟩ := henc
      simp only [henc]
      by_cases he1 : s1.inp.isEmpty = true
      · rw [if_pos he1]; exact (NC.ok _ _).ncx
      · rw [if_neg he1]
        rw [objField_cc, Option.bind_some, hcv]
        have hpair := List.all_eq_true.mp hp _ (lookupTy_key hch)
        simp only [Bool.and_eq_true] at hpair
        refine (decodeResponse_ncx tb ht (some xc) enc path s1 (by simpa using hpair)).bind fun rsp s2 h2 => ?_
        obtain ⟨r, br, er, _, gr, i2, p2, o2, c2⟩ := decodeResponse_sound tb hw (some xc) enc path s1 s2 rsp h2
        refine ih s2 ?_
        have : s.inp.length = bc.length + (br.length + s2.inp.length) := by rw [i1, i2]; simp
        omega
