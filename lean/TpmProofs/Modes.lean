import TpmProofs.Trace
/-!
# Warn mode and strict mode agree up to the first problem (C07)

`MRel rs rw`: `rs` is the result of a step in strict mode, `rw` the result of the same step from the same state in
warn mode.  If strict mode succeeds, warn mode does exactly the same (same value, same state, hence no warning).  If
strict mode stops with `depleted` or an internal error, so does warn mode, in the same state.  If strict mode raises a
constraint error `e` in state `t`, warn mode either raises the same error in the same state (it is on its way to the
owner of the region, or it is one of the two errors warn mode cannot continue after) or its trace continues
`t.out ++ [warning e] ++ …` — for a value error `t.out ++ [the offending event, warning e] ++ …`.
-/

/-- the trace only grows -/
def Grow {α : Type} (s : St) (r : R α) : Prop := ∃ new, (stOf r).out = s.out ++ new

theorem Grow.refl {α : Type} (s : St) (a : α) : Grow s (.ok (a, s) : R α) := ⟨[], by simp [stOf]⟩
theorem Grow.err {α : Type} (s : St) (e : Err) : Grow s (.error (e, s) : R α) := ⟨[], by simp [stOf]⟩

theorem Grow.trans_st {α : Type} {s t : St} {r : R α} (h1 : ∃ new, t.out = s.out ++ new) (h2 : Grow t r) : Grow s r := by
  obtain ⟨n1, h1⟩ := h1
  obtain ⟨n2, h2⟩ := h2
  exact ⟨n1 ++ n2, by rw [h2, h1, List.append_assoc]⟩

theorem Grow.bind {α β : Type} {s : St} {r : R α} {f : α → St → R β} (h : Grow s r)
    (hf : ∀ a t, r = .ok (a, t) → Grow t (f a t)) : Grow s (r.bind f) := by
  cases r with
  | error e => obtain ⟨e, t⟩ := e; exact h
  | ok at' =>
    obtain ⟨a, t⟩ := at'
    exact Grow.trans_st (by obtain ⟨n, hn⟩ := h; exact ⟨n, hn⟩) (hf a t rfl)

theorem Grow.of_emit {α : Type} {s : St} (e : Event) {r : R α} (h : Grow (emit e s) r) : Grow s r :=
  Grow.trans_st ⟨[(s.pos, e)], rfl⟩ h

theorem Grow.of_scs {α : Type} {s : St} (scs : List SC) {r : R α} (h : Grow { s with scs := scs } r) : Grow s r := h

theorem Grow.of_quiet {α : Type} {s : St} {r : R α} (h : (stOf r).out = s.out) : Grow s r := ⟨[], by simp [h]⟩

theorem take_grow (n : Nat) (s : St) : Grow s (take n s) := by
  unfold take; split <;> exact Grow.of_quiet rfl

theorem consume_grow (n : Nat) (s : St) : Grow s (consume n s) := by
  unfold consume; exact (take_grow n s).bind fun _ t _ => Grow.refl t _

theorem bpGo_grow (path : Path) (size : Nat) : ∀ (todo done : List SC) (s : St), Grow s (bpGo path size done todo s) := by
  intro todo
  induction todo with
  | nil => intro done s; exact Grow.of_quiet rfl
  | cons c rest ih =>
    intro done s
    unfold bpGo
    split
    · exact Grow.of_scs _ ((consume_grow _ _).bind fun _ t _ => Grow.err t _)
    · exact ih _ _

theorem bytesParsed_grow (path : Path) (size : Nat) (s : St) : Grow s (bytesParsed path size s) := bpGo_grow path size s.scs [] s

theorem readPrim_grow (abort : Bool) (p : Prim) (path : Path) (s : St) : Grow s (readPrim abort p path s) := by
  unfold readPrim
  refine (bytesParsed_grow _ _ s).bind fun _ t _ => (take_grow _ t).bind fun bs t2 _ => ?_
  simp only []
  split
  · exact Grow.of_emit _ (Grow.refl _ _)
  · split
    · exact Grow.err _ _
    · exact Grow.of_emit _ (Grow.of_emit _ (Grow.refl _ _))

theorem anticipateM_grow (abort : Bool) (vpath : Path) (v id : Nat) (s : St) : Grow s (anticipateM abort vpath v id s) := by
  unfold anticipateM
  split
  · exact Grow.refl _ _
  · split
    · exact Grow.err _ _
    · exact Grow.of_emit _ (Grow.refl _ _)

theorem openRegion_grow (abort : Bool) (id : Nat) (cpath : Path) (n : Nat) (s : St) : Grow s (openRegion abort id cpath n s) := by
  unfold openRegion
  exact (anticipateM_grow _ _ _ _ s).bind fun _ t _ => Grow.of_quiet rfl

theorem setListed_grow (abort : Bool) (id : Nat) (cpath : Path) (n : Nat) (s : St) : Grow s (setListed abort id cpath n s) := by
  unfold setListed
  exact Grow.of_scs _ (anticipateM_grow _ _ _ _ _)

theorem assertDoneSC_grow (abort : Bool) (c : SC) (s : St) : Grow s (assertDoneSC abort c s) := by
  unfold assertDoneSC
  split
  · exact Grow.of_quiet rfl
  · split
    · exact Grow.refl _ _
    · split
      · exact Grow.err _ _
      · apply Grow.of_emit
        split
        · exact (bytesParsed_grow _ _ _).bind fun _ t _ => consume_grow _ t
        · exact Grow.refl _ _

theorem assertDone_grow (abort : Bool) (id : Nat) (s : St) : Grow s (assertDone abort id s) := by
  unfold assertDone
  split
  · exact Grow.of_quiet rfl
  · exact Grow.of_scs _ (assertDoneSC_grow _ _ _)

theorem repeatDec_grow (f : Path → St → R Val) (hf : ∀ p s, Grow s (f p s)) (path : Path) :
    ∀ (n i : Nat) (s : St), Grow s (repeatDec f path n i s) := by
  intro n
  induction n with
  | zero => intro i s; exact Grow.refl _ _
  | succ m ih =>
    intro i s
    unfold repeatDec
    exact (hf _ s).bind fun v t _ => (ih (i+1) t).bind fun vs t2 _ => Grow.refl _ _

theorem readPrimList_grow (abort : Bool) (p : Prim) (path : Path) (n : Nat) (s : St) : Grow s (readPrimList abort p path n s) := by
  unfold readPrimList
  apply Grow.of_emit
  exact (repeatDec_grow _ (fun q s => readPrim_grow abort p q s) path n 0 _).bind fun vs t _ => Grow.refl _ _

theorem readListArm_grow (abort : Bool) (elem : Prim) (n : Option Nat) (path : Path) (s : St) :
    Grow s (readListArm abort elem n path s) := by
  unfold readListArm
  cases n with
  | none => exact Grow.of_quiet rfl
  | some k => exact readPrimList_grow abort elem path k s

theorem ownCatch_grow (abort : Bool) (id : Nat) {s : St} {r : R Val} (k : Val → St → R Val) (hr : Grow s r)
    (hk : ∀ v t, r = .ok (v, t) → Grow t (k v t)) : Grow s (ownCatch abort id r k) := by
  unfold ownCatch
  cases r with
  | error e =>
    obtain ⟨e, t⟩ := e
    cases e with
    | exceeded cid cp m a v b =>
      simp only []
      split
      · exact hr
      · exact Grow.trans_st (by obtain ⟨n, hn⟩ := hr; exact ⟨n, hn⟩) (Grow.of_emit _ (Grow.refl _ _))
    | _ => exact hr
  | ok vs =>
    obtain ⟨v, t⟩ := vs
    exact Grow.trans_st (by obtain ⟨n, hn⟩ := hr; exact ⟨n, hn⟩) (hk v t rfl)

theorem fieldWith_grow (d : Path → Option Int → St → R Val) (hd : ∀ p sel s, Grow s (d p sel s)) (tname : String)
    (kind : FKind) (fpath : Path) (vals : List (String × Val)) (s : St) :
    Grow s (decodeFieldWith d tname kind fpath vals s) := by
  cases kind with
  | plain => exact hd _ _ _
  | selected sel =>
    simp only [decodeFieldWith]
    split
    · exact Grow.of_quiet rfl
    · exact hd _ _ _
  | counted =>
    simp only [decodeFieldWith]
    split
    · exact Grow.of_quiet rfl
    · apply Grow.of_emit
      exact (repeatDec_grow _ (fun p s => hd p none s) fpath _ 0 _).bind fun vs t _ => Grow.refl _ _

mutual
theorem decode_grow (abort : Bool) : (t : Ty) → ∀ (path : Path) (sel : Option Int) (s : St), Grow s (decode abort t path sel s)
  | .prim p, path, sel, s => by simp only [decode]; exact readPrim_grow abort p path s
  | .struct name isP fs, path, sel, s => by
    simp only [decode]
    apply Grow.of_emit
    exact (fields_grow abort fs path [] _).bind fun vals t _ => Grow.refl _ _
  | .tpm2bBytes name szName szP bufName elem, path, sel, s => by
    simp only [decode]
    apply Grow.of_emit
    refine (readPrim_grow abort szP _ _).bind fun nv s1 _ => ?_
    split
    · exact Grow.of_quiet rfl
    · refine (openRegion_grow abort _ _ _ s1).bind fun _ s2 _ => ?_
      refine (readPrimList_grow abort elem _ _ s2).bind fun bv s3 _ => ?_
      exact (assertDone_grow abort _ s3).bind fun _ s4 _ => Grow.refl _ _
  | .tpm2b name szName szP bufName body, path, sel, s => by
    simp only [decode]
    apply Grow.of_emit
    refine (readPrim_grow abort szP _ _).bind fun nv s1 _ => ?_
    split
    · exact Grow.of_quiet rfl
    · refine (openRegion_grow abort _ _ _ s1).bind fun _ s2 _ => ?_
      split
      · apply Grow.of_emit
        exact (assertDone_grow abort _ _).bind fun _ s4 _ => Grow.refl _ _
      · exact ownCatch_grow abort _ _ (decode_grow abort body _ none s2) fun bv s3 _ =>
          (assertDone_grow abort _ s3).bind fun _ s4 _ => Grow.refl _ _
  | .union name arms, path, sel, s => by
    simp only [decode]
    apply Grow.of_emit
    split
    · split
      · exact Grow.err _ _
      · exact Grow.of_quiet rfl
    · exact arm_grow abort arms name _ path _
  | .bad r, path, sel, s => by simp only [decode]; exact Grow.of_quiet rfl

theorem arm_grow (abort : Bool) : (arms : Arms) → ∀ (un want : String) (path : Path) (s : St),
    Grow s (decodeArm abort arms un want path s)
  | .nil, un, want, path, s => by simp only [decodeArm]; exact Grow.of_quiet rfl
  | .consNone an key rest, un, want, path, s => by
    simp only [decodeArm]
    split
    · exact Grow.refl _ _
    · exact arm_grow abort rest un want path s
  | .cons an key t rest, un, want, path, s => by
    simp only [decodeArm]
    split
    · exact (decode_grow abort t _ none s).bind fun v t' _ => Grow.refl _ _
    · exact arm_grow abort rest un want path s
  | .consBytes an key elem n rest, un, want, path, s => by
    simp only [decodeArm]
    split
    · exact (readListArm_grow abort elem n _ s).bind fun v t' _ => Grow.refl _ _
    · exact arm_grow abort rest un want path s

theorem fields_grow (abort : Bool) : (fs : Fields) → ∀ (path : Path) (vals : List (String × Val)) (s : St),
    Grow s (decodeFields abort fs path vals s)
  | .nil, path, vals, s => by simp only [decodeFields]; exact Grow.refl _ _
  | .cons fname kind t rest, path, vals, s => by
    simp only [decodeFields]
    exact (fieldWith_grow _ (fun p sel s => decode_grow abort t p sel s) t.name kind _ vals s).bind fun v t' _ =>
      fields_grow abort rest path _ t'
end

theorem decodeArea_grow (abort : Bool) (tb : MsgTables) (enc : Bool) (t : Ty) (path : Path) (s : St) :
    Grow s (decodeArea abort tb enc t path s) := by
  unfold decodeArea
  split
  · split
    · exact decode_grow abort t path none s
    · apply Grow.of_emit
      exact (fields_grow abort _ path [] _).bind fun vals t' _ => Grow.refl _ _
  · exact decode_grow abort t path none s

theorem sizedLoop_grow (abort : Bool) (t : Ty) (path : Path) (cid : Nat) : ∀ (fuel i : Nat) (acc : List Val) (s : St),
    Grow s (sizedLoop abort t path cid fuel i acc s) := by
  intro fuel
  induction fuel with
  | zero => intro i acc s; exact Grow.of_quiet rfl
  | succ n ih =>
    intro i acc s
    unfold sizedLoop
    split
    · exact Grow.of_quiet rfl
    · split
      · exact Grow.of_quiet rfl
      · split
        · exact ownCatch_grow abort _ _ (decode_grow abort t _ none s) fun v t' _ => ih _ _ t'
        · exact (Grow.of_scs _ (assertDoneSC_grow abort _ _)).bind fun _ t' _ => Grow.refl _ _

theorem decodeSized_grow (abort : Bool) (t : Ty) (path : Path) (cid : Nat) (s : St) : Grow s (decodeSized abort t path cid s) := by
  unfold decodeSized
  apply Grow.of_emit
  exact sizedLoop_grow abort t path cid _ 0 [] _

theorem msgCatch_grow (abort : Bool) (id1 id2 : Nat) (name : String) (vals : List (String × Val)) {s : St} {r : R Val}
    (k : Val → St → R Val) (hr : Grow s r) (hk : ∀ v t, r = .ok (v, t) → Grow t (k v t)) :
    Grow s (msgCatch abort id1 id2 name vals r k) := by
  unfold msgCatch
  cases r with
  | error e =>
    obtain ⟨e, t⟩ := e
    cases e with
    | exceeded cid cp m a v b =>
      simp only []
      split
      · exact hr
      · exact Grow.trans_st (by obtain ⟨n, hn⟩ := hr; exact ⟨n, hn⟩) (Grow.of_emit _ (Grow.refl _ _))
    | _ => exact hr
  | ok vs =>
    obtain ⟨v, t⟩ := vs
    exact Grow.trans_st (by obtain ⟨n, hn⟩ := hr; exact ⟨n, hn⟩) (hk v t rfl)

macro "grow_step" : tactic => `(tactic| first
  | (with_reducible refine msgCatch_grow _ _ _ _ _ _ ?_ (fun _ _ _ => ?_))
  | (with_reducible refine Grow.bind ?_ (fun _ _ _ => ?_))
  | split
  | exact Grow.refl _ _ | exact Grow.err _ _ | exact Grow.of_quiet rfl
  | exact readPrim_grow _ _ _ _ | exact decodeArea_grow _ _ _ _ _ _ | exact decodeSized_grow _ _ _ _ _
  | exact assertDone_grow _ _ _ | exact openRegion_grow _ _ _ _ _ | exact setListed_grow _ _ _ _ _)

theorem decodeCommand_grow (abort : Bool) (tb : MsgTables) (path : Path) (s0 : St) : Grow s0 (decodeCommand abort tb path s0) := by
  unfold decodeCommand
  simp only []
  apply Grow.of_scs [⟨s0.pos, [], 0, none⟩]
  apply Grow.of_emit (.marshal ⟨path, .named "Command" false, none, "", 0⟩)
  repeat' grow_step

theorem decodeResponse_grow (abort : Bool) (tb : MsgTables) (cc : Option Int) (enc : Bool) (path : Path) (s0 : St) :
    Grow s0 (decodeResponse abort tb cc enc path s0) := by
  unfold decodeResponse
  simp only []
  apply Grow.of_scs [⟨s0.pos, [], 0, none⟩]
  apply Grow.of_emit (.marshal ⟨path, .named "Response" false, none, "", 0⟩)
  repeat' grow_step

theorem decodeStream_grow (abort : Bool) (tb : MsgTables) (path : Path) : ∀ (fuel : Nat) (s : St),
    Grow s (decodeStream abort tb path fuel s) := by
  intro fuel
  induction fuel with
  | zero => intro s; exact Grow.of_quiet rfl
  | succ n ih =>
    intro s
    unfold decodeStream
    split
    · exact Grow.of_emit _ (Grow.refl _ _)
    · refine (decodeCommand_grow abort tb path s).bind fun cmd s1 _ => ?_
      split
      · exact Grow.of_quiet rfl
      · split
        · exact Grow.of_emit _ (Grow.refl _ _)
        · exact (decodeResponse_grow abort tb _ _ path s1).bind fun _ s2 _ => ih s2

/-! ## the relation between the modes -/

def Err.isProblem : Err → Bool
  | .value _ _ _ => true
  | .exceeded _ _ _ _ _ _ => true
  | .subceeded _ _ _ _ => true
  | .anticipated _ _ _ _ _ _ _ => true
  | _ => false

/-- the trace `out` continues the strict trace `t.out` with the warning for `e` — after the offending event if `e` is a
value error -/
def FirstW (e : Err) (t : St) (out : List (Nat × Event)) : Prop :=
  (∃ rest, out = t.out ++ (t.pos, .warning e) :: rest) ∨
  (∃ ev x rest, out = t.out ++ (t.pos, .marshal ev) :: (t.pos, .warning e) :: rest ∧
    e = .value ev.path ev.vclass x ∧ ev.val = some x)

theorem FirstW.append {e : Err} {t : St} {out : List (Nat × Event)} (h : FirstW e t out) (more : List (Nat × Event)) :
    FirstW e t (out ++ more) := by
  rcases h with ⟨rest, h⟩ | ⟨ev, x, rest, h, h2, h3⟩
  · exact Or.inl ⟨rest ++ more, by rw [h]; simp⟩
  · exact Or.inr ⟨ev, x, rest ++ more, by rw [h]; simp, h2, h3⟩

theorem FirstW.grow {α : Type} {e : Err} {t t2 : St} {r : R α} (h : FirstW e t t2.out) (hg : Grow t2 r) :
    FirstW e t (stOf r).out := by
  obtain ⟨new, hn⟩ := hg
  rw [hn]; exact h.append new

def MRel {α : Type} (rs rw : R α) : Prop :=
  match rs with
  | .ok (v, t) => rw = .ok (v, t)
  | .error (e, t) => rw = .error (e, t) ∨ (e.isProblem = true ∧ FirstW e t (stOf rw).out)

theorem MRel.refl {α : Type} (r : R α) : MRel r r := by
  cases r with
  | ok vs => obtain ⟨v, t⟩ := vs; rfl
  | error es => obtain ⟨e, t⟩ := es; exact Or.inl rfl

theorem MRel.bind {α β : Type} {rs rw : R α} {fs fw : α → St → R β} (h : MRel rs rw)
    (hf : ∀ a t, rs = .ok (a, t) → MRel (fs a t) (fw a t)) (hg : ∀ a t, Grow t (fw a t)) :
    MRel (rs.bind fs) (rw.bind fw) := by
  cases rs with
  | ok vs =>
    obtain ⟨a, t⟩ := vs
    simp only [MRel] at h
    subst h
    exact hf a t rfl
  | error es =>
    obtain ⟨e, t⟩ := es
    simp only [MRel] at h
    rcases h with h | ⟨hp, hw⟩
    · subst h; exact Or.inl rfl
    · refine Or.inr ⟨hp, ?_⟩
      cases rw with
      | error e2 => exact hw
      | ok vs2 => obtain ⟨a2, t2⟩ := vs2; exact FirstW.grow hw (hg a2 t2)

/-- `try … except SizeConstraintExceededError` of a region owner -/
theorem MRel.ownCatch {rs rw : R Val} {ks kw : Val → St → R Val} (id : Nat) (h : MRel rs rw)
    (hk : ∀ a t, rs = .ok (a, t) → MRel (ks a t) (kw a t)) (hg : ∀ a t, Grow t (kw a t)) :
    MRel (_root_.ownCatch true id rs ks) (_root_.ownCatch false id rw kw) := by
  cases rs with
  | ok vs =>
    obtain ⟨a, t⟩ := vs
    simp only [MRel] at h
    subst h
    exact hk a t rfl
  | error es =>
    obtain ⟨e, t⟩ := es
    have hs : _root_.ownCatch true id (.error (e, t)) ks = .error (e, t) := by
      cases e <;> simp [_root_.ownCatch]
    rw [hs]
    simp only [MRel] at h
    rcases h with h | ⟨hp, hw⟩
    · subst h
      cases e with
      | exceeded cid cp m a v b =>
        simp only [_root_.ownCatch, Bool.false_or]
        split
        · exact Or.inl rfl
        · exact Or.inr ⟨rfl, Or.inl ⟨[], by simp [stOf, emitW, emit]⟩⟩
      | _ => exact Or.inl rfl
    · refine Or.inr ⟨hp, ?_⟩
      cases rw with
      | ok vs2 => obtain ⟨a2, t2⟩ := vs2; exact FirstW.grow hw (hg a2 t2)
      | error es2 =>
        obtain ⟨e2, t2⟩ := es2
        cases e2 with
        | exceeded cid cp m a v b =>
          simp only [_root_.ownCatch, Bool.false_or]
          split
          · exact hw
          · simp only [stOf] at hw ⊢
            exact hw.append _
        | _ => exact hw

theorem MRel.msgCatch {rs rw : R Val} {ks kw : Val → St → R Val} (id1 id2 : Nat) (name : String) (vals : List (String × Val))
    (h : MRel rs rw) (hk : ∀ a t, rs = .ok (a, t) → MRel (ks a t) (kw a t)) (hg : ∀ a t, Grow t (kw a t)) :
    MRel (_root_.msgCatch true id1 id2 name vals rs ks) (_root_.msgCatch false id1 id2 name vals rw kw) := by
  cases rs with
  | ok vs =>
    obtain ⟨a, t⟩ := vs
    simp only [MRel] at h
    subst h
    exact hk a t rfl
  | error es =>
    obtain ⟨e, t⟩ := es
    have hs : _root_.msgCatch true id1 id2 name vals (.error (e, t)) ks = .error (e, t) := by
      cases e <;> simp [_root_.msgCatch]
    rw [hs]
    simp only [MRel] at h
    rcases h with h | ⟨hp, hw⟩
    · subst h
      cases e with
      | exceeded cid cp m a v b =>
        simp only [_root_.msgCatch, Bool.false_or]
        split
        · exact Or.inl rfl
        · exact Or.inr ⟨rfl, Or.inl ⟨[], by simp [stOf, emitW, emit]⟩⟩
      | _ => exact Or.inl rfl
    · refine Or.inr ⟨hp, ?_⟩
      cases rw with
      | ok vs2 => obtain ⟨a2, t2⟩ := vs2; exact FirstW.grow hw (hg a2 t2)
      | error es2 =>
        obtain ⟨e2, t2⟩ := es2
        cases e2 with
        | exceeded cid cp m a v b =>
          simp only [_root_.msgCatch, Bool.false_or]
          split
          · exact hw
          · simp only [stOf] at hw ⊢
            exact hw.append _
        | _ => exact hw

/-! ## every step, both modes -/

theorem readPrim_mrel (p : Prim) (path : Path) (s : St) : MRel (readPrim true p path s) (readPrim false p path s) := by
  unfold readPrim
  refine (MRel.refl (bytesParsed path p.size s)).bind (fun _ t _ => ?_)
    (fun _ t => (take_grow _ t).bind fun bs t2 _ => by
      simp only []
      split
      · exact Grow.of_emit _ (Grow.refl _ _)
      · simp only [Bool.false_eq_true, if_false]; exact Grow.of_emit _ (Grow.of_emit _ (Grow.refl _ _)))
  refine (MRel.refl (take p.size t)).bind (fun bs t2 _ => ?_) (fun bs t2 => by
      simp only []
      split
      · exact Grow.of_emit _ (Grow.refl _ _)
      · simp only [Bool.false_eq_true, if_false]; exact Grow.of_emit _ (Grow.of_emit _ (Grow.refl _ _)))
  simp only []
  split
  · exact MRel.refl _
  · simp only [if_true, Bool.false_eq_true, if_false]
    refine Or.inr ⟨rfl, Or.inr ⟨⟨path, .named p.name false, some (p.ofBytes bs), p.name, p.size⟩, p.ofBytes bs, [], ?_, rfl, rfl⟩⟩
    simp [stOf, emitW, emitM, emit]

theorem anticipateM_mrel (vpath : Path) (v id : Nat) (s : St) :
    MRel (anticipateM true vpath v id s) (anticipateM false vpath v id s) := by
  unfold anticipateM
  split
  · exact MRel.refl _
  · rename_i e he
    simp only [if_true, Bool.false_eq_true, if_false]
    have hp : e.isProblem = true := by
      have : ∀ (scs : List SC) e, anticipate vpath v id scs = some e → e.isProblem = true := by
        intro scs
        induction scs with
        | nil => intro e h; simp [anticipate] at h
        | cons d rest ih =>
          intro e h
          unfold anticipate at h
          split at h
          · exact ih e h
          · split at h
            · simp only [Option.some.injEq] at h; subst h; rfl
            · exact ih e h
      exact this _ _ he
    exact Or.inr ⟨hp, Or.inl ⟨[], by simp [stOf, emitW, emit]⟩⟩

theorem openRegion_mrel (id : Nat) (cpath : Path) (n : Nat) (s : St) :
    MRel (openRegion true id cpath n s) (openRegion false id cpath n s) := by
  unfold openRegion
  exact (anticipateM_mrel cpath n id s).bind (fun _ t _ => MRel.refl _) (fun _ t => Grow.of_quiet rfl)

theorem setListed_mrel (id : Nat) (cpath : Path) (n : Nat) (s : St) :
    MRel (setListed true id cpath n s) (setListed false id cpath n s) := by
  unfold setListed
  exact anticipateM_mrel cpath n id _

theorem assertDoneSC_mrel (c : SC) (s : St) : MRel (assertDoneSC true c s) (assertDoneSC false c s) := by
  unfold assertDoneSC
  cases hm : c.max with
  | none => exact MRel.refl _
  | some m =>
    simp only []
    by_cases heq : c.already = m
    · simp only [heq, if_true]; exact MRel.refl _
    · simp only [heq, if_false, if_true, Bool.false_eq_true]
      have h0 : FirstW (Err.subceeded c.id c.path m c.already) s (emitW (Err.subceeded c.id c.path m c.already) s).out :=
        Or.inl ⟨[], by simp [emitW, emit]⟩
      refine Or.inr ⟨rfl, ?_⟩
      by_cases hlt : c.already < m
      · simp only [hlt, if_true]
        exact FirstW.grow h0 ((bytesParsed_grow _ _ _).bind fun _ t _ => consume_grow _ t)
      · simp only [hlt, if_false]
        exact h0

theorem assertDone_mrel (id : Nat) (s : St) : MRel (assertDone true id s) (assertDone false id s) := by
  unfold assertDone
  split
  · exact MRel.refl _
  · exact assertDoneSC_mrel _ _

theorem repeatDec_mrel (fs fw : Path → St → R Val) (h : ∀ p s, MRel (fs p s) (fw p s)) (hg : ∀ p s, Grow s (fw p s))
    (path : Path) : ∀ (n i : Nat) (s : St), MRel (repeatDec fs path n i s) (repeatDec fw path n i s) := by
  intro n
  induction n with
  | zero => intro i s; exact MRel.refl _
  | succ m ih =>
    intro i s
    unfold repeatDec
    refine (h _ s).bind (fun v t _ => ?_) (fun v t => (repeatDec_grow fw hg path m (i+1) t).bind fun vs t2 _ => Grow.refl _ _)
    exact (ih (i+1) t).bind (fun vs t2 _ => MRel.refl _) (fun vs t2 => Grow.refl _ _)

theorem readPrimList_mrel (p : Prim) (path : Path) (n : Nat) (s : St) :
    MRel (readPrimList true p path n s) (readPrimList false p path n s) := by
  unfold readPrimList
  exact (repeatDec_mrel _ _ (fun q s => readPrim_mrel p q s) (fun q s => readPrim_grow false p q s) path n 0 _).bind
    (fun vs t _ => MRel.refl _) (fun vs t => Grow.refl _ _)

theorem readListArm_mrel (elem : Prim) (n : Option Nat) (path : Path) (s : St) :
    MRel (readListArm true elem n path s) (readListArm false elem n path s) := by
  unfold readListArm
  cases n with
  | none => exact MRel.refl _
  | some k => exact readPrimList_mrel elem path k s

theorem fieldWith_mrel (ds dw : Path → Option Int → St → R Val) (h : ∀ p sel s, MRel (ds p sel s) (dw p sel s))
    (hg : ∀ p sel s, Grow s (dw p sel s)) (tname : String) (kind : FKind) (fpath : Path) (vals : List (String × Val)) (s : St) :
    MRel (decodeFieldWith ds tname kind fpath vals s) (decodeFieldWith dw tname kind fpath vals s) := by
  cases kind with
  | plain => exact h _ _ _
  | selected sel =>
    simp only [decodeFieldWith]
    split
    · exact MRel.refl _
    · exact h _ _ _
  | counted =>
    simp only [decodeFieldWith]
    split
    · exact MRel.refl _
    · exact (repeatDec_mrel _ _ (fun p s => h p none s) (fun p s => hg p none s) fpath _ 0 _).bind
        (fun vs t _ => MRel.refl _) (fun vs t => Grow.refl _ _)

mutual
theorem decode_mrel : (t : Ty) → ∀ (path : Path) (sel : Option Int) (s : St),
    MRel (decode true t path sel s) (decode false t path sel s)
  | .prim p, path, sel, s => by simp only [decode]; exact readPrim_mrel p path s
  | .struct name isP fs, path, sel, s => by
    simp only [decode]
    exact (fields_mrel fs path [] _).bind (fun vals t _ => MRel.refl _) (fun vals t => Grow.refl _ _)
  | .tpm2bBytes name szName szP bufName elem, path, sel, s => by
    simp only [decode]
    refine (readPrim_mrel szP _ _).bind (fun nv s1 _ => ?_) (fun nv s1 => ?_)
    · split
      · exact MRel.refl _
      · refine (openRegion_mrel _ _ _ s1).bind (fun _ s2 _ => ?_) (fun _ s2 => ?_)
        · refine (readPrimList_mrel elem _ _ s2).bind (fun bv s3 _ => ?_) (fun bv s3 => ?_)
          · exact (assertDone_mrel _ s3).bind (fun _ s4 _ => MRel.refl _) (fun _ s4 => Grow.refl _ _)
          · exact (assertDone_grow false _ s3).bind fun _ s4 _ => Grow.refl _ _
        · exact (readPrimList_grow false elem _ _ s2).bind fun bv s3 _ =>
            (assertDone_grow false _ s3).bind fun _ s4 _ => Grow.refl _ _
    · split
      · exact Grow.of_quiet rfl
      · exact (openRegion_grow false _ _ _ s1).bind fun _ s2 _ => (readPrimList_grow false elem _ _ s2).bind fun bv s3 _ =>
          (assertDone_grow false _ s3).bind fun _ s4 _ => Grow.refl _ _
  | .tpm2b name szName szP bufName body, path, sel, s => by
    simp only [decode]
    refine (readPrim_mrel szP _ _).bind (fun nv s1 _ => ?_) (fun nv s1 => ?_)
    · split
      · exact MRel.refl _
      · refine (openRegion_mrel _ _ _ s1).bind (fun _ s2 _ => ?_) (fun _ s2 => ?_)
        · split
          · exact (assertDone_mrel _ _).bind (fun _ s4 _ => MRel.refl _) (fun _ s4 => Grow.refl _ _)
          · exact MRel.ownCatch _ (decode_mrel body _ none s2)
              (fun bv s3 _ => (assertDone_mrel _ s3).bind (fun _ s4 _ => MRel.refl _) (fun _ s4 => Grow.refl _ _))
              (fun bv s3 => (assertDone_grow false _ s3).bind fun _ s4 _ => Grow.refl _ _)
        · split
          · exact Grow.of_emit _ ((assertDone_grow false _ _).bind fun _ s4 _ => Grow.refl _ _)
          · exact ownCatch_grow false _ _ (decode_grow false body _ none s2) fun bv s3 _ =>
              (assertDone_grow false _ s3).bind fun _ s4 _ => Grow.refl _ _
    · split
      · exact Grow.of_quiet rfl
      · refine (openRegion_grow false _ _ _ s1).bind fun _ s2 _ => ?_
        split
        · exact Grow.of_emit _ ((assertDone_grow false _ _).bind fun _ s4 _ => Grow.refl _ _)
        · exact ownCatch_grow false _ _ (decode_grow false body _ none s2) fun bv s3 _ =>
            (assertDone_grow false _ s3).bind fun _ s4 _ => Grow.refl _ _
  | .union name arms, path, sel, s => by
    simp only [decode]
    split
    · exact MRel.refl _
    · exact arm_mrel arms name _ path _
  | .bad r, path, sel, s => by simp only [decode]; exact MRel.refl _

theorem arm_mrel : (arms : Arms) → ∀ (un want : String) (path : Path) (s : St),
    MRel (decodeArm true arms un want path s) (decodeArm false arms un want path s)
  | .nil, un, want, path, s => by simp only [decodeArm]; exact MRel.refl _
  | .consNone an key rest, un, want, path, s => by
    simp only [decodeArm]
    split
    · exact MRel.refl _
    · exact arm_mrel rest un want path s
  | .cons an key t rest, un, want, path, s => by
    simp only [decodeArm]
    split
    · exact (decode_mrel t _ none s).bind (fun v t' _ => MRel.refl _) (fun v t' => Grow.refl _ _)
    · exact arm_mrel rest un want path s
  | .consBytes an key elem n rest, un, want, path, s => by
    simp only [decodeArm]
    split
    · exact (readListArm_mrel elem n _ s).bind (fun v t' _ => MRel.refl _) (fun v t' => Grow.refl _ _)
    · exact arm_mrel rest un want path s

theorem fields_mrel : (fs : Fields) → ∀ (path : Path) (vals : List (String × Val)) (s : St),
    MRel (decodeFields true fs path vals s) (decodeFields false fs path vals s)
  | .nil, path, vals, s => by simp only [decodeFields]; exact MRel.refl _
  | .cons fname kind t rest, path, vals, s => by
    simp only [decodeFields]
    exact (fieldWith_mrel _ _ (fun p sel s => decode_mrel t p sel s) (fun p sel s => decode_grow false t p sel s)
      t.name kind _ vals s).bind (fun v t' _ => fields_mrel rest path _ t') (fun v t' => fields_grow false rest path _ t')
end

/-! ## messages -/

theorem decodeArea_mrel (tb : MsgTables) (enc : Bool) (t : Ty) (path : Path) (s : St) :
    MRel (decodeArea true tb enc t path s) (decodeArea false tb enc t path s) := by
  unfold decodeArea
  split
  · split
    · exact decode_mrel t path none s
    · exact (fields_mrel _ path [] _).bind (fun vals t' _ => MRel.refl _) (fun vals t' => Grow.refl _ _)
  · exact decode_mrel t path none s

theorem sizedLoop_mrel (t : Ty) (path : Path) (cid : Nat) : ∀ (fuel i : Nat) (acc : List Val) (s : St),
    MRel (sizedLoop true t path cid fuel i acc s) (sizedLoop false t path cid fuel i acc s) := by
  intro fuel
  induction fuel with
  | zero => intro i acc s; exact MRel.refl _
  | succ n ih =>
    intro i acc s
    unfold sizedLoop
    split
    · exact MRel.refl _
    · split
      · exact MRel.refl _
      · split
        · exact MRel.ownCatch _ (decode_mrel t _ none s) (fun v t' _ => ih _ _ t') (fun v t' => sizedLoop_grow false t path cid _ _ _ t')
        · exact (assertDoneSC_mrel _ _).bind (fun _ t' _ => MRel.refl _) (fun _ t' => Grow.refl _ _)

theorem decodeSized_mrel (t : Ty) (path : Path) (cid : Nat) (s : St) :
    MRel (decodeSized true t path cid s) (decodeSized false t path cid s) := by
  unfold decodeSized
  exact sizedLoop_mrel t path cid _ 0 [] _

macro "mrel_step" : tactic => `(tactic| first
  | (with_reducible refine MRel.msgCatch _ _ _ _ ?_ (fun _ _ _ => ?_) (fun _ _ => ?_))
  | (with_reducible refine MRel.bind ?_ (fun _ _ _ => ?_) (fun _ _ => ?_))
  | (with_reducible exact MRel.refl _)
  | (with_reducible refine msgCatch_grow _ _ _ _ _ _ ?_ (fun _ _ _ => ?_))
  | (with_reducible refine Grow.bind ?_ (fun _ _ _ => ?_))
  | split
  | exact readPrim_mrel _ _ _ | exact decodeArea_mrel _ _ _ _ _ | exact decodeSized_mrel _ _ _ _
  | exact assertDone_mrel _ _ | exact openRegion_mrel _ _ _ _ | exact setListed_mrel _ _ _ _
  | exact MRel.refl _
  | exact Grow.refl _ _ | exact Grow.err _ _ | exact Grow.of_quiet rfl
  | exact readPrim_grow _ _ _ _ | exact decodeArea_grow _ _ _ _ _ _ | exact decodeSized_grow _ _ _ _ _
  | exact assertDone_grow _ _ _ | exact openRegion_grow _ _ _ _ _ | exact setListed_grow _ _ _ _ _)

theorem decodeCommand_mrel (tb : MsgTables) (path : Path) (s0 : St) :
    MRel (decodeCommand true tb path s0) (decodeCommand false tb path s0) := by
  unfold decodeCommand
  simp only []
  repeat' mrel_step

set_option maxHeartbeats 1000000 in
theorem decodeResponse_mrel (tb : MsgTables) (cc : Option Int) (enc : Bool) (path : Path) (s0 : St) :
    MRel (decodeResponse true tb cc enc path s0) (decodeResponse false tb cc enc path s0) := by
  unfold decodeResponse
  simp only []
  repeat' mrel_step

theorem decodeStream_mrel (tb : MsgTables) (path : Path) : ∀ (fuel : Nat) (s : St),
    MRel (decodeStream true tb path fuel s) (decodeStream false tb path fuel s) := by
  intro fuel
  induction fuel with
  | zero => intro s; exact MRel.refl _
  | succ n ih =>
    intro s
    unfold decodeStream
    split
    · exact MRel.refl _
    · refine (decodeCommand_mrel tb path s).bind (fun cmd s1 _ => ?_) (fun cmd s1 => ?_)
      · split
        · exact MRel.refl _
        · split
          · exact MRel.refl _
          · exact (decodeResponse_mrel tb _ _ path s1).bind (fun _ s2 _ => ih s2) (fun _ s2 => decodeStream_grow false tb path n s2)
      · split
        · exact Grow.of_quiet rfl
        · split
          · exact Grow.of_emit _ (Grow.refl _ _)
          · exact (decodeResponse_grow false tb _ _ path s1).bind fun _ s2 _ => decodeStream_grow false tb path n s2

/-- **both modes, every top-level decode** -/
theorem runWalker_mrel (tb : MsgTables) (top : Top) (x : List Byte) :
    MRel (runWalker true tb top x) (runWalker false tb top x) := by
  unfold runWalker
  cases top with
  | ty t => exact decode_mrel t rootPath none _
  | command => exact decodeCommand_mrel tb rootPath _
  | response cc enc => exact decodeResponse_mrel tb cc enc rootPath _
  | stream => exact decodeStream_mrel tb rootPath _ _

/-! ## strict mode never emits a warning -/

def Event.isMarshal : Event → Bool
  | .marshal _ => true
  | .warning _ => false

def NW {α : Type} (s : St) (r : R α) : Prop :=
  ∃ new, (stOf r).out = s.out ++ new ∧ ∀ ke ∈ new, ke.2.isMarshal = true

theorem NW.quiet {α : Type} {s : St} {r : R α} (h : (stOf r).out = s.out) : NW s r :=
  ⟨[], by simp [h], by intro ke hke; cases hke⟩

theorem NW.bind {α β : Type} {s : St} {r : R α} {f : α → St → R β} (h : NW s r)
    (hf : ∀ a t, r = .ok (a, t) → NW t (f a t)) : NW s (r.bind f) := by
  cases r with
  | error e => obtain ⟨e, t⟩ := e; exact h
  | ok at' =>
    obtain ⟨a, t⟩ := at'
    obtain ⟨n1, h1, m1⟩ := h
    obtain ⟨n2, h2, m2⟩ := hf a t rfl
    refine ⟨n1 ++ n2, by simp only [R.bind_ok]; rw [h2]; simp only [stOf] at h1; rw [h1, List.append_assoc], ?_⟩
    intro ke hke
    simp only [List.mem_append] at hke
    rcases hke with hke | hke
    · exact m1 ke hke
    · exact m2 ke hke

theorem NW.of_emitM {α : Type} {s : St} (e : MEvent) {r : R α} (h : NW (emitM e s) r) : NW s r := by
  obtain ⟨n, h1, m⟩ := h
  refine ⟨(s.pos, .marshal e) :: n, by rw [h1]; simp [emitM, emit], ?_⟩
  intro ke hke
  simp only [List.mem_cons] at hke
  rcases hke with rfl | hke
  · rfl
  · exact m ke hke

theorem NW.of_scs {α : Type} {s : St} (scs : List SC) {r : R α} (h : NW { s with scs := scs } r) : NW s r := h

theorem take_nw (n : Nat) (s : St) : NW s (take n s) := by
  unfold take; split <;> exact NW.quiet rfl

theorem consume_nw (n : Nat) (s : St) : NW s (consume n s) := by
  unfold consume; exact (take_nw n s).bind fun _ t _ => NW.quiet rfl

theorem bpGo_nw (path : Path) (size : Nat) : ∀ (todo done : List SC) (s : St), NW s (bpGo path size done todo s) := by
  intro todo
  induction todo with
  | nil => intro done s; exact NW.quiet rfl
  | cons c rest ih =>
    intro done s
    unfold bpGo
    split
    · exact NW.of_scs _ ((consume_nw _ _).bind fun _ t _ => NW.quiet rfl)
    · exact ih _ _

theorem readPrim_nw (p : Prim) (path : Path) (s : St) : NW s (readPrim true p path s) := by
  unfold readPrim
  refine (bpGo_nw _ _ s.scs [] s).bind fun _ t _ => (take_nw _ t).bind fun bs t2 _ => ?_
  simp only [if_true]
  split
  · exact NW.of_emitM _ (NW.quiet rfl)
  · exact NW.quiet rfl

theorem anticipateM_nw (vpath : Path) (v id : Nat) (s : St) : NW s (anticipateM true vpath v id s) := by
  unfold anticipateM
  split
  · exact NW.quiet rfl
  · simp only [if_true]; exact NW.quiet rfl

theorem openRegion_nw (id : Nat) (cpath : Path) (n : Nat) (s : St) : NW s (openRegion true id cpath n s) := by
  unfold openRegion
  exact (anticipateM_nw _ _ _ s).bind fun _ t _ => NW.quiet rfl

theorem setListed_nw (id : Nat) (cpath : Path) (n : Nat) (s : St) : NW s (setListed true id cpath n s) := by
  unfold setListed
  exact NW.of_scs _ (anticipateM_nw _ _ _ _)

theorem assertDoneSC_nw (c : SC) (s : St) : NW s (assertDoneSC true c s) := by
  unfold assertDoneSC
  split
  · exact NW.quiet rfl
  · split
    · exact NW.quiet rfl
    · simp only [if_true]; exact NW.quiet rfl

theorem assertDone_nw (id : Nat) (s : St) : NW s (assertDone true id s) := by
  unfold assertDone
  split
  · exact NW.quiet rfl
  · exact NW.of_scs _ (assertDoneSC_nw _ _)

theorem repeatDec_nw (f : Path → St → R Val) (hf : ∀ p s, NW s (f p s)) (path : Path) :
    ∀ (n i : Nat) (s : St), NW s (repeatDec f path n i s) := by
  intro n
  induction n with
  | zero => intro i s; exact NW.quiet rfl
  | succ m ih =>
    intro i s
    unfold repeatDec
    exact (hf _ s).bind fun v t _ => (ih (i+1) t).bind fun vs t2 _ => NW.quiet rfl

theorem readPrimList_nw (p : Prim) (path : Path) (n : Nat) (s : St) : NW s (readPrimList true p path n s) := by
  unfold readPrimList
  apply NW.of_emitM
  exact (repeatDec_nw _ (fun q s => readPrim_nw p q s) path n 0 _).bind fun vs t _ => NW.quiet rfl

theorem readListArm_nw (elem : Prim) (n : Option Nat) (path : Path) (s : St) : NW s (readListArm true elem n path s) := by
  unfold readListArm
  cases n with
  | none => exact NW.quiet rfl
  | some k => exact readPrimList_nw elem path k s

theorem fieldWith_nw (d : Path → Option Int → St → R Val) (hd : ∀ p sel s, NW s (d p sel s)) (tname : String)
    (kind : FKind) (fpath : Path) (vals : List (String × Val)) (s : St) :
    NW s (decodeFieldWith d tname kind fpath vals s) := by
  cases kind with
  | plain => exact hd _ _ _
  | selected sel =>
    simp only [decodeFieldWith]
    split
    · exact NW.quiet rfl
    · exact hd _ _ _
  | counted =>
    simp only [decodeFieldWith]
    split
    · exact NW.quiet rfl
    · apply NW.of_emitM
      exact (repeatDec_nw _ (fun p s => hd p none s) fpath _ 0 _).bind fun vs t _ => NW.quiet rfl

theorem ownCatch_strict' (id : Nat) (r : R Val) (g : Val → St → R Val) : ownCatch true id r g = r.bind g := by
  unfold ownCatch
  cases r with
  | error e => obtain ⟨e, s⟩ := e; cases e <;> simp [R.bind]
  | ok v => obtain ⟨v, s⟩ := v; simp [R.bind]

theorem msgCatch_strict' (id1 id2 : Nat) (name : String) (vals : List (String × Val)) (r : R Val) (g : Val → St → R Val) :
    msgCatch true id1 id2 name vals r g = r.bind g := by
  unfold msgCatch
  cases r with
  | error e => obtain ⟨e, s⟩ := e; cases e <;> simp [R.bind]
  | ok v => obtain ⟨v, s⟩ := v; simp [R.bind]

mutual
theorem decode_nw : (t : Ty) → ∀ (path : Path) (sel : Option Int) (s : St), NW s (decode true t path sel s)
  | .prim p, path, sel, s => by simp only [decode]; exact readPrim_nw p path s
  | .struct name isP fs, path, sel, s => by
    simp only [decode]
    apply NW.of_emitM
    exact (fields_nw fs path [] _).bind fun vals t _ => NW.quiet rfl
  | .tpm2bBytes name szName szP bufName elem, path, sel, s => by
    simp only [decode]
    apply NW.of_emitM
    refine (readPrim_nw szP _ _).bind fun nv s1 _ => ?_
    split
    · exact NW.quiet rfl
    · refine (openRegion_nw _ _ _ s1).bind fun _ s2 _ => ?_
      refine (readPrimList_nw elem _ _ s2).bind fun bv s3 _ => ?_
      exact (assertDone_nw _ s3).bind fun _ s4 _ => NW.quiet rfl
  | .tpm2b name szName szP bufName body, path, sel, s => by
    simp only [decode, ownCatch_strict']
    apply NW.of_emitM
    refine (readPrim_nw szP _ _).bind fun nv s1 _ => ?_
    split
    · exact NW.quiet rfl
    · refine (openRegion_nw _ _ _ s1).bind fun _ s2 _ => ?_
      split
      · apply NW.of_emitM
        exact (assertDone_nw _ _).bind fun _ s4 _ => NW.quiet rfl
      · exact (decode_nw body _ none s2).bind fun bv s3 _ => (assertDone_nw _ s3).bind fun _ s4 _ => NW.quiet rfl
  | .union name arms, path, sel, s => by
    simp only [decode]
    apply NW.of_emitM
    split
    · split <;> exact NW.quiet rfl
    · exact arm_nw arms name _ path _
  | .bad r, path, sel, s => by simp only [decode]; exact NW.quiet rfl

theorem arm_nw : (arms : Arms) → ∀ (un want : String) (path : Path) (s : St), NW s (decodeArm true arms un want path s)
  | .nil, un, want, path, s => by simp only [decodeArm]; exact NW.quiet rfl
  | .consNone an key rest, un, want, path, s => by
    simp only [decodeArm]
    split
    · exact NW.quiet rfl
    · exact arm_nw rest un want path s
  | .cons an key t rest, un, want, path, s => by
    simp only [decodeArm]
    split
    · exact (decode_nw t _ none s).bind fun v t' _ => NW.quiet rfl
    · exact arm_nw rest un want path s
  | .consBytes an key elem n rest, un, want, path, s => by
    simp only [decodeArm]
    split
    · exact (readListArm_nw elem n _ s).bind fun v t' _ => NW.quiet rfl
    · exact arm_nw rest un want path s

theorem fields_nw : (fs : Fields) → ∀ (path : Path) (vals : List (String × Val)) (s : St),
    NW s (decodeFields true fs path vals s)
  | .nil, path, vals, s => by simp only [decodeFields]; exact NW.quiet rfl
  | .cons fname kind t rest, path, vals, s => by
    simp only [decodeFields]
    exact (fieldWith_nw _ (fun p sel s => decode_nw t p sel s) t.name kind _ vals s).bind fun v t' _ =>
      fields_nw rest path _ t'
end

theorem decodeArea_nw (tb : MsgTables) (enc : Bool) (t : Ty) (path : Path) (s : St) : NW s (decodeArea true tb enc t path s) := by
  unfold decodeArea
  split
  · split
    · exact decode_nw t path none s
    · apply NW.of_emitM
      exact (fields_nw _ path [] _).bind fun vals t' _ => NW.quiet rfl
  · exact decode_nw t path none s

theorem sizedLoop_nw (t : Ty) (path : Path) (cid : Nat) : ∀ (fuel i : Nat) (acc : List Val) (s : St),
    NW s (sizedLoop true t path cid fuel i acc s) := by
  intro fuel
  induction fuel with
  | zero => intro i acc s; exact NW.quiet rfl
  | succ n ih =>
    intro i acc s
    unfold sizedLoop
    simp only [ownCatch_strict']
    split
    · exact NW.quiet rfl
    · split
      · exact NW.quiet rfl
      · split
        · exact (decode_nw t _ none s).bind fun v t' _ => ih _ _ t'
        · exact (NW.of_scs _ (assertDoneSC_nw _ _)).bind fun _ t' _ => NW.quiet rfl

theorem decodeSized_nw (t : Ty) (path : Path) (cid : Nat) (s : St) : NW s (decodeSized true t path cid s) := by
  unfold decodeSized
  apply NW.of_emitM
  exact sizedLoop_nw t path cid _ 0 [] _

macro "nw_step" : tactic => `(tactic| first
  | (with_reducible refine NW.bind ?_ (fun _ _ _ => ?_))
  | split
  | exact NW.quiet rfl
  | exact readPrim_nw _ _ _ | exact decodeArea_nw _ _ _ _ _ | exact decodeSized_nw _ _ _ _
  | exact assertDone_nw _ _ | exact openRegion_nw _ _ _ _ | exact setListed_nw _ _ _ _)

theorem decodeCommand_nw (tb : MsgTables) (path : Path) (s0 : St) : NW s0 (decodeCommand true tb path s0) := by
  unfold decodeCommand
  simp only [msgCatch_strict']
  apply NW.of_scs [⟨s0.pos, [], 0, none⟩]
  apply NW.of_emitM ⟨path, .named "Command" false, none, "", 0⟩
  repeat' nw_step

theorem decodeResponse_nw (tb : MsgTables) (cc : Option Int) (enc : Bool) (path : Path) (s0 : St) :
    NW s0 (decodeResponse true tb cc enc path s0) := by
  unfold decodeResponse
  simp only [msgCatch_strict']
  apply NW.of_scs [⟨s0.pos, [], 0, none⟩]
  apply NW.of_emitM ⟨path, .named "Response" false, none, "", 0⟩
  repeat' nw_step

theorem decodeStream_nw (tb : MsgTables) (path : Path) : ∀ (fuel : Nat) (s : St), NW s (decodeStream true tb path fuel s) := by
  intro fuel
  induction fuel with
  | zero => intro s; exact NW.quiet rfl
  | succ n ih =>
    intro s
    unfold decodeStream
    split
    · exact NW.of_emitM _ (NW.quiet rfl)
    · refine (decodeCommand_nw tb path s).bind fun cmd s1 _ => ?_
      split
      · exact NW.quiet rfl
      · split
        · exact NW.of_emitM _ (NW.quiet rfl)
        · exact (decodeResponse_nw tb _ _ path s1).bind fun _ s2 _ => ih s2

/-- a strict run's trace consists of field events only -/
theorem runWalker_nw (tb : MsgTables) (top : Top) (x : List Byte) :
    ∀ ke ∈ (stOf (runWalker true tb top x)).out, ke.2.isMarshal = true := by
  have h : NW (initSt x) (runWalker true tb top x) := by
    unfold runWalker
    cases top with
    | ty t => exact decode_nw t rootPath none _
    | command => exact decodeCommand_nw tb rootPath _
    | response cc enc => exact decodeResponse_nw tb cc enc rootPath _
    | stream => exact decodeStream_nw tb rootPath _ _
  obtain ⟨new, h1, m⟩ := h
  rw [h1]; simpa [initSt] using m
