import TpmProofs.Warn
import TpmProofs.MsgNoCrash
import TpmProofs.PosInp
/-!
# Warn mode never fails with an internal error (C08: "decoding never aborts on malformed data")

`Warn.lean` shows that no *size* error escapes a warn-mode decode; it allows internal errors (the model's `crash`) as
outcomes.  Here they are excluded: under the same static side conditions on the tables as for strict mode (`Ty.total`,
kernel-decided over the regenerated tables) the warn-mode walker, on ANY input, in any context with fresh region ids,
never ends in a `crash` — no `AssertionError`, `TypeError`, `KeyError`, `IndexError`, `RuntimeError`, `NameError`, and
the session loop never runs out of steps (its bound is the room left in its region, so it is part of the statement
that every completed session is charged to that region).

Strict mode gets the state after a successful step from soundness (`decode_sound`: exactly the dictated bytes were
consumed and charged).  Warn mode accepts non-conforming input, so the post-state has to be characterised directly:

`WC s r` — *charging*: the position never moves back, `r` is not a crash, and
* a successful step leaves exactly the regions it found, each charged exactly the bytes consumed
  (`t.scs = bump s.scs (t.pos - s.pos)`) — also across reported overruns (the skipped tail of the region is charged to the
  enclosing regions), reported shortfalls (the padding is charged) and out-of-range values;
* a step that stops with `exceeded` for region `c` leaves exactly the regions outside `c`, each charged exactly the bytes
  consumed on the way.
-/

def WC {α : Type} (s : St) (r : R α) : Prop :=
  s.pos ≤ (stOf r).pos ∧ NC r ∧
  match r with
  | .ok (_, t) => t.scs = bump s.scs (t.pos - s.pos)
  | .error (e, t) => ∀ cid cp m a v b, e = .exceeded cid cp m a v b →
      ∃ pre c post, s.scs = pre ++ c :: post ∧ c.id = cid ∧ t.scs = bump pre (t.pos - s.pos)

theorem WC.ok {α : Type} (s : St) (a : α) : WC s (.ok (a, s) : R α) :=
  ⟨Nat.le_refl _, NC.ok _ _, by simp⟩

theorem WC.of_emit {α : Type} {s : St} (e : Event) {r : R α} (h : WC (emit e s) r) : WC s r := h

theorem bump_split {l : List SC} {k : Nat} {pre : List SC} {c : SC} {post : List SC} (h : bump l k = pre ++ c :: post) :
    ∃ pre0 c0 post0, l = pre0 ++ c0 :: post0 ∧ pre = bump pre0 k ∧ c0.id = c.id := by
  induction l generalizing pre with
  | nil => simp [bump] at h
  | cons d rest ih =>
    cases pre with
    | nil =>
      simp only [bump, List.map_cons, List.nil_append, List.cons.injEq] at h
      exact ⟨[], d, rest, rfl, rfl, by rw [← h.1]; rfl⟩
    | cons p pre' =>
      simp only [bump, List.map_cons, List.cons_append, List.cons.injEq] at h
      obtain ⟨pre0, c0, post0, hl, hp, hc⟩ := ih (pre := pre') h.2
      exact ⟨d :: pre0, c0, post0, by rw [hl]; rfl, by rw [hp, ← h.1]; rfl, hc⟩

theorem WC.bind {α β : Type} {s : St} {r : R α} {f : α → St → R β} (h : WC s r)
    (hf : ∀ a t, r = .ok (a, t) → WC t (f a t)) : WC s (r.bind f) := by
  cases r with
  | error e =>
    obtain ⟨e, t⟩ := e
    simp only [R.bind_error]
    exact ⟨h.1, fun c m t' hh => h.2.1 c m t' (by simp only [Except.error.injEq, Prod.mk.injEq] at hh ⊢; exact hh), h.2.2⟩
  | ok at' =>
    obtain ⟨a, t⟩ := at'
    obtain ⟨hp, _, hs⟩ := h
    simp only [stOf] at hp hs
    obtain ⟨gp, gn, gs⟩ := hf a t rfl
    simp only [R.bind_ok]
    refine ⟨by omega, gn, ?_⟩
    cases hr : f a t with
    | ok bt =>
      obtain ⟨b, t2⟩ := bt
      rw [hr] at gs gp
      simp only [stOf] at gs gp ⊢
      rw [gs, hs, bump_bump]
      congr 1; omega
    | error et =>
      obtain ⟨e, t2⟩ := et
      rw [hr] at gs gp
      simp only [stOf] at gs gp ⊢
      intro cid cp m a' v b he
      obtain ⟨pre, c, post, hdec, hcid, hscs⟩ := gs cid cp m a' v b he
      rw [hs] at hdec
      obtain ⟨pre0, c0, post0, hl, hpre, hc0⟩ := bump_split hdec
      refine ⟨pre0, c0, post0, hl, by rw [hc0, hcid], ?_⟩
      rw [hscs, hpre, bump_bump]
      congr 1; omega

theorem WC.fresh {α : Type} {s t : St} {a : α} (h : WC s (.ok (a, t) : R α)) (hf : Fresh s.scs s.pos) : Fresh t.scs t.pos := by
  obtain ⟨hp, _, hs⟩ := h
  simp only [stOf] at hp hs
  rw [hs]
  have := fresh_bump (k := t.pos - s.pos) hf
  rwa [show s.pos + (t.pos - s.pos) = t.pos by omega] at this

theorem WC.error_free {α : Type} {s t : St} {e : Err} (hp : s.pos ≤ t.pos) (hc : ∀ c m, e ≠ .crash c m)
    (he : ∀ cid cp m a v b, e ≠ .exceeded cid cp m a v b) : WC s (.error (e, t) : R α) :=
  ⟨hp, NC.error_ne hc, fun _ _ _ _ _ _ h => absurd h (he _ _ _ _ _ _)⟩

/-! ## leaves -/

/-- the charging loop: with `done` = regions already charged `size`, an overrun of `c` leaves the regions before `c`
charged exactly the skipped rest of `c` -/
theorem bpGo_wc (path : Path) (size : Nat) : ∀ (todo d0 : List SC) (s : St) cid cp m a v b t,
    bpGo path size (bump d0 size) todo s = .error (.exceeded cid cp m a v b, t) →
    ∃ pre c post, todo = pre ++ c :: post ∧ c.id = cid ∧ s.pos ≤ t.pos ∧ t.scs = bump (d0 ++ pre) (t.pos - s.pos) := by
  intro todo
  induction todo with
  | nil => intro d0 s cid cp m a v b t h; simp [bpGo] at h
  | cons c rest ih =>
    intro d0 s cid cp m a v b t h
    unfold bpGo at h
    by_cases hov : c.over size = true
    · simp only [hov, if_true] at h
      cases hc : consume (c.max.getD 0 - c.already) { s with scs := (bump d0 size).map fun d => { d with already := d.already - (size - (c.max.getD 0 - c.already)) } } with
      | error et =>
        obtain ⟨e, t'⟩ := et
        obtain ⟨rfl, _⟩ := consume_err hc
        rw [hc] at h
        simp [R.bind] at h
      | ok ut =>
        obtain ⟨_, t'⟩ := ut
        rw [hc] at h
        simp only [R.bind_ok, Except.error.injEq, Prod.mk.injEq, Err.exceeded.injEq] at h
        obtain ⟨⟨hid, _⟩, rfl⟩ := h
        obtain ⟨hs, hp⟩ := consume_ok hc
        have hpos : t'.pos = s.pos + (c.max.getD 0 - c.already) := by
          unfold consume take at hc
          split at hc
          · simp [R.bind] at hc
          · simp only [R.bind_ok, Except.ok.injEq, Prod.mk.injEq, true_and] at hc
            subst hc; rfl
        have hle : c.max.getD 0 - c.already ≤ size := by
          simp only [SC.over] at hov
          cases hm : c.max with
          | none => simp [hm] at hov
          | some mm => simp only [hm, decide_eq_true_eq] at hov; simp only [Option.getD_some]; omega
        refine ⟨[], c, rest, rfl, hid, hp, ?_⟩
        rw [hs, hpos]
        simp only [List.append_nil, bump, List.map_map]
        apply List.map_congr_left
        intro d _
        simp only [Function.comp, SC.bump]
        congr 1
        omega
    · simp only [hov, Bool.false_eq_true, if_false] at h
      have hb : bump d0 size ++ [c.bump size] = bump (d0 ++ [c]) size := by simp [bump]
      rw [hb] at h
      obtain ⟨pre, c', post, hdec, hcid, hp, hscs⟩ := ih (d0 ++ [c]) s cid cp m a v b t h
      exact ⟨c :: pre, c', post, by rw [hdec]; rfl, hcid, hp, by rw [hscs]; simp [List.append_assoc]⟩

theorem bytesParsed_exc {path : Path} {size : Nat} {s t : St} {cid : Nat} {cp : Path} {m a : Nat} {v : Path} {b : Nat}
    (h : bytesParsed path size s = .error (.exceeded cid cp m a v b, t)) :
    ∃ pre c post, s.scs = pre ++ c :: post ∧ c.id = cid ∧ s.pos ≤ t.pos ∧ t.scs = bump pre (t.pos - s.pos) := by
  unfold bytesParsed at h
  have := bpGo_wc path size s.scs [] s cid cp m a v b t (by simpa [bump] using h)
  simpa using this

theorem readPrim_ncw (p : Prim) (path : Path) (s : St) : NC (readPrim false p path s) := by
  unfold readPrim
  refine (bpGo_nc path p.size s.scs [] s).bind fun _ t _ => ?_
  refine (take_nc p.size t).bind fun bs t2 _ => ?_
  simp only [Bool.false_eq_true, if_false]
  split <;> exact NC.ok _ _

/-- an `exceeded` out of `readPrim` comes from the charging loop -/
theorem readPrim_exc_inv {p : Prim} {path : Path} {s t : St} {cid : Nat} {cp : Path} {m a : Nat} {v : Path} {b : Nat}
    (h : readPrim false p path s = .error (.exceeded cid cp m a v b, t)) :
    bytesParsed path p.size s = .error (.exceeded cid cp m a v b, t) := by
  unfold readPrim at h
  cases hb : bytesParsed path p.size s with
  | error et =>
    obtain ⟨e, t'⟩ := et
    rw [hb] at h
    simpa [R.bind] using h
  | ok ut =>
    obtain ⟨_, s1⟩ := ut
    rw [hb] at h
    simp only [R.bind_ok] at h
    cases ht : take p.size s1 with
    | error et =>
      obtain ⟨e, t'⟩ := et
      rw [ht] at h
      unfold take at ht
      split at ht
      · simp only [Except.error.injEq, Prod.mk.injEq] at ht
        simp only [R.bind_error, Except.error.injEq, Prod.mk.injEq] at h
        rw [← ht.1] at h; simp at h
      · simp at ht
    | ok bt =>
      obtain ⟨bs, s2⟩ := bt
      rw [ht] at h
      simp only [R.bind_ok, Bool.false_eq_true, if_false] at h
      split at h <;> simp at h

theorem readPrim_wc (p : Prim) (path : Path) (s : St) : WC s (readPrim false p path s) := by
  refine ⟨(readPrim_wi p path s).1, readPrim_ncw p path s, ?_⟩
  cases hr : readPrim false p path s with
  | ok vt =>
    obtain ⟨v, t⟩ := vt
    simp only []
    rw [readPrim_warn_scs hr, readPrim_warn_ok hr]
    congr 1; omega
  | error et =>
    obtain ⟨e, t⟩ := et
    simp only []
    intro cid cp m a v b he
    subst he
    obtain ⟨pre, c, post, h1, h2, _, h4⟩ := bytesParsed_exc (readPrim_exc_inv hr)
    exact ⟨pre, c, post, h1, h2, h4⟩

/-- a successful read in warn mode yields the integer -/
theorem readPrim_warn_val {p : Prim} {path : Path} {s t : St} {v : Val} (h : readPrim false p path s = .ok (v, t)) :
    ∃ x, v = .int p.name x ∧ (p.signed = false → 0 ≤ x) := by
  unfold readPrim at h
  obtain ⟨_, s1, _, h⟩ := bind_ok_inv h
  obtain ⟨bs, s2, _, h⟩ := bind_ok_inv h
  simp only [Bool.false_eq_true, if_false] at h
  split at h <;>
  · simp only [Except.ok.injEq, Prod.mk.injEq] at h
    exact ⟨_, h.1.symm, fun hu => by simp only [Prim.ofBytes, hu]; exact intOfBytes_nonneg _ _⟩

theorem anticipateM_warn (vpath : Path) (v id : Nat) (s : St) :
    ∃ t, anticipateM false vpath v id s = .ok ((), t) ∧ t.scs = s.scs ∧ t.pos = s.pos := by
  unfold anticipateM
  split
  · exact ⟨_, rfl, rfl, rfl⟩
  · simp only [Bool.false_eq_true, if_false]; exact ⟨_, rfl, rfl, rfl⟩

theorem assertDoneSC_wc (c : SC) (s : St) (m : Nat) (hm : c.max = some m) : WC s (assertDoneSC false c s) := by
  refine ⟨(assertDoneSC_wi c s).1, ?_, ?_⟩
  · unfold assertDoneSC
    simp only [hm]
    split
    · exact NC.ok _ _
    · simp only [Bool.false_eq_true, if_false]
      split
      · exact (bpGo_nc _ _ _ _ _).bind fun _ t _ => consume_nc _ t
      · exact NC.ok _ _
  · unfold assertDoneSC
    simp only [hm]
    by_cases heq : c.already = m
    · simp [heq]
    · simp only [heq, Bool.false_eq_true, if_false]
      by_cases hlt : c.already < m
      · simp only [hlt, if_true]
        cases hb : bytesParsed c.path (m - c.already) (emitW (.subceeded c.id c.path m c.already) s) with
        | error et =>
          obtain ⟨e, t⟩ := et
          simp only [R.bind_error]
          intro cid cp mm a v b he
          subst he
          obtain ⟨pre, c', post, h1, h2, _, h4⟩ := bytesParsed_exc hb
          exact ⟨pre, c', post, h1, h2, h4⟩
        | ok ut =>
          obtain ⟨_, s1⟩ := ut
          have hs1 := bytesParsed_ok_inv hb
          simp only [R.bind_ok]
          cases hc : consume (m - c.already) s1 with
          | error et =>
            obtain ⟨e, t⟩ := et
            obtain ⟨rfl, _⟩ := consume_err hc
            simp only []
            intro cid cp mm a v b he; cases he
          | ok ut =>
            obtain ⟨_, t⟩ := ut
            simp only []
            obtain ⟨hs, _⟩ := consume_ok hc
            have hpos : t.pos = s1.pos + (m - c.already) := by
              unfold consume take at hc
              split at hc
              · simp [R.bind] at hc
              · simp only [R.bind_ok, Except.ok.injEq, Prod.mk.injEq, true_and] at hc
                subst hc; rfl
            rw [hs, hpos, hs1]
            simp only [emitW, emit]
            congr 1; omega
      · simp [hlt, emitW, emit]

/-! ## regions and their owners -/

theorem assertDone_last {id : Nat} {pre : List SC} {c : SC} {s : St} (hs : s.scs = pre ++ [c]) (hid : c.id = id)
    (hpre : ∀ d ∈ pre, d.id ≠ id) : assertDone false id s = assertDoneSC false c { s with scs := pre } := by
  unfold assertDone
  rw [hs, findSC_append_new id c pre hid hpre, removeSC_append_new id c pre hid hpre]

/-- the frame of a region's owner: body inside the region, then `assert_done`, with the owner's `except` around the body -/
theorem owner_wc {s1 s2 : St} {id : Nat} {cpath : Path} {n : Nat} (hs2 : s2.scs = s1.scs ++ [⟨id, cpath, 0, some n⟩])
    (hpos : s2.pos = s1.pos) (hfresh : ∀ d ∈ s1.scs, d.id ≠ id) {r : R Val} (hr : WC s2 r) (g : Val → Val) :
    WC s1 (ownCatch false id r fun bv s => (assertDone false id s).bind fun _ s => .ok (g bv, s)) := by
  obtain ⟨hp, hn, hm⟩ := hr
  cases r with
  | ok vs =>
    obtain ⟨bv, s3⟩ := vs
    simp only [stOf] at hp hm
    simp only [ownCatch]
    rw [hs2, bump_append] at hm
    have hne : ∀ d ∈ bump s1.scs (s3.pos - s2.pos), d.id ≠ id := bump_ids hfresh
    rw [assertDone_last (id := id) hm rfl hne]
    have hw := assertDoneSC_wc ((⟨id, cpath, 0, some n⟩ : SC).bump (s3.pos - s2.pos)) { s3 with scs := bump s1.scs (s3.pos - s2.pos) } n rfl
    have hstart : WC s1 (.ok (bv, { s3 with scs := bump s1.scs (s3.pos - s2.pos) }) : R Val) :=
      ⟨by simp only [stOf]; omega, NC.ok _ _, by simp only []; rw [hpos]⟩
    have := WC.bind (f := fun (_ : Val) t => (assertDoneSC false ((⟨id, cpath, 0, some n⟩ : SC).bump (s3.pos - s2.pos)) t).bind
        fun _ s => (.ok (g bv, s) : R Val)) hstart (fun _ t ht => by
      simp only [Except.ok.injEq, Prod.mk.injEq] at ht
      obtain ⟨_, rfl⟩ := ht
      exact hw.bind fun _ t2 _ => WC.ok _ _)
    exact this
  | error es =>
    obtain ⟨e, t⟩ := es
    simp only [stOf] at hp hm
    by_cases hex : ∃ cid cp m a v b, e = .exceeded cid cp m a v b
    · obtain ⟨cid, cp, m, a, v, b, rfl⟩ := hex
      obtain ⟨pre, c, post, hdec, hcid, hscs⟩ := hm cid cp m a v b rfl
      rw [hs2] at hdec
      rcases snoc_split hdec with ⟨_, hpre, hc⟩ | ⟨post', _, hl⟩
      · subst hc
        simp only [] at hcid
        subst hcid
        simp only [ownCatch, Bool.false_or, bne_self_eq_false, Bool.false_eq_true, if_false]
        refine ⟨by simp only [stOf, emitW, emit]; omega, NC.ok _ _, ?_⟩
        simp only [emitW, emit]
        rw [hscs, hpre, hpos]
      · have hne : cid ≠ id := by rw [← hcid]; exact hfresh c (by rw [hl]; simp)
        have hb : (cid != id) = true := by simpa using hne
        simp only [ownCatch, Bool.false_or, hb, if_true]
        refine ⟨by simp only [stOf]; omega, hn, ?_⟩
        intro cid' cp' m' a' v' b' he
        simp only [Err.exceeded.injEq] at he
        obtain ⟨rfl, _⟩ := he
        exact ⟨pre, c, post', hl, hcid, by rw [hscs, hpos]⟩
    · have hoc : (ownCatch false id (.error (e, t)) fun bv s => (assertDone false id s).bind fun _ s => .ok (g bv, s)) = .error (e, t) := by
        cases e <;> first | rfl | (exfalso; exact hex ⟨_, _, _, _, _, _, rfl⟩)
      rw [hoc]
      refine ⟨by simp only [stOf]; omega, hn, ?_⟩
      intro cid cp m a v b he
      exact absurd ⟨cid, cp, m, a, v, b, he⟩ hex

theorem ownCatch_pass {id : Nat} {r : R Val} {k : Val → St → R Val}
    (h : ∀ cp m a v b t, r ≠ .error (.exceeded id cp m a v b, t)) : ownCatch false id r k = r.bind k := by
  cases r with
  | ok vs => rfl
  | error es =>
    obtain ⟨e, t⟩ := es
    cases e with
    | exceeded cid cp m a v b =>
      by_cases hc : cid = id
      · subst hc; exact absurd rfl (h cp m a v b t)
      · have hb : (cid != id) = true := by simpa using hc
        simp [ownCatch, hb, R.bind]
    | _ => rfl

/-! ## the walkers -/

theorem repeatDec_wc (f : Path → St → R Val) (hf : ∀ p s, Fresh s.scs s.pos → WC s (f p s)) (path : Path) :
    ∀ (n i : Nat) (s : St), Fresh s.scs s.pos → WC s (repeatDec f path n i s) := by
  intro n
  induction n with
  | zero => intro i s _; exact WC.ok _ _
  | succ m ih =>
    intro i s hfr
    unfold repeatDec
    refine (hf _ s hfr).bind fun v t ht => ?_
    have hfr1 : Fresh t.scs t.pos := WC.fresh (by rw [← ht]; exact hf _ s hfr) hfr
    exact (ih (i+1) t hfr1).bind fun vs t2 _ => WC.ok _ _

theorem readPrimList_wc (p : Prim) (path : Path) (n : Nat) (s : St) (hfr : Fresh s.scs s.pos) :
    WC s (readPrimList false p path n s) := by
  unfold readPrimList
  apply WC.of_emit
  exact (repeatDec_wc _ (fun q s _ => readPrim_wc p q s) path n 0 _ (by simpa [emitM, emit] using hfr)).bind fun vs t _ => WC.ok _ _

theorem readPrimList_exc {p : Prim} {path : Path} {n : Nat} {s t : St} {e : Err}
    (h : readPrimList false p path n s = .error (e, t)) :
    repeatDec (readPrim false p) path n 0 (emitM ⟨path, .listOf p.name, none, "", 0⟩ s) = .error (e, t) := by
  unfold readPrimList at h
  cases hrr : repeatDec (readPrim false p) path n 0 (emitM ⟨path, .listOf p.name, none, "", 0⟩ s) with
  | error et => rw [hrr] at h; simpa [R.bind] using h
  | ok vt => rw [hrr] at h; simp [R.bind] at h

/-- what the size field of a buffer looks like once read, and the state in which its region is opened -/
theorem sizeField_warn {szP : Prim} {path : Path} {s s1 : St} {nv : Val} (hu : szP.signed = false) (hpos : 0 < szP.size)
    (hfr : Fresh s.scs s.pos) (h1 : readPrim false szP path s = .ok (nv, s1)) :
    ¬ ((nv.asInt?.getD 0) < 0) ∧ Fresh s1.scs s1.pos ∧ (∀ d ∈ s1.scs, d.id ≠ s1.pos) := by
  obtain ⟨x, rfl, hx⟩ := readPrim_warn_val h1
  have hw : WC s (.ok (.int szP.name x, s1) : R Val) := by rw [← h1]; exact readPrim_wc szP path s
  have hp1 := readPrim_warn_ok h1
  refine ⟨by have := hx hu; simp only [Val.asInt?, Option.getD_some]; omega, WC.fresh hw hfr, ?_⟩
  intro d hd
  rw [hw.2.2] at hd
  simp only [bump, List.mem_map] at hd
  obtain ⟨d0, hd0, rfl⟩ := hd
  have := hfr d0 hd0
  simp only [SC.bump]
  omega

/-! ### progress: a successful step consumes at least the leading integers of the layout -/

def Adv {α : Type} (k : Nat) (s : St) (r : R α) : Prop := ∀ a t, r = .ok (a, t) → s.pos + k ≤ t.pos

def WA {α : Type} (k : Nat) (s : St) (r : R α) : Prop := WC s r ∧ Adv k s r

theorem WA.of_wc {α : Type} {s : St} {r : R α} (h : WC s r) : WA 0 s r :=
  ⟨h, fun a t hr => by subst hr; exact h.1⟩

theorem WA.ok {α : Type} (s : St) (a : α) : WA 0 s (.ok (a, s) : R α) := WA.of_wc (WC.ok s a)

theorem WA.of_emit {α : Type} {k : Nat} {s : St} (e : Event) {r : R α} (h : WA k (emit e s) r) : WA k s r := h

theorem WA.mono {α : Type} {k k' : Nat} {s : St} {r : R α} (h : WA k s r) (hk : k' ≤ k) : WA k' s r :=
  ⟨h.1, fun a t hr => by have := h.2 a t hr; omega⟩

theorem WA.bind {α β : Type} {k1 k2 : Nat} {s : St} {r : R α} {f : α → St → R β} (h : WA k1 s r)
    (hf : ∀ a t, r = .ok (a, t) → WA k2 t (f a t)) : WA (k1 + k2) s (r.bind f) := by
  refine ⟨h.1.bind fun a t hr => (hf a t hr).1, ?_⟩
  intro b t2 hb
  obtain ⟨a, t, hr, hft⟩ := bind_ok_inv hb
  have h1 := h.2 a t hr
  have h2 := (hf a t hr).2 b t2 hft
  omega

mutual
def Ty.minLen : Ty → Nat
  | .prim p => p.size
  | .struct _ _ fs => fs.minLen
  | .tpm2bBytes _ _ szP _ _ => szP.size
  | .tpm2b _ _ szP _ _ => szP.size
  | .union _ _ => 0
  | .bad _ => 0
def Fields.minLen : Fields → Nat
  | .nil => 0
  | .cons _ .plain t rest => t.minLen + rest.minLen
  | .cons _ _ _ rest => rest.minLen
end

theorem nonEmpty_minLen {t : Ty} (h : t.nonEmpty = true) : 0 < t.minLen := by
  have leaf : ∀ {u : Ty}, u.nonEmptyLeaf = true → 0 < u.minLen := by
    intro u hu
    cases u <;> simp [Ty.nonEmptyLeaf] at hu <;> simpa [Ty.minLen] using hu
  cases t with
  | struct n p fs =>
    cases fs with
    | nil => simp [Ty.nonEmpty, Ty.nonEmptyLeaf] at h
    | cons f kind u rest =>
      cases kind with
      | plain =>
        simp only [Ty.nonEmpty] at h
        have := leaf h
        simp only [Ty.minLen, Fields.minLen]; omega
      | selected => simp [Ty.nonEmpty, Ty.nonEmptyLeaf] at h
      | counted => simp [Ty.nonEmpty, Ty.nonEmptyLeaf] at h
  | prim p => exact leaf (by simpa [Ty.nonEmpty] using h)
  | tpm2b => exact leaf (by simpa [Ty.nonEmpty] using h)
  | tpm2bBytes => exact leaf (by simpa [Ty.nonEmpty] using h)
  | union => simp [Ty.nonEmpty, Ty.nonEmptyLeaf] at h
  | bad => simp [Ty.nonEmpty, Ty.nonEmptyLeaf] at h

theorem readPrim_wa (p : Prim) (path : Path) (s : St) : WA p.size s (readPrim false p path s) :=
  ⟨readPrim_wc p path s, fun _ t h => by rw [readPrim_warn_ok h]; exact Nat.le_refl _⟩

mutual
theorem decode_wa : (t : Ty) → t.wf = true → t.total = true → ∀ (path : Path) (sel : Option Int) (s : St),
    (sel = none → t.okNoSel = true) → Fresh s.scs s.pos → WA t.minLen s (decode false t path sel s)
  | .prim p, _, _, path, sel, s, _, _ => by simp only [decode, Ty.minLen]; exact readPrim_wa p path s
  | .struct name isP fs, hwf, htot, path, sel, s, _, hfr => by
    simp only [decode, Ty.minLen]
    apply WA.of_emit
    exact (fields_wa fs (by simpa [Ty.wf] using hwf) none [] (by simpa [Ty.total] using htot) path [] _ VOK.nil
      (by simpa [emitM, emit] using hfr)).bind fun vals t _ => WA.ok _ _
  | .tpm2bBytes name szName szP bufName elem, hwf, htot, path, sel, s, _, hfr => by
    simp only [Ty.wf, Bool.and_eq_true, decide_eq_true_eq] at hwf
    obtain ⟨⟨⟨_, hszpos⟩, _⟩, hel1⟩ := hwf
    simp only [Ty.total, Bool.not_eq_true'] at htot
    simp only [decode, Ty.minLen]
    apply WA.of_emit
    refine (readPrim_wa szP _ _).bind (k2 := 0) fun nv s1 h1 => WA.of_wc ?_
    obtain ⟨hn0, hfr1, hne⟩ := sizeField_warn htot hszpos (by simpa [emitM, emit] using hfr) h1
    rw [if_neg hn0]
    obtain ⟨s2, h2, hs2, hp2⟩ := openRegion_warn s1.pos (path ++ [⟨szName, none⟩]) (nv.asInt?.getD 0).toNat s1
    rw [h2]
    simp only [R.bind_ok]
    have hfr2 : Fresh s2.scs s2.pos := by rw [hs2, hp2]; exact fresh_append hfr1 (Nat.le_refl _)
    have hbody := readPrimList_wc elem (path ++ [⟨bufName, none⟩]) (nv.asInt?.getD 0).toNat s2 hfr2
    have := owner_wc (id := s1.pos) hs2 hp2 hne hbody (fun bv => .obj name false [(szName, nv), (bufName, bv)])
    rw [ownCatch_pass] at this
    · exact this
    · intro cp m a v b t hb
      rcases bytes_no_own elem hel1 (path ++ [⟨bufName, none⟩]) s1.pos (nv.asInt?.getD 0).toNat 0
        (emitM ⟨path ++ [⟨bufName, none⟩], .listOf elem.name, none, "", 0⟩ s2) s1.scs
        ⟨s1.pos, path ++ [⟨szName, none⟩], 0, some (nv.asInt?.getD 0).toNat⟩ (nv.asInt?.getD 0).toNat
        (by simpa [emitM, emit] using hs2) rfl hne rfl (by simp) s1.pos cp m a v b t with h' | h'
      · exact h' (readPrimList_exc hb)
      · exact h' rfl
  | .tpm2b name szName szP bufName body, hwf, htot, path, sel, s, _, hfr => by
    simp only [Ty.wf, Bool.and_eq_true, decide_eq_true_eq] at hwf
    obtain ⟨⟨_, hszpos⟩, hwb⟩ := hwf
    simp only [Ty.total, Bool.and_eq_true, Bool.not_eq_true'] at htot
    obtain ⟨⟨hus, htb⟩, hokb⟩ := htot
    simp only [decode, Ty.minLen]
    apply WA.of_emit
    refine (readPrim_wa szP _ _).bind (k2 := 0) fun nv s1 h1 => WA.of_wc ?_
    obtain ⟨hn0, hfr1, hne⟩ := sizeField_warn hus hszpos (by simpa [emitM, emit] using hfr) h1
    rw [if_neg hn0]
    obtain ⟨s2, h2, hs2, hp2⟩ := openRegion_warn s1.pos (path ++ [⟨szName, none⟩]) (nv.asInt?.getD 0).toNat s1
    rw [h2]
    simp only [R.bind_ok]
    have hfr2 : Fresh s2.scs s2.pos := by rw [hs2, hp2]; exact fresh_append hfr1 (Nat.le_refl _)
    split
    · have := owner_wc (id := s1.pos) (r := .ok (.none, emitM ⟨path ++ [⟨bufName, none⟩], body.eventTag, none, "", 0⟩ s2))
        hs2 hp2 hne ⟨Nat.le_refl _, NC.ok _ _, by simp [emitM, emit]⟩ (fun _ => .obj name false [(szName, nv), (bufName, .none)])
      simpa [ownCatch] using this
    · exact owner_wc (id := s1.pos) hs2 hp2 hne (decode_wa body hwb htb _ none s2 (fun _ => hokb) hfr2).1
        (fun bv => .obj name false [(szName, nv), (bufName, bv)])
  | .union name arms, hwf, htot, path, sel, s, hsel, hfr => by
    simp only [decode, Ty.minLen]
    apply WA.of_emit
    apply WA.of_wc
    cases han : selectArm arms.keys sel with
    | none =>
      simp only []
      cases sel with
      | some sv => exact WC.error_free (Nat.le_refl _) (by intro c m h; cases h) (by intro cid cp m a v b h; cases h)
      | none =>
        have := hsel rfl
        simp [Ty.okNoSel, han] at this
    | some an =>
      simp only []
      exact arm_wc arms (by simpa [Ty.wf] using hwf) (by simpa [Ty.total] using htot) name an path _
        (selectArm_mem han) (by simpa [emitM, emit] using hfr)
  | .bad r, _, htot, path, sel, s, _, _ => by simp [Ty.total] at htot

theorem arm_wc : (arms : Arms) → arms.wf = true → arms.total = true → ∀ (un want : String) (path : Path) (s : St),
    want ∈ arms.keys.map (·.1) → Fresh s.scs s.pos → WC s (decodeArm false arms un want path s)
  | .nil, _, _, un, want, path, s, hmem, _ => by simp [Arms.keys] at hmem
  | .consNone an key rest, hwf, htot, un, want, path, s, hmem, hfr => by
    simp only [decodeArm]
    split
    · exact WC.ok _ _
    · rename_i hne
      refine arm_wc rest (by simpa [Arms.wf] using hwf) (by simpa [Arms.total] using htot) un want path s ?_ hfr
      simp only [Arms.keys, List.map_cons, List.mem_cons] at hmem
      rcases hmem with h | h
      · exact absurd h.symm hne
      · exact h
  | .cons an key t rest, hwf, htot, un, want, path, s, hmem, hfr => by
    simp only [Arms.wf, Bool.and_eq_true] at hwf
    simp only [Arms.total, Bool.and_eq_true] at htot
    simp only [decodeArm]
    split
    · exact (decode_wa t hwf.1 htot.1.1 _ none s (fun _ => htot.1.2) hfr).1.bind fun v t' _ => WC.ok _ _
    · rename_i hne
      refine arm_wc rest hwf.2 htot.2 un want path s ?_ hfr
      simp only [Arms.keys, List.map_cons, List.mem_cons] at hmem
      rcases hmem with h | h
      · exact absurd h.symm hne
      · exact h
  | .consBytes an key elem n rest, hwf, htot, un, want, path, s, hmem, hfr => by
    simp only [Arms.wf, Bool.and_eq_true] at hwf
    simp only [Arms.total, Bool.and_eq_true] at htot
    simp only [decodeArm]
    split
    · cases n with
      | none => simp at htot
      | some k =>
        simp only [readListArm]
        exact (readPrimList_wc elem _ k s hfr).bind fun v t' _ => WC.ok _ _
    · rename_i hne
      refine arm_wc rest hwf.2 htot.2 un want path s ?_ hfr
      simp only [Arms.keys, List.map_cons, List.mem_cons] at hmem
      rcases hmem with h | h
      · exact absurd h.symm hne
      · exact h

theorem fields_wa : (fs : Fields) → fs.wf = true → ∀ (l : Option Bool) (seen : List (String × Bool)), fs.total l seen = true →
    ∀ (path : Path) (vals : List (String × Val)) (s : St), VOK vals l seen → Fresh s.scs s.pos →
    WA fs.minLen s (decodeFields false fs path vals s)
  | .nil, _, l, seen, _, path, vals, s, _, _ => by simp only [decodeFields, Fields.minLen]; exact WA.ok _ _
  | .cons fname kind t rest, hwf, l, seen, htot, path, vals, s, hv, hfr => by
    simp only [Fields.wf, Bool.and_eq_true] at hwf
    simp only [Fields.total, Bool.and_eq_true] at htot
    obtain ⟨⟨htt, hkind⟩, hrest⟩ := htot
    simp only [decodeFields]
    cases kind with
    | plain =>
      simp only [] at hkind hrest
      simp only [decodeFieldWith, Fields.minLen]
      have hstep := decode_wa t hwf.1 htt (path ++ [⟨fname, none⟩]) none s (fun _ => hkind) hfr
      refine hstep.bind fun v s1 h1 => ?_
      have hfr1 : Fresh s1.scs s1.pos := WC.fresh (by rw [← h1]; exact hstep.1) hfr
      cases t with
      | prim p =>
        simp only [decode] at h1
        obtain ⟨x, rfl, _⟩ := readPrim_warn_val h1
        exact fields_wa rest hwf.2 _ _ (by simpa [Ty.isPrim] using hrest) path _ s1 (hv.snoc_int fname p.name x) hfr1
      | struct n p fs => exact fields_wa rest hwf.2 _ _ (by simpa [Ty.isPrim] using hrest) path _ s1 (hv.snoc_other fname v) hfr1
      | tpm2b n a b c d => exact fields_wa rest hwf.2 _ _ (by simpa [Ty.isPrim] using hrest) path _ s1 (hv.snoc_other fname v) hfr1
      | tpm2bBytes n a b c d => exact fields_wa rest hwf.2 _ _ (by simpa [Ty.isPrim] using hrest) path _ s1 (hv.snoc_other fname v) hfr1
      | union n a => exact fields_wa rest hwf.2 _ _ (by simpa [Ty.isPrim] using hrest) path _ s1 (hv.snoc_other fname v) hfr1
      | bad r => exact fields_wa rest hwf.2 _ _ (by simpa [Ty.isPrim] using hrest) path _ s1 (hv.snoc_other fname v) hfr1
    | selected sel =>
      simp only [] at hkind hrest
      obtain ⟨x, hx⟩ := hv.sel (by simpa using hkind)
      simp only [decodeFieldWith, hx, Fields.minLen]
      have hstep := decode_wa t hwf.1 htt (path ++ [⟨fname, none⟩]) (some x) s (by intro h; cases h) hfr
      refine (WA.bind (k1 := 0) (k2 := rest.minLen) (hstep.mono (Nat.zero_le _)) fun v s1 h1 => ?_).mono (by omega)
      have hfr1 : Fresh s1.scs s1.pos := WC.fresh (by rw [← h1]; exact hstep.1) hfr
      exact fields_wa rest hwf.2 _ _ hrest path _ s1 (hv.snoc_other fname v) hfr1
    | counted =>
      simp only [Bool.and_eq_true, beq_iff_eq] at hkind hrest
      obtain ⟨hok, hl⟩ := hkind
      subst hl
      obtain ⟨c, hc⟩ := hv.count
      simp only [decodeFieldWith, hc, Fields.minLen]
      have hstep : WC s ((repeatDec (fun p s => decode false t p none s) (path ++ [⟨fname, none⟩]) c 0
          (emitM ⟨path ++ [⟨fname, none⟩], .listOf t.name, none, "", 0⟩ s)).bind fun vs s => (.ok (.list vs, s) : R Val)) := by
        apply WC.of_emit
        exact (repeatDec_wc _ (fun p s hf => (decode_wa t hwf.1 htt p none s (fun _ => hok) hf).1) _ c 0 _
          (by simpa [emitM, emit] using hfr)).bind fun vs t' _ => WC.ok _ _
      refine (WA.bind (k1 := 0) (k2 := rest.minLen) (WA.of_wc hstep) fun v s1 h1 => ?_).mono (by omega)
      have hfr1 : Fresh s1.scs s1.pos := WC.fresh (by rw [← h1]; exact hstep) hfr
      obtain ⟨vs, s2, _, hv'⟩ := bind_ok_inv h1
      simp only [Except.ok.injEq, Prod.mk.injEq] at hv'
      obtain ⟨rfl, _⟩ := hv'
      exact fields_wa rest hwf.2 _ _ hrest path _ s1 (hv.snoc_list fname vs) hfr1
end

/-! ## messages -/

theorem decodeArea_wc (tb : MsgTables) (enc : Bool) (t : Ty) (hwt : t.wf = true) (hwe : tb.encParam.wf = true)
    (hat : areaTotal tb.encParam t = true) (path : Path) (s : St) (hfr : Fresh s.scs s.pos) :
    WC s (decodeArea false tb enc t path s) := by
  simp only [areaTotal, Bool.and_eq_true] at hat
  obtain ⟨⟨htot, hok⟩, hv⟩ := hat
  unfold decodeArea
  by_cases hc : (enc && t.isParams) = true
  · simp only [hc, if_true]
    cases henc : encVariant tb.encParam t with
    | none => simp only []; exact (decode_wa t hwt htot path none s (fun _ => hok) hfr).1
    | some nf =>
      obtain ⟨name, fs⟩ := nf
      simp only [henc] at hv
      simp only []
      apply WC.of_emit
      exact ((fields_wa fs (encVariant_wf hwe hwt henc) none [] hv path [] _ VOK.nil
        (by simpa [emitM, emit] using hfr)).1).bind fun vals t' _ => WC.ok _ _
  · simp only [hc, Bool.false_eq_true, if_false]
    exact (decode_wa t hwt htot path none s (fun _ => hok) hfr).1

/-! ### what a session looks like once decoded (for `is_parameter_encryption`) -/

/-- `v` is what some successful warn-mode decode of `t` returned -/
def SessVal (t : Ty) (v : Val) : Prop := ∃ path s s', decode false t path none s = .ok (v, s')

/-- the field loop only appends to the values decoded so far -/
theorem decodeFields_ext : ∀ (fs : Fields) (path : Path) (vals0 vals : List (String × Val)) (s s' : St),
    decodeFields false fs path vals0 s = .ok (vals, s') → ∃ more, vals = vals0 ++ more
  | .nil, _, vals0, vals, s, s', h => by
    simp only [decodeFields, Except.ok.injEq, Prod.mk.injEq] at h; exact ⟨[], by simp [h.1]⟩
  | .cons f' k' t' rest', path, vals0, vals, s, s', h => by
    simp only [decodeFields] at h
    obtain ⟨v', s1', _, h2'⟩ := bind_ok_inv h
    obtain ⟨more, hm⟩ := decodeFields_ext rest' path _ _ _ _ h2'
    exact ⟨(f', v') :: more, by rw [hm]; simp⟩

theorem decodeFields_lookup (n : String) : ∀ (fs : Fields) (path : Path) (vals0 vals : List (String × Val)) (s s' : St) (p : Prim),
    fs.firstPrim n = some p → lookupVal vals0 n = none → decodeFields false fs path vals0 s = .ok (vals, s') →
    ∃ x, lookupVal vals n = some (.int p.name x)
  | .nil, _, _, _, _, _, _, hp, _, _ => by simp [Fields.firstPrim] at hp
  | .cons f kind t rest, path, vals0, vals, s, s', p, hp, h0, h => by
    simp only [decodeFields] at h
    obtain ⟨v, s1, h1, h2⟩ := bind_ok_inv h
    simp only [Fields.firstPrim] at hp
    by_cases hfe : f = n
    · simp only [hfe, if_true] at hp
      cases kind with
      | plain =>
        cases t with
        | prim q =>
          simp only [Option.some.injEq] at hp
          subst hp
          simp only [decodeFieldWith, decode] at h1
          obtain ⟨x, rfl, _⟩ := readPrim_warn_val h1
          obtain ⟨more, hm⟩ := decodeFields_ext rest path _ _ _ _ h2
          refine ⟨x, ?_⟩
          rw [hm]
          simp only [lookupVal, Option.map_eq_none_iff, List.find?_eq_none] at h0
          simp only [lookupVal, List.find?_append, hfe]
          have : List.find? (fun x => x.1 == n) vals0 = none := List.find?_eq_none.mpr h0
          simp [this]
        | _ => simp at hp
      | _ => simp at hp
    · simp only [hfe, if_false] at hp
      refine decodeFields_lookup n rest path _ vals s1 s' p hp ?_ h2
      simp only [lookupVal, Option.map_eq_none_iff, List.find?_eq_none] at h0 ⊢
      intro x hx
      simp only [List.mem_append, List.mem_singleton] at hx
      rcases hx with hx | rfl
      · exact h0 x hx
      · simpa using hfe

theorem sessionFlag_okw {t : Ty} {flag : String} (hok : sessOk t flag = true) {v : Val} (h : SessVal t v) :
    ∃ b, sessionFlag t flag v = .ok b := by
  obtain ⟨path, s, s', h⟩ := h
  cases t with
  | struct name isP sfs =>
    simp only [sessOk] at hok
    split at hok
    · rename_i p p' hfp hfind
      simp only [decode] at h
      obtain ⟨vals, s1, hf, h2⟩ := bind_ok_inv h
      simp only [Except.ok.injEq, Prod.mk.injEq] at h2
      obtain ⟨rfl, _⟩ := h2
      obtain ⟨x, hx⟩ := decodeFields_lookup "sessionAttributes" sfs path [] vals _ s1 p hfp (by simp [lookupVal]) hf
      cases hm : p'.masks.find? (·.1 == flag) with
      | none => simp [hm] at hok
      | some nm =>
        obtain ⟨_, m⟩ := nm
        exact ⟨(x.toNat &&& m != 0), by simp only [sessionFlag, hx, hfind, hm]⟩
    · simp at hok
  | _ => simp [sessOk] at hok

theorem anyFlag_okw {t : Ty} {flag : String} (hok : sessOk t flag = true) :
    ∀ (vs : List Val), (∀ v ∈ vs, SessVal t v) → ∃ b, anyFlag t flag vs = .ok b
  | [], _ => ⟨false, rfl⟩
  | v :: vs, h => by
    obtain ⟨fb, hfb⟩ := sessionFlag_okw hok (h v (by simp))
    obtain ⟨rb, hrb⟩ := anyFlag_okw hok vs (fun u hu => h u (by simp [hu]))
    cases fb with
    | true => exact ⟨true, by simp [anyFlag, hfb]⟩
    | false => exact ⟨rb, by simp [anyFlag, hfb, hrb]⟩

/-- the value of a session area in warn mode: abandoned (`None`) or a list of decoded sessions -/
def AreaVal (t : Ty) (v : Val) : Prop := v = .none ∨ ∃ vs, v = .list vs ∧ ∀ a ∈ vs, SessVal t a

theorem areaFlag_okw {t : Ty} {flag : String} (hok : sessOk t flag = true) {area : Val} (h : AreaVal t area) :
    ∃ b, areaFlag t flag area = .ok b := by
  rcases h with rfl | ⟨vs, rfl, hvs⟩
  · exact ⟨false, rfl⟩
  · exact anyFlag_okw hok vs hvs

theorem sizedLoop_val (t : Ty) (path : Path) (cid : Nat) : ∀ (fuel i : Nat) (acc : List Val) (s s' : St) (v : Val),
    (∀ a ∈ acc, SessVal t a) → sizedLoop false t path cid fuel i acc s = .ok (v, s') → AreaVal t v := by
  intro fuel
  induction fuel with
  | zero => intro i acc s s' v _ h; simp [sizedLoop, crash] at h
  | succ n ih =>
    intro i acc s s' v hacc h
    unfold sizedLoop at h
    split at h
    · simp [crash] at h
    · split at h
      · simp [crash] at h
      · split at h
        · cases hd : decode false t (elemPath path i) none s with
          | ok vs =>
            obtain ⟨ev, s1⟩ := vs
            rw [hd] at h
            simp only [ownCatch] at h
            refine ih (i+1) (acc ++ [ev]) s1 s' v ?_ h
            intro a ha
            simp only [List.mem_append, List.mem_singleton] at ha
            rcases ha with ha | rfl
            · exact hacc a ha
            · exact ⟨_, _, _, hd⟩
          | error es =>
            obtain ⟨e, t1⟩ := es
            rw [hd] at h
            cases e with
            | exceeded cid' cp m a vv b =>
              simp only [ownCatch, Bool.false_or] at h
              split at h
              · simp at h
              · simp only [Except.ok.injEq, Prod.mk.injEq] at h
                exact Or.inl h.1.symm
            | _ => simp [ownCatch] at h
        · obtain ⟨_, s1, _, h2⟩ := bind_ok_inv h
          simp only [Except.ok.injEq, Prod.mk.injEq] at h2
          exact Or.inr ⟨acc, h2.1.symm, hacc⟩

/-- the session loop inside its region `cid` (the last one opened, with `fuel` at least the room left in it + 1):
no internal error — in particular the loop's bound is never hit, because every completed session is charged to the region —
and afterwards the region is gone, the enclosing ones charged exactly the bytes consumed -/
theorem sizedLoop_wc (t : Ty) (hwt : t.wf = true) (htot : t.total = true) (hok : t.okNoSel = true)
    (hne : t.nonEmpty = true) (path : Path) (cid : Nat) :
    ∀ (fuel i : Nat) (acc : List Val) (s : St) (pre : List SC) (c : SC) (m : Nat), s.scs = pre ++ [c] → c.id = cid →
    (∀ d ∈ pre, d.id ≠ cid) → c.max = some m → Fresh s.scs s.pos → (m - c.already) + 1 ≤ fuel →
    WC { s with scs := pre } (sizedLoop false t path cid fuel i acc s) := by
  intro fuel
  induction fuel with
  | zero => intro i acc s pre c m _ _ _ _ _ hf; omega
  | succ n ih =>
    intro i acc s pre c m hs hc hpre hm hfr hf
    unfold sizedLoop
    rw [hs, findSC_last cid pre c hc hpre]
    simp only [hm]
    by_cases hlt : c.already < m
    · rw [if_pos hlt]
      obtain ⟨⟨hp, hn, hmm⟩, hadv⟩ := decode_wa t hwt htot (elemPath path i) none s (fun _ => hok) hfr
      cases hr : decode false t (elemPath path i) none s with
      | ok vs =>
        obtain ⟨v, s1⟩ := vs
        rw [hr] at hp hmm
        simp only [stOf] at hp hmm
        have hk := hadv v s1 hr
        have hml := nonEmpty_minLen hne
        simp only [ownCatch]
        rw [hs, bump_append] at hmm
        have hfr1 : Fresh s1.scs s1.pos := WC.fresh (s := s) (a := v) (by rw [← hr]; exact (decode_wa t hwt htot (elemPath path i) none s (fun _ => hok) hfr).1) hfr
        have hrec := ih (i+1) (acc ++ [v]) s1 (bump pre (s1.pos - s.pos)) (c.bump (s1.pos - s.pos)) m hmm
          (by simpa [SC.bump] using hc) (bump_ids hpre) (by simpa [SC.bump] using hm) hfr1 (by simp only [SC.bump]; omega)
        have hstart : WC { s with scs := pre } (.ok (v, { s1 with scs := bump pre (s1.pos - s.pos) }) : R Val) :=
          ⟨by simp only [stOf]; omega, NC.ok _ _, by simp only []⟩
        have := WC.bind (f := fun (_ : Val) (_ : St) => sizedLoop false t path cid n (i+1) (acc ++ [v]) s1) hstart (fun _ t ht => by
          simp only [Except.ok.injEq, Prod.mk.injEq] at ht
          obtain ⟨_, rfl⟩ := ht
          exact hrec)
        exact this
      | error es =>
        obtain ⟨e, t1⟩ := es
        rw [hr] at hp hmm hn
        simp only [stOf] at hp hmm
        by_cases hex : ∃ cid' cp m' a v b, e = .exceeded cid' cp m' a v b
        · obtain ⟨cid', cp, m', a, v, b, rfl⟩ := hex
          obtain ⟨prx, c', post, hdec, hcid, hscs⟩ := hmm cid' cp m' a v b rfl
          rw [hs] at hdec
          rcases snoc_split hdec with ⟨_, hprx, hcc⟩ | ⟨post', _, hl⟩
          · subst hcc
            rw [hc] at hcid
            subst hcid
            simp only [ownCatch, Bool.false_or, bne_self_eq_false, Bool.false_eq_true, if_false]
            refine ⟨by simp only [stOf, emitW, emit]; omega, NC.ok _ _, ?_⟩
            simp only [emitW, emit]
            rw [hscs, hprx]
          · have hne' : cid' ≠ cid := by rw [← hcid]; exact hpre c' (by rw [hl]; simp)
            have hb : (cid' != cid) = true := by simpa using hne'
            simp only [ownCatch, Bool.false_or, hb, if_true]
            refine ⟨by simp only [stOf]; omega, hn, ?_⟩
            intro cid2 cp2 m2 a2 v2 b2 he
            simp only [Err.exceeded.injEq] at he
            obtain ⟨rfl, _⟩ := he
            exact ⟨prx, c', post', hl, hcid, hscs⟩
        · have hoc : ∀ k, (ownCatch false cid (.error (e, t1)) k) = .error (e, t1) := by
            intro k
            cases e <;> first | rfl | (exfalso; exact hex ⟨_, _, _, _, _, _, rfl⟩)
          rw [hoc]
          refine ⟨by simp only [stOf]; omega, hn, ?_⟩
          intro cid2 cp2 m2 a2 v2 b2 he
          exact absurd ⟨cid2, cp2, m2, a2, v2, b2, he⟩ hex
    · rw [if_neg hlt]
      rw [removeSC_last cid pre c hc hpre]
      exact (assertDoneSC_wc c { s with scs := pre } m hm).bind fun _ t' _ => WC.ok _ _

theorem decodeSized_wc (t : Ty) (hwt : t.wf = true) (htot : t.total = true) (hok : t.okNoSel = true)
    (hne : t.nonEmpty = true) (path : Path) (cid : Nat) (s : St) (pre : List SC) (c : SC) (m : Nat)
    (hs : s.scs = pre ++ [c]) (hc : c.id = cid) (hpre : ∀ d ∈ pre, d.id ≠ cid) (hm : c.max = some m) (hfr : Fresh s.scs s.pos) :
    WC { s with scs := pre } (decodeSized false t path cid s) := by
  unfold decodeSized
  simp only []
  refine sizedLoop_wc t hwt htot hok hne path cid _ 0 [] (emitM ⟨path, .listOf t.name, none, "", 0⟩ s) pre c m
    (by simpa [emitM, emit] using hs) hc hpre hm (by simpa [emitM, emit] using hfr) ?_
  simp only [emitM, emit, sizedFuel, hs, findSC_last cid pre c hc hpre, hm, Option.getD_some]
  omega

theorem decodeSized_val (t : Ty) (path : Path) (cid : Nat) (s s' : St) (v : Val)
    (h : decodeSized false t path cid s = .ok (v, s')) : AreaVal t v := by
  unfold decodeSized at h
  exact sizedLoop_val t path cid _ 0 [] _ s' v (by intro a ha; cases ha) h

/-! ### commands -/

/-- the only open region is the message's own -/
def Sole (id : Nat) (mx : Option Nat) (scs : List SC) : Prop := ∃ c, scs = [c] ∧ c.id = id ∧ c.max = mx

theorem Sole.bump {id : Nat} {mx : Option Nat} {scs : List SC} (h : Sole id mx scs) (k : Nat) : Sole id mx (bump scs k) := by
  obtain ⟨c, rfl, h1, h2⟩ := h
  exact ⟨c.bump k, rfl, h1, h2⟩

theorem Sole.own {id : Nat} {mx : Option Nat} {scs : List SC} (h : Sole id mx scs) (id2 : Nat) : ∀ d ∈ scs, d.id = id ∨ d.id = id2 := by
  obtain ⟨c, rfl, h1, _⟩ := h
  intro d hd; simp only [List.mem_singleton] at hd; subst hd; exact Or.inl h1

theorem Sole.fresh {id pos : Nat} {mx : Option Nat} {scs : List SC} (h : Sole id mx scs) (hp : id ≤ pos) : Fresh scs pos := by
  obtain ⟨c, rfl, h1, _⟩ := h
  exact fresh_one _ _ (by omega)

theorem Sole.of_ok {α : Type} {id : Nat} {mx : Option Nat} {s t : St} {a : α} (h : Sole id mx s.scs) (hw : WC s (.ok (a, t) : R α)) :
    Sole id mx t.scs := by rw [hw.2.2]; exact h.bump _

theorem setListed_one {id : Nat} {mx : Option Nat} {s : St} (h : Sole id mx s.scs) (cpath : Path) (n : Nat) :
    ∃ t, setListed false id cpath n s = .ok ((), t) ∧ t.pos = s.pos ∧ Sole id (some n) t.scs := by
  obtain ⟨c, hc, h1, _⟩ := h
  unfold setListed anticipateM
  simp only []
  split
  · exact ⟨_, rfl, rfl, ⟨{ c with path := cpath, max := some n }, by simp [hc, h1], h1, rfl⟩⟩
  · simp only [Bool.false_eq_true, if_false]
    exact ⟨_, rfl, rfl, ⟨{ c with path := cpath, max := some n }, by simp [emitW, emit, hc, h1], h1, rfl⟩⟩

/-- the values gathered so far hold a session area only as the session loop returned it -/
def AuthOk (t : Ty) (vals : List (String × Val)) : Prop := ∀ area, lookupVal vals "authorizationArea" = some area → AreaVal t area

theorem AuthOk.nil (t : Ty) : AuthOk t [] := by intro area h; simp [lookupVal] at h

theorem AuthOk.snoc {t : Ty} {vals : List (String × Val)} (h : AuthOk t vals) (k : String) (v : Val)
    (hk : k = "authorizationArea" → AreaVal t v) : AuthOk t (vals ++ [(k, v)]) := by
  intro area ha
  simp only [lookupVal, List.find?_append] at ha
  cases hf : List.find? (fun x => x.1 == "authorizationArea") vals with
  | some kv =>
    simp only [hf, Option.some_or, Option.map_some, Option.some.injEq] at ha
    exact h area (by simp [lookupVal, hf, ha])
  | none =>
    simp only [hf, Option.none_or, List.find?_cons, List.find?_nil] at ha
    by_cases hke : (k == "authorizationArea") = true
    · simp only [hke, Option.map_some, Option.some.injEq] at ha
      rw [← ha]; exact hk (by simpa using hke)
    · simp [hke] at ha

theorem AuthOk.snoc_ne {t : Ty} {vals : List (String × Val)} (h : AuthOk t vals) (k : String) (v : Val)
    (hk : k ≠ "authorizationArea") : AuthOk t (vals ++ [(k, v)]) := h.snoc k v (fun he => absurd he hk)

/-- what a message walker may end with in warn mode: no internal error; on success at least one byte was consumed and
the object's session area (if any) is as the session loop returned it -/
def CM (name : String) (sessTy : Ty) (s0 : St) (r : R Val) : Prop :=
  NC r ∧ ∀ v s', r = .ok (v, s') → s0.pos + 1 ≤ s'.pos ∧ ∃ vals, v = .obj name false vals ∧ AuthOk sessTy vals

theorem CM.err {name : String} {sessTy : Ty} {s0 t : St} {e : Err} (h : ∀ c m, e ≠ .crash c m) : CM name sessTy s0 (.error (e, t)) :=
  ⟨NC.error_ne h, fun v s' hh => by cases hh⟩

theorem CM.of_nc {name : String} {sessTy : Ty} {s0 : St} {r : R Val} (h : NC r) (hne : ∀ v s', r ≠ .ok (v, s')) : CM name sessTy s0 r :=
  ⟨h, fun v s' hh => absurd hh (hne v s')⟩

/-- `except SizeConstraintExceededError` of a message: every overrun that can reach it is one of its own two regions,
and what it returns then is the object built from the values gathered so far -/
theorem mc_cm {name : String} {sessTy : Ty} {id1 id2 : Nat} {vals : List (String × Val)} {s0 s : St} {r : R Val} {k : Val → St → R Val}
    (hr : WC s r) (hown : ∀ d ∈ s.scs, d.id = id1 ∨ d.id = id2) (hp : s0.pos + 1 ≤ s.pos) (hv : AuthOk sessTy vals)
    (hk : ∀ v t, r = .ok (v, t) → CM name sessTy s0 (k v t)) : CM name sessTy s0 (msgCatch false id1 id2 name vals r k) := by
  cases r with
  | ok vs => obtain ⟨v, t⟩ := vs; simp only [msgCatch]; exact hk v t rfl
  | error es =>
    obtain ⟨e, t⟩ := es
    obtain ⟨hpos, hn, hm⟩ := hr
    simp only [stOf] at hpos hm
    by_cases hex : ∃ cid cp m a v b, e = .exceeded cid cp m a v b
    · obtain ⟨cid, cp, m, a, v, b, rfl⟩ := hex
      obtain ⟨pre, c, post, hdec, hcid, _⟩ := hm cid cp m a v b rfl
      have hc := hown c (by rw [hdec]; simp)
      rw [hcid] at hc
      have : (cid != id1 && cid != id2) = false := by rcases hc with rfl | rfl <;> simp
      simp only [msgCatch, Bool.false_or, this, Bool.false_eq_true, if_false]
      refine ⟨NC.ok _ _, fun v' s' hh => ?_⟩
      simp only [Except.ok.injEq, Prod.mk.injEq] at hh
      obtain ⟨rfl, rfl⟩ := hh
      exact ⟨by simp only [emitW, emit]; omega, vals, rfl, hv⟩
    · have hoc : msgCatch false id1 id2 name vals (.error (e, t)) k = .error (e, t) := by
        cases e <;> first | rfl | (exfalso; exact hex ⟨_, _, _, _, _, _, rfl⟩)
      rw [hoc]
      exact ⟨fun c m t' hh => hn c m t' hh, fun v s' hh => by cases hh⟩

/-- the first field of a message is read while the message's region has no limit yet: it cannot be overrun -/
theorem first_cm {name : String} {sessTy : Ty} {id1 id2 : Nat} {p : Prim} {path : Path} {s0 s : St} {k : Val → St → R Val}
    (hone : Sole id1 none s.scs) (hk : ∀ v t, readPrim false p path s = .ok (v, t) → CM name sessTy s0 (k v t)) :
    CM name sessTy s0 (msgCatch false id1 id2 name [] (readPrim false p path s) k) := by
  cases hr : readPrim false p path s with
  | ok vs => obtain ⟨v, t⟩ := vs; simp only [msgCatch]; exact hk v t hr
  | error es =>
    obtain ⟨e, t⟩ := es
    have hn : NC (readPrim false p path s) := readPrim_ncw p path s
    rw [hr] at hn
    by_cases hex : ∃ cid cp m a v b, e = .exceeded cid cp m a v b
    · exfalso
      obtain ⟨cid, cp, m, a, v, b, rfl⟩ := hex
      obtain ⟨c, hc, _, hov⟩ := readPrim_exc_over hr
      obtain ⟨c0, hs, _, hmax⟩ := hone
      rw [hs] at hc
      simp only [List.mem_singleton] at hc
      subst hc
      simp [SC.over, hmax] at hov
    · have hoc : msgCatch false id1 id2 name [] (.error (e, t)) k = .error (e, t) := by
        cases e <;> first | rfl | (exfalso; exact hex ⟨_, _, _, _, _, _, rfl⟩)
      rw [hoc]
      exact ⟨fun c m t' hh => hn c m t' hh, fun v s' hh => by cases hh⟩

theorem vInt_of_readPrim {p : Prim} {path : Path} {s t : St} {v : Val} (hu : p.signed = false)
    (h : readPrim false p path s = .ok (v, t)) : ∃ n : Int, vInt v = some n ∧ ¬ n < 0 := by
  obtain ⟨x, rfl, hx⟩ := readPrim_warn_val h
  exact ⟨x, rfl, by have := hx hu; omega⟩

theorem decodeCommand_cm (tb : MsgTables) (ht : tb.total = true) (path : Path) (s0 : St) :
    CM "Command" tb.authCmd s0 (decodeCommand false tb path s0) := by
  simp only [MsgTables.total, Bool.and_eq_true, Bool.not_eq_true'] at ht
  obtain ⟨⟨⟨⟨⟨⟨⟨⟨⟨⟨⟨⟨⟨⟨⟨hw, uCsz⟩, uAsz⟩, _⟩, _⟩, tAuth⟩, okAuth⟩, _⟩, _⟩, sDec⟩, _⟩, _⟩, aCH⟩, aCP⟩, _⟩, _⟩ := ht
  simp only [MsgTables.wf, Bool.and_eq_true, decide_eq_true_eq] at hw
  obtain ⟨⟨⟨⟨⟨⟨⟨⟨⟨⟨⟨⟨⟨⟨⟨⟨⟨⟨wTag, hTagPos⟩, wCsz⟩, wCc⟩, wAsz⟩, wAuth⟩, neAuth⟩, _⟩, _⟩, _⟩, _⟩, _⟩, _⟩, _⟩, wEnc⟩, wCH⟩, wCP⟩, _⟩, _⟩ := hw
  unfold decodeCommand
  simp only []
  have hone0 : Sole s0.pos none (emitM ⟨path, .named "Command" false, none, "", 0⟩ { s0 with scs := [⟨s0.pos, [], 0, none⟩] }).scs :=
    ⟨_, rfl, rfl, rfl⟩
  -- tag
  refine first_cm hone0 fun tag s1 e1 => ?_
  have w1 := readPrim_wc tb.tagCmd (path ++ [⟨"tag", none⟩]) (emitM ⟨path, .named "Command" false, none, "", 0⟩ { s0 with scs := [⟨s0.pos, [], 0, none⟩] })
  rw [e1] at w1
  have p1 : s1.pos = s0.pos + tb.tagCmd.size := by simpa [emitM, emit] using readPrim_warn_ok e1
  have one1 := hone0.of_ok w1
  -- commandSize
  refine mc_cm (readPrim_wc tb.cmdSize _ s1) (one1.own _) (by omega) (by intro area h; simp [lookupVal] at h) fun csz s2 e2 => ?_
  have w2 := readPrim_wc tb.cmdSize (path ++ [⟨"commandSize", none⟩]) s1
  rw [e2] at w2
  have one2 := one1.of_ok w2
  obtain ⟨n, hvi, hn0⟩ := vInt_of_readPrim uCsz e2
  rw [hvi]
  simp only []
  rw [if_neg hn0]
  obtain ⟨s3, e3, p3, one3⟩ := setListed_one one2 (path ++ [⟨"commandSize", none⟩]) n.toNat
  rw [e3]
  simp only [R.bind_ok]
  have pos2 : s1.pos ≤ s2.pos := w2.1
  -- commandCode
  refine mc_cm (readPrim_wc tb.cc _ s3) (one3.own _) (by omega) (by intro area h; simp [lookupVal] at h) fun ccv s4 e4 => ?_
  have w4 := readPrim_wc tb.cc (path ++ [⟨"commandCode", none⟩]) s3
  rw [e4] at w4
  have one4 := one3.of_ok w4
  have pos4 : s3.pos ≤ s4.pos := w4.1
  cases hh : lookupTy tb.cmdHandles ((vInt ccv).getD 0) with
  | none => simp only []; exact CM.err (by intro c m h; cases h)
  | some hty =>
    simp only []
    -- handles
    have h5 := decodeArea_wc tb false hty (lookupTy_wf wCH hh) wEnc (lookupTy_all aCH hh) (path ++ [⟨"handles", none⟩]) s4
      (one4.fresh (by omega))
    refine mc_cm h5 (one4.own _) (by omega) (by intro area h; simp [lookupVal] at h) fun hv s5 e5 => ?_
    rw [e5] at h5
    have one5 := one4.of_ok h5
    have pos5 : s4.pos ≤ s5.pos := h5.1
    -- the tail: parameters, then the message's own region closes
    have tail : ∀ (vals : List (String × Val)) (enc : Bool) (s6 : St), Sole s0.pos (some n.toNat) s6.scs → s0.pos + 1 ≤ s6.pos →
        AuthOk tb.authCmd vals →
        CM "Command" tb.authCmd s0 (match lookupTy tb.cmdParams ((vInt ccv).getD 0) with
          | none => (.error (.value (path ++ [(⟨"commandCode", none⟩ : PathNode)]) tb.cc.name ((vInt ccv).getD 0), s6) : R Val)
          | some pty =>
            msgCatch false s0.pos (s0.pos + 1) "Command" vals
              (decodeArea false tb enc pty (path ++ [(⟨"parameters", none⟩ : PathNode)]) s6) fun pv s =>
              (assertDone false s0.pos s).bind fun _ s => .ok (.obj "Command" false (vals ++ [("parameters", pv)]), s)) := by
      intro vals enc s6 one6 q6 av6
      cases hp : lookupTy tb.cmdParams ((vInt ccv).getD 0) with
      | none => simp only []; exact CM.err (by intro c m h; cases h)
      | some pty =>
        simp only []
        have h7 := decodeArea_wc tb enc pty (lookupTy_wf wCP hp) wEnc (lookupTy_all aCP hp) (path ++ [⟨"parameters", none⟩]) s6
          (one6.fresh (by omega))
        refine mc_cm h7 (one6.own _) q6 av6 fun pv s7 e7 => ?_
        rw [e7] at h7
        obtain ⟨c7, hs7, hid7, hmax7⟩ := one6.of_ok h7
        have pos7 : s6.pos ≤ s7.pos := h7.1
        have had : assertDone false s0.pos s7 = assertDoneSC false c7 { s7 with scs := [] } := by
          have := assertDone_last (id := s0.pos) (pre := []) (c := c7) (s := s7) (by simpa using hs7) hid7 (by intro d hd; cases hd)
          exact this
        rw [had]
        have hw := assertDoneSC_wc c7 { s7 with scs := [] } n.toNat hmax7
        refine ⟨hw.2.1.bind fun _ t _ => NC.ok _ _, fun v s' hh => ?_⟩
        obtain ⟨_, s8, h8, h9⟩ := bind_ok_inv hh
        simp only [Except.ok.injEq, Prod.mk.injEq] at h9
        obtain ⟨rfl, rfl⟩ := h9
        have pos8 := hw.1
        rw [h8] at pos8
        simp only [stOf] at pos8
        exact ⟨by omega, _, rfl, av6.snoc_ne _ _ (by decide)⟩
    by_cases hsess : (vInt tag == some tb.sessionsTag) = true
    · rw [if_pos hsess]
      -- sessions
      refine mc_cm (readPrim_wc tb.authSize _ s5) (one5.own _) (by omega) (by intro area h; simp [lookupVal] at h) fun asz s6 e6 => ?_
      have w6 := readPrim_wc tb.authSize (path ++ [⟨"authSize", none⟩]) s5
      rw [e6] at w6
      have one6 := one5.of_ok w6
      have pos6 : s5.pos ≤ s6.pos := w6.1
      obtain ⟨an, hai, han0⟩ := vInt_of_readPrim uAsz e6
      rw [hai]
      simp only []
      rw [if_neg han0]
      obtain ⟨s7, e7, hs7, p7⟩ := openRegion_warn (s0.pos + 1) (path ++ [⟨"authSize", none⟩]) an.toNat s6
      rw [e7]
      simp only [R.bind_ok]
      obtain ⟨c6, hc6, hid6, hmax6⟩ := one6
      have hpre : ∀ d ∈ s6.scs, d.id ≠ s0.pos + 1 := by
        intro d hd; rw [hc6] at hd; simp only [List.mem_singleton] at hd; subst hd; omega
      have hfr7 : Fresh s7.scs s7.pos := by
        rw [hs7, p7]
        exact fresh_append (by rw [hc6]; exact fresh_one _ _ (by omega)) (by simp only []; omega)
      have h8 := decodeSized_wc tb.authCmd wAuth tAuth okAuth neAuth (path ++ [⟨"authorizationArea", none⟩]) (s0.pos + 1) s7 s6.scs _
        an.toNat hs7 rfl hpre rfl hfr7
      have one7 : Sole s0.pos (some n.toNat) ({ s7 with scs := s6.scs } : St).scs := ⟨c6, hc6, hid6, hmax6⟩
      refine mc_cm (s := { s7 with scs := s6.scs }) h8 (one7.own _) (by simp only []; omega) (by intro area h; simp [lookupVal] at h)
        fun area s8 e8 => ?_
      have hav := decodeSized_val tb.authCmd _ _ s7 s8 area e8
      rw [e8] at h8
      have one8 := one7.of_ok h8
      have pos8 : s7.pos ≤ s8.pos := h8.1
      obtain ⟨enc, hflag⟩ := areaFlag_okw (flag := "decrypt") sDec hav
      simp only [hflag]
      refine tail _ enc s8 one8 (by omega) ?_
      intro area' h
      simp [lookupVal] at h
      rw [← h]; exact hav
    · rw [if_neg hsess]
      exact tail _ false s5 one5 (by omega) (by intro area h; simp [lookupVal] at h)

/-! ### responses -/

/-- what a response walker may end with in warn mode: no internal error but the encryption-flag assertion (the known
finding); on success at least one byte was consumed -/
def RM (s0 : St) (r : R Val) : Prop := NCX r ∧ ∀ v s', r = .ok (v, s') → s0.pos + 1 ≤ s'.pos

theorem RM.err {s0 t : St} {e : Err} (h : ∀ c m, e ≠ .crash c m) : RM s0 (.error (e, t)) :=
  ⟨(NC.error_ne h).ncx, fun v s' hh => by cases hh⟩

/-- the three facts the message's `except` needs about the step it guards -/
structure Guarded (s : St) (r : R Val) : Prop where
  pos : s.pos ≤ (stOf r).pos
  nc : NC r
  exc : ∀ cid cp m a v b t, r = .error (.exceeded cid cp m a v b, t) → ∃ c ∈ s.scs, c.id = cid

theorem WC.guarded {s : St} {r : R Val} (h : WC s r) : Guarded s r := by
  refine ⟨h.1, h.2.1, ?_⟩
  intro cid cp m a v b t hr
  subst hr
  obtain ⟨pre, c, post, hdec, hcid, _⟩ := h.2.2 cid cp m a v b rfl
  exact ⟨c, by rw [hdec]; simp, hcid⟩

theorem mc_rm {name : String} {id1 id2 : Nat} {vals : List (String × Val)} {s0 s : St} {r : R Val} {k : Val → St → R Val}
    (hr : Guarded s r) (hown : ∀ d ∈ s.scs, d.id = id1 ∨ d.id = id2) (hp : s0.pos + 1 ≤ s.pos)
    (hk : ∀ v t, r = .ok (v, t) → RM s0 (k v t)) : RM s0 (msgCatch false id1 id2 name vals r k) := by
  cases r with
  | ok vs => obtain ⟨v, t⟩ := vs; simp only [msgCatch]; exact hk v t rfl
  | error es =>
    obtain ⟨e, t⟩ := es
    obtain ⟨hpos, hn, hm⟩ := hr
    simp only [stOf] at hpos
    by_cases hex : ∃ cid cp m a v b, e = .exceeded cid cp m a v b
    · obtain ⟨cid, cp, m, a, v, b, rfl⟩ := hex
      obtain ⟨c, hmem, hcid⟩ := hm cid cp m a v b t rfl
      have hc := hown c hmem
      rw [hcid] at hc
      have : (cid != id1 && cid != id2) = false := by rcases hc with rfl | rfl <;> simp
      simp only [msgCatch, Bool.false_or, this, Bool.false_eq_true, if_false]
      refine ⟨(NC.ok _ _).ncx, fun v' s' hh => ?_⟩
      simp only [Except.ok.injEq, Prod.mk.injEq] at hh
      obtain ⟨_, rfl⟩ := hh
      simp only [emitW, emit]; omega
    · have hoc : msgCatch false id1 id2 name vals (.error (e, t)) k = .error (e, t) := by
        cases e <;> first | rfl | (exfalso; exact hex ⟨_, _, _, _, _, _, rfl⟩)
      rw [hoc]
      exact ⟨NC.ncx (fun c m t' hh => hn c m t' hh), fun v s' hh => by cases hh⟩

theorem first_rm {name : String} {id1 id2 : Nat} {p : Prim} {path : Path} {s0 s : St} {k : Val → St → R Val}
    (hone : Sole id1 none s.scs) (hk : ∀ v t, readPrim false p path s = .ok (v, t) → RM s0 (k v t)) :
    RM s0 (msgCatch false id1 id2 name [] (readPrim false p path s) k) := by
  cases hr : readPrim false p path s with
  | ok vs => obtain ⟨v, t⟩ := vs; simp only [msgCatch]; exact hk v t hr
  | error es =>
    obtain ⟨e, t⟩ := es
    have hn : NC (readPrim false p path s) := readPrim_ncw p path s
    rw [hr] at hn
    by_cases hex : ∃ cid cp m a v b, e = .exceeded cid cp m a v b
    · exfalso
      obtain ⟨cid, cp, m, a, v, b, rfl⟩ := hex
      obtain ⟨c, hc, _, hov⟩ := readPrim_exc_over hr
      obtain ⟨c0, hs, _, hmax⟩ := hone
      rw [hs] at hc
      simp only [List.mem_singleton] at hc
      subst hc
      simp [SC.over, hmax] at hov
    · have hoc : msgCatch false id1 id2 name [] (.error (e, t)) k = .error (e, t) := by
        cases e <;> first | rfl | (exfalso; exact hex ⟨_, _, _, _, _, _, rfl⟩)
      rw [hoc]
      exact ⟨NC.ncx (fun c m t' hh => hn c m t' hh), fun v s' hh => by cases hh⟩

/-- the end of a response: its own region closes and nothing is left open -/
theorem finish_rm {rid n : Nat} {s0 s : St} (h : Sole rid (some n) s.scs) (hp : s0.pos + 1 ≤ s.pos) (vals : List (String × Val)) :
    RM s0 ((assertDone false rid s).bind fun _ s =>
      if s.scs.isEmpty then (.ok (.obj "Response" false vals, s) : R Val)
      else crash "AssertionError" "size_constraints.assert_done()" s) := by
  obtain ⟨c, hs, hid, hmax⟩ := h
  have had : assertDone false rid s = assertDoneSC false c { s with scs := [] } :=
    assertDone_last (id := rid) (pre := []) (c := c) (s := s) (by simpa using hs) hid (by intro d hd; cases hd)
  rw [had]
  have hw := assertDoneSC_wc c { s with scs := [] } n hmax
  cases hx : assertDoneSC false c { s with scs := [] } with
  | error et =>
    obtain ⟨e, t⟩ := et
    rw [hx] at hw
    simp only [R.bind_error]
    exact ⟨NC.ncx (fun c' m t' hh => hw.2.1 c' m t' (by simp only [Except.error.injEq, Prod.mk.injEq] at hh ⊢; exact hh)), fun v s' hh => by cases hh⟩
  | ok ut =>
    obtain ⟨_, t⟩ := ut
    rw [hx] at hw
    simp only [R.bind_ok]
    have hscs : t.scs = [] := by have := hw.2.2; simp only [] at this; rw [this]; rfl
    have hpos := hw.1
    simp only [stOf] at hpos
    rw [hscs]
    simp only [List.isEmpty_nil, if_true]
    refine ⟨(NC.ok _ _).ncx, fun v s' hh => ?_⟩
    simp only [Except.ok.injEq, Prod.mk.injEq] at hh
    obtain ⟨_, rfl⟩ := hh
    omega

/-- a body inside a freshly opened region followed by that region's `assert_done`, without an `except` of its own
(the parameter area of a response inside `parameterSize`: the message's `except` catches for it) -/
theorem inRegion {s1 s2 : St} {id : Nat} {cpath : Path} {n : Nat} (hs2 : s2.scs = s1.scs ++ [⟨id, cpath, 0, some n⟩])
    (hpos : s2.pos = s1.pos) (hfresh : ∀ d ∈ s1.scs, d.id ≠ id) {r : R Val} (hr : WC s2 r) :
    Guarded s2 (r.bind fun bv s => (assertDone false id s).bind fun _ s => .ok (bv, s)) ∧
    ∀ v t, (r.bind fun bv s => (assertDone false id s).bind fun _ s => .ok (bv, s)) = .ok (v, t) →
      s1.pos ≤ t.pos ∧ t.scs = bump s1.scs (t.pos - s1.pos) := by
  have how := owner_wc hs2 hpos hfresh hr (fun bv => bv)
  by_cases hown : ∃ cp m a v b t, r = .error (.exceeded id cp m a v b, t)
  · obtain ⟨cp, m, a, v, b, t, rfl⟩ := hown
    simp only [R.bind_error]
    refine ⟨⟨hr.1, hr.2.1, ?_⟩, fun v' t' hh => by cases hh⟩
    intro cid cp' m' a' v' b' t' hh
    simp only [Except.error.injEq, Prod.mk.injEq, Err.exceeded.injEq] at hh
    obtain ⟨⟨rfl, _⟩, _⟩ := hh
    exact ⟨⟨id, cpath, 0, some n⟩, by rw [hs2]; simp, rfl⟩
  · have hpass : ownCatch false id r (fun bv s => (assertDone false id s).bind fun _ s => .ok (bv, s)) =
        r.bind fun bv s => (assertDone false id s).bind fun _ s => .ok (bv, s) :=
      ownCatch_pass (fun cp m a v b t hh => hown ⟨cp, m, a, v, b, t, hh⟩)
    rw [hpass] at how
    refine ⟨⟨by rw [hpos]; exact how.1, how.2.1, ?_⟩, ?_⟩
    · intro cid cp m a v b t hh
      have := how.2.2
      rw [hh] at this
      obtain ⟨pre, c, post, hdec, hcid, _⟩ := this cid cp m a v b rfl
      exact ⟨c, by rw [hs2, hdec]; simp, hcid⟩
    · intro v t hh
      have h1 := how.1
      have h2 := how.2.2
      rw [hh] at h1 h2
      exact ⟨h1, h2⟩

set_option maxHeartbeats 1000000 in
theorem decodeResponse_rm (tb : MsgTables) (ht : tb.total = true) (cc : Option Int) (enc : Bool) (path : Path) (s0 : St) :
    RM s0 (decodeResponse false tb cc enc path s0) := by
  simp only [MsgTables.total, Bool.and_eq_true, Bool.not_eq_true'] at ht
  obtain ⟨⟨⟨⟨⟨⟨⟨⟨⟨⟨⟨⟨⟨⟨⟨hw, _⟩, _⟩, uRsz⟩, uPsz⟩, _⟩, _⟩, tAuth⟩, okAuth⟩, _⟩, _⟩, sEnc⟩, _⟩, _⟩, aRH⟩, aRP⟩ := ht
  simp only [MsgTables.wf, Bool.and_eq_true, decide_eq_true_eq] at hw
  obtain ⟨⟨⟨⟨⟨⟨⟨⟨⟨⟨⟨⟨⟨⟨⟨⟨⟨⟨_, _⟩, _⟩, _⟩, _⟩, _⟩, _⟩, _⟩, hTagPos⟩, _⟩, _⟩, _⟩, wAuth⟩, neAuth⟩, wEnc⟩, _⟩, _⟩, wRH⟩, wRP⟩ := hw
  unfold decodeResponse
  simp only []
  have hone0 : Sole s0.pos none (emitM ⟨path, .named "Response" false, none, "", 0⟩ { s0 with scs := [⟨s0.pos, [], 0, none⟩] }).scs :=
    ⟨_, rfl, rfl, rfl⟩
  -- tag
  refine first_rm hone0 fun tag s1 e1 => ?_
  have w1 := readPrim_wc tb.tagRsp (path ++ [⟨"tag", none⟩]) (emitM ⟨path, .named "Response" false, none, "", 0⟩ { s0 with scs := [⟨s0.pos, [], 0, none⟩] })
  rw [e1] at w1
  have p1 : s1.pos = s0.pos + tb.tagRsp.size := by simpa [emitM, emit] using readPrim_warn_ok e1
  have one1 := hone0.of_ok w1
  -- responseSize
  refine mc_rm (readPrim_wc tb.rspSize _ s1).guarded (one1.own _) (by omega) fun rsz s2 e2 => ?_
  have w2 := readPrim_wc tb.rspSize (path ++ [⟨"responseSize", none⟩]) s1
  rw [e2] at w2
  have one2 := one1.of_ok w2
  have pos2 : s1.pos ≤ s2.pos := w2.1
  obtain ⟨n, hvi, hn0⟩ := vInt_of_readPrim uRsz e2
  rw [hvi]
  simp only []
  rw [if_neg hn0]
  obtain ⟨s3, e3, p3, one3⟩ := setListed_one one2 (path ++ [⟨"responseSize", none⟩]) n.toNat
  rw [e3]
  simp only [R.bind_ok]
  -- responseCode
  refine mc_rm (readPrim_wc tb.rc _ s3).guarded (one3.own _) (by omega) fun rcv s4 e4 => ?_
  have w4 := readPrim_wc tb.rc (path ++ [⟨"responseCode", none⟩]) s3
  rw [e4] at w4
  have one4 := one3.of_ok w4
  have pos4 : s3.pos ≤ s4.pos := w4.1
  split
  · exact finish_rm one4 (by omega) _
  · cases hh : cc.bind (lookupTy tb.rspHandles) with
    | none => simp only []; exact RM.err (by intro c m h; split at h <;> cases h)
    | some hty =>
      simp only []
      have whty : hty.wf = true ∧ areaTotal tb.encParam hty = true := by
        cases cc with
        | none => simp at hh
        | some c => exact ⟨lookupTy_wf wRH (by simpa using hh), lookupTy_all aRH (by simpa using hh)⟩
      -- handles
      have h5 := decodeArea_wc tb enc hty whty.1 wEnc whty.2 (path ++ [⟨"handles", none⟩]) s4 (one4.fresh (by omega))
      refine mc_rm h5.guarded (one4.own _) (by omega) fun hv s5 e5 => ?_
      rw [e5] at h5
      have one5 := one4.of_ok h5
      have pos5 : s4.pos ≤ s5.pos := h5.1
      -- after the parameters: the sessions (governed by responseSize itself), or the end
      have after : ∀ (vals : List (String × Val)) (s8 : St), Sole s0.pos (some n.toNat) s8.scs → s0.pos + 1 ≤ s8.pos →
          RM s0 (if (!(vInt tag == some tb.sessionsTag)) = true then
              (assertDone false s0.pos s8).bind fun _ s =>
                if s.scs.isEmpty then (.ok (.obj "Response" false vals, s) : R Val)
                else crash "AssertionError" "size_constraints.assert_done()" s
            else
              msgCatch false s0.pos (s0.pos + 1) "Response" vals
                (decodeSized false tb.authRsp (path ++ [(⟨"authorizationArea", none⟩ : PathNode)]) s0.pos s8) fun area s =>
                match areaFlag tb.authRsp "encrypt" area with
                | .error cls => crash cls "is_parameter_encryption" s
                | .ok expected =>
                  if expected != enc then crash "AssertionError" "process_response: parameter_encryption mismatch" s else
                  if s.scs.isEmpty then .ok (.obj "Response" false (vals ++ [("authorizationArea", area)]), s)
                  else crash "AssertionError" "size_constraints.assert_done()" s) := by
        intro vals s8 one8 q8
        split
        · exact finish_rm one8 q8 _
        · obtain ⟨a, hs8, ha, hmax⟩ := one8
          have h9 := decodeSized_wc tb.authRsp wAuth tAuth okAuth neAuth (path ++ [⟨"authorizationArea", none⟩]) s0.pos s8 [] a n.toNat
            (by rw [hs8]; rfl) ha (by intro d hd; cases hd) hmax
            (by rw [hs8]; intro d hd; simp only [List.mem_singleton] at hd; subst hd; rw [ha]; omega)
          refine mc_rm (s := { s8 with scs := [] }) h9.guarded (by intro d hd; cases hd) (by simp only []; omega) fun area s9 e9 => ?_
          have hav := decodeSized_val tb.authRsp _ _ s8 s9 area e9
          rw [e9] at h9
          have hscs : s9.scs = [] := by have := h9.2.2; simp only [] at this; rw [this]; rfl
          have pos9 : s8.pos ≤ s9.pos := h9.1
          obtain ⟨ex, hflag⟩ := areaFlag_okw (flag := "encrypt") sEnc hav
          simp only [hflag]
          split
          · exact ⟨fun c m t hh => by
              simp only [crash, Except.error.injEq, Prod.mk.injEq, Err.crash.injEq] at hh
              exact ⟨hh.1.1.symm, hh.1.2.symm⟩, fun v s' hh => by cases hh⟩
          · rw [hscs]
            simp only [List.isEmpty_nil, if_true]
            refine ⟨(NC.ok _ _).ncx, fun v s' hh => ?_⟩
            simp only [Except.ok.injEq, Prod.mk.injEq] at hh
            obtain ⟨_, rfl⟩ := hh
            omega
      by_cases hsess : (vInt tag == some tb.sessionsTag) = true
      · -- sessions: parameterSize opens its region around the parameters
        simp only [hsess, if_true]
        refine mc_rm (readPrim_wc tb.paramSize _ s5).guarded (one5.own _) (by omega) fun psz s6 e6 => ?_
        have w6 := readPrim_wc tb.paramSize (path ++ [⟨"parameterSize", none⟩]) s5
        rw [e6] at w6
        have one6 := one5.of_ok w6
        have pos6 : s5.pos ≤ s6.pos := w6.1
        obtain ⟨pn, hpi, hpn0⟩ := vInt_of_readPrim uPsz e6
        rw [hpi]
        simp only []
        rw [if_neg hpn0]
        obtain ⟨s7, e7, hs7, p7⟩ := openRegion_warn (s0.pos + 1) (path ++ [⟨"parameterSize", none⟩]) pn.toNat s6
        rw [e7]
        simp only [R.bind_ok]
        cases hp : cc.bind (lookupTy tb.rspParams) with
        | none => simp only []; exact RM.err (by intro c m h; split at h <;> cases h)
        | some pty =>
          simp only []
          have wpty : pty.wf = true ∧ areaTotal tb.encParam pty = true := by
            cases cc with
            | none => simp at hp
            | some c => exact ⟨lookupTy_wf wRP (by simpa using hp), lookupTy_all aRP (by simpa using hp)⟩
          obtain ⟨a6, ha6s, ha6, ha6m⟩ := one6
          have hpre : ∀ d ∈ s6.scs, d.id ≠ s0.pos + 1 := by
            intro d hd; rw [ha6s] at hd; simp only [List.mem_singleton] at hd; subst hd; rw [ha6]; omega
          have hfr7 : Fresh s7.scs s7.pos := by
            rw [hs7, p7]
            exact fresh_append (by rw [ha6s]; exact fresh_one _ _ (by omega)) (by simp only []; omega)
          have own7 : ∀ d ∈ s7.scs, d.id = s0.pos ∨ d.id = s0.pos + 1 := by
            intro d hd
            rw [hs7, ha6s] at hd
            simp only [List.mem_append, List.mem_singleton] at hd
            rcases hd with rfl | rfl
            · exact Or.inl ha6
            · exact Or.inr rfl
          have h8 := decodeArea_wc tb enc pty wpty.1 wEnc wpty.2 (path ++ [⟨"parameters", none⟩]) s7 hfr7
          obtain ⟨g8, k8⟩ := inRegion hs7 p7 hpre h8
          refine mc_rm g8 own7 (by omega) fun pv s8 e8 => ?_
          obtain ⟨q8, c8⟩ := k8 pv s8 e8
          have one8 : Sole s0.pos (some n.toNat) s8.scs := by rw [c8]; exact Sole.bump ⟨a6, ha6s, ha6, ha6m⟩ _
          have := after ([("tag", tag)] ++ [("responseSize", rsz)] ++ [("responseCode", rcv)] ++ [("handles", hv)] ++ [("parameterSize", psz)] ++ [("parameters", pv)]) s8 one8 (by omega)
          simp only [hsess] at this
          exact this
      · -- no sessions
        simp only [hsess, Bool.false_eq_true, if_false]
        cases hp : cc.bind (lookupTy tb.rspParams) with
        | none => simp only []; exact RM.err (by intro c m h; split at h <;> cases h)
        | some pty =>
          simp only []
          have wpty : pty.wf = true ∧ areaTotal tb.encParam pty = true := by
            cases cc with
            | none => simp at hp
            | some c => exact ⟨lookupTy_wf wRP (by simpa using hp), lookupTy_all aRP (by simpa using hp)⟩
          have h8 := decodeArea_wc tb enc pty wpty.1 wEnc wpty.2 (path ++ [⟨"parameters", none⟩]) s5 (one5.fresh (by omega))
          have g8 : Guarded s5 ((decodeArea false tb enc pty (path ++ [⟨"parameters", none⟩]) s5).bind fun pv s => (.ok (pv, s) : R Val)) := by
            have : ((decodeArea false tb enc pty (path ++ [⟨"parameters", none⟩]) s5).bind fun pv s => (.ok (pv, s) : R Val)) =
                decodeArea false tb enc pty (path ++ [⟨"parameters", none⟩]) s5 := by
              cases decodeArea false tb enc pty (path ++ [⟨"parameters", none⟩]) s5 with
              | ok vs => rfl
              | error es => rfl
            rw [this]; exact h8.guarded
          refine mc_rm g8 (one5.own _) (by omega) fun pv s8 e8 => ?_
          obtain ⟨pv', s8a, hd, e8'⟩ := bind_ok_inv e8
          simp only [Except.ok.injEq, Prod.mk.injEq] at e8'
          obtain ⟨rfl, rfl⟩ := e8'
          rw [hd] at h8
          have := after ([("tag", tag)] ++ [("responseSize", rsz)] ++ [("responseCode", rcv)] ++ [("handles", hv)] ++ [("parameters", pv')]) s8a (one5.of_ok h8) (by have := h8.1; simp only [stOf] at this; omega)
          simp only [hsess] at this
          exact this

/-! ### streams, and every top-level decode -/

theorem cmdEncrypt_okw (tb : MsgTables) (hs : sessOk tb.authCmd "encrypt" = true) {vals : List (String × Val)} (hav : AuthOk tb.authCmd vals) :
    ∃ enc, cmdEncrypt tb (.obj "Command" false vals) = .ok enc := by
  unfold cmdEncrypt
  simp only [objField]
  cases hl : lookupVal vals "authorizationArea" with
  | none => exact ⟨false, rfl⟩
  | some area =>
    rcases hav area hl with rfl | ⟨vs, rfl, hvs⟩
    · exact ⟨false, rfl⟩
    · obtain ⟨b, hb⟩ := anyFlag_okw hs vs hvs
      exact ⟨b, by simpa [areaFlag] using hb⟩

/-- **the stream loop in warn mode**: no internal error but the known assertion, and the loop's bound is never hit (every
message it completes consumes at least one byte) -/
theorem decodeStream_ncxw (tb : MsgTables) (ht : tb.total = true) (path : Path) :
    ∀ (fuel : Nat) (s : St), s.inp.length < fuel → NCX (decodeStream false tb path fuel s) := by
  have ht' := ht
  simp only [MsgTables.total, Bool.and_eq_true, Bool.not_eq_true'] at ht'
  obtain ⟨⟨⟨⟨⟨⟨⟨⟨⟨⟨⟨⟨⟨⟨⟨_, _⟩, _⟩, _⟩, _⟩, _⟩, _⟩, _⟩, _⟩, _⟩, sEncC⟩, _⟩, _⟩, _⟩, _⟩, _⟩ := ht'
  intro fuel
  induction fuel with
  | zero => intro s hf; omega
  | succ n ih =>
    intro s hf
    unfold decodeStream
    by_cases he : s.inp.isEmpty = true
    · rw [if_pos he]; exact (NC.ok _ _).ncx
    · rw [if_neg he]
      have hc := decodeCommand_cm tb ht path s
      refine hc.1.ncx.bind fun cmd s1 h1 => ?_
      obtain ⟨hp1, vals, rfl, hav⟩ := hc.2 cmd s1 h1
      obtain ⟨enc, henc⟩ := cmdEncrypt_okw tb sEncC hav
      simp only [henc]
      by_cases he1 : s1.inp.isEmpty = true
      · rw [if_pos he1]; exact (NC.ok _ _).ncx
      · rw [if_neg he1]
        have hr := decodeResponse_rm tb ht ((objField (.obj "Command" false vals) "commandCode").bind vInt) enc path s1
        refine hr.1.bind fun rsp s2 h2 => ?_
        have hp2 := hr.2 rsp s2 h2
        have l1 : s1.inp.length < s.inp.length := by
          have := decodeCommand_pi false tb path s
          rw [h1] at this
          exact this.shorter (by omega)
        have l2 : s2.inp.length < s1.inp.length := by
          have := decodeResponse_pi false tb ((objField (.obj "Command" false vals) "commandCode").bind vInt) enc path s1
          rw [h2] at this
          exact this.shorter (by omega)
        exact ih s2 (by omega)

/-- **warn mode, every top-level decode**: the walker never ends in an internal error, but for the assertion that compares
the caller's response-encryption flag with the response's own session attributes (the known finding) -/
theorem runWalker_ncxw (tb : MsgTables) (ht : tb.total = true) (top : Top)
    (htop : ∀ t, top = .ty t → t.wf = true ∧ t.total = true ∧ t.okNoSel = true) (x : List Byte) :
    NCX (runWalker false tb top x) := by
  unfold runWalker
  cases top with
  | ty t =>
    obtain ⟨hwf, htot, hok⟩ := htop t rfl
    exact (decode_wa t hwf htot rootPath none (initSt x) (fun _ => hok) (by intro c hc; cases hc)).1.2.1.ncx
  | command => exact (decodeCommand_cm tb ht rootPath (initSt x)).1.ncx
  | response cc enc => exact (decodeResponse_rm tb ht cc enc rootPath (initSt x)).1
  | stream => exact decodeStream_ncxw tb ht rootPath (x.length + 1) (initSt x) (by simp [initSt])

/-- structures and commands: no internal error at all -/
theorem runWalker_ncw_ty (tb : MsgTables) (t : Ty) (hwf : t.wf = true) (htot : t.total = true) (hok : t.okNoSel = true) (x : List Byte) :
    NC (runWalker false tb (.ty t) x) :=
  (decode_wa t hwf htot rootPath none (initSt x) (fun _ => hok) (by intro c hc; cases hc)).1.2.1

theorem runWalker_ncw_command (tb : MsgTables) (ht : tb.total = true) (x : List Byte) : NC (runWalker false tb .command x) :=
  (decodeCommand_cm tb ht rootPath (initSt x)).1
