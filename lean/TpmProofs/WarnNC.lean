import TpmProofs.Warn
import TpmProofs.MsgNoCrash
/-!
# Warn mode never fails with an internal error (C08: "decoding never aborts on malformed data")

`Warn.lean` shows that no *size* error escapes a warn-mode decode; it allows internal errors (the model's `crash`) as
outcomes.  Here they are excluded: under the same static side conditions on the tables as for strict mode (`Ty.total`,
kernel-decided over the regenerated tables) the warn-mode walker, on ANY input, in any context with fresh region ids,
never ends in a `crash` — no `AssertionError`, `TypeError`, `KeyError`, `IndexError`, `RuntimeError`, `NameError`, and
the session loop never runs out of steps (its bound is the room left in its region, so it is part of the statement
that every completed session is charged to that region).

Strict mode gets the state after a successful step from soundness (`decode_sound`: exactly the dictated bytes were
consumed and charged).  Warn mode accepts non-conforming input, so the post-state has to be characterised directly:

`WC s r` — *charging*: the position never moves back, `r` is not a crash, and
* a successful step leaves exactly the regions it found, each charged exactly the bytes consumed
  (`t.scs = bump s.scs (t.pos - s.pos)`) — also across reported overruns (the skipped tail of the region is charged to the
  enclosing regions), reported shortfalls (the padding is charged) and out-of-range values;
* a step that stops with `exceeded` for region `c` leaves exactly the regions outside `c`, each charged exactly the bytes
  consumed on the way.
-/

def WC {α : Type} (s : St) (r : R α) : Prop :=
  s.pos ≤ (stOf r).pos ∧ NC r ∧
  match r with
  | .ok (_, t) => t.scs = bump s.scs (t.pos - s.pos)
  | .error (e, t) => ∀ cid cp m a v b, e = .exceeded cid cp m a v b →
      ∃ pre c post, s.scs = pre ++ c :: post ∧ c.id = cid ∧ t.scs = bump pre (t.pos - s.pos)

theorem WC.ok {α : Type} (s : St) (a : α) : WC s (.ok (a, s) : R α) :=
  ⟨Nat.le_refl _, NC.ok _ _, by simp⟩

theorem WC.of_emit {α : Type} {s : St} (e : Event) {r : R α} (h : WC (emit e s) r) : WC s r := h

theorem bump_split {l : List SC} {k : Nat} {pre : List SC} {c : SC} {post : List SC} (h : bump l k = pre ++ c :: post) :
    ∃ pre0 c0 post0, l = pre0 ++ c0 :: post0 ∧ pre = bump pre0 k ∧ c0.id = c.id := by
  induction l generalizing pre with
  | nil => simp [bump] at h
  | cons d rest ih =>
    cases pre with
    | nil =>
      simp only [bump, List.map_cons, List.nil_append, List.cons.injEq] at h
      exact ⟨[], d, rest, rfl, rfl, by rw [← h.1]; rfl⟩
    | cons p pre' =>
      simp only [bump, List.map_cons, List.cons_append, List.cons.injEq] at h
      obtain ⟨pre0, c0, post0, hl, hp, hc⟩ := ih (pre := pre') h.2
      exact ⟨d :: pre0, c0, post0, by rw [hl]; rfl, by rw [hp, ← h.1]; rfl, hc⟩

theorem WC.bind {α β : Type} {s : St} {r : R α} {f : α → St → R β} (h : WC s r)
    (hf : ∀ a t, r = .ok (a, t) → WC t (f a t)) : WC s (r.bind f) := by
  cases r with
  | error e =>
    obtain ⟨e, t⟩ := e
    simp only [R.bind_error]
    exact ⟨h.1, fun c m t' hh => h.2.1 c m t' (by simp only [Except.error.injEq, Prod.mk.injEq] at hh ⊢; exact hh), h.2.2⟩
  | ok at' =>
    obtain ⟨a, t⟩ := at'
    obtain ⟨hp, _, hs⟩ := h
    simp only [stOf] at hp hs
    obtain ⟨gp, gn, gs⟩ := hf a t rfl
    simp only [R.bind_ok]
    refine ⟨by omega, gn, ?_⟩
    cases hr : f a t with
    | ok bt =>
      obtain ⟨b, t2⟩ := bt
      rw [hr] at gs gp
      simp only [stOf] at gs gp ⊢
      rw [gs, hs, bump_bump]
      congr 1; omega
    | error et =>
      obtain ⟨e, t2⟩ := et
      rw [hr] at gs gp
      simp only [stOf] at gs gp ⊢
      intro cid cp m a' v b he
      obtain ⟨pre, c, post, hdec, hcid, hscs⟩ := gs cid cp m a' v b he
      rw [hs] at hdec
      obtain ⟨pre0, c0, post0, hl, hpre, hc0⟩ := bump_split hdec
      refine ⟨pre0, c0, post0, hl, by rw [hc0, hcid], ?_⟩
      rw [hscs, hpre, bump_bump]
      congr 1; omega

theorem WC.fresh {α : Type} {s t : St} {a : α} (h : WC s (.ok (a, t) : R α)) (hf : Fresh s.scs s.pos) : Fresh t.scs t.pos := by
  obtain ⟨hp, _, hs⟩ := h
  simp only [stOf] at hp hs
  rw [hs]
  have := fresh_bump (k := t.pos - s.pos) hf
  rwa [show s.pos + (t.pos - s.pos) = t.pos by omega] at this

theorem WC.error_free {α : Type} {s t : St} {e : Err} (hp : s.pos ≤ t.pos) (hc : ∀ c m, e ≠ .crash c m)
    (he : ∀ cid cp m a v b, e ≠ .exceeded cid cp m a v b) : WC s (.error (e, t) : R α) :=
  ⟨hp, NC.error_ne hc, fun _ _ _ _ _ _ h => absurd h (he _ _ _ _ _ _)⟩

/-! ## leaves -/

/-- the charging loop: with `done` = regions already charged `size`, an overrun of `c` leaves the regions before `c`
charged exactly the skipped rest of `c` -/
theorem bpGo_wc (path : Path) (size : Nat) : ∀ (todo d0 : List SC) (s : St) cid cp m a v b t,
    bpGo path size (bump d0 size) todo s = .error (.exceeded cid cp m a v b, t) →
    ∃ pre c post, todo = pre ++ c :: post ∧ c.id = cid ∧ s.pos ≤ t.pos ∧ t.scs = bump (d0 ++ pre) (t.pos - s.pos) := by
  intro todo
  induction todo with
  | nil => intro d0 s cid cp m a v b t h; simp [bpGo] at h
  | cons c rest ih =>
    intro d0 s cid cp m a v b t h
    unfold bpGo at h
    by_cases hov : c.over size = true
    · simp only [hov, if_true] at h
      cases hc : consume (c.max.getD 0 - c.already) { s with scs := (bump d0 size).map fun d => { d with already := d.already - (size - (c.max.getD 0 - c.already)) } } with
      | error et =>
        obtain ⟨e, t'⟩ := et
        obtain ⟨rfl, _⟩ := consume_err hc
        rw [hc] at h
        simp [R.bind] at h
      | ok ut =>
        obtain ⟨_, t'⟩ := ut
        rw [hc] at h
        simp only [R.bind_ok, Except.error.injEq, Prod.mk.injEq, Err.exceeded.injEq] at h
        obtain ⟨⟨hid, _⟩, rfl⟩ := h
        obtain ⟨hs, hp⟩ := consume_ok hc
        have hpos : t'.pos = s.pos + (c.max.getD 0 - c.already) := by
          unfold consume take at hc
          split at hc
          · simp [R.bind] at hc
          · simp only [R.bind_ok, Except.ok.injEq, Prod.mk.injEq, true_and] at hc
            subst hc; rfl
        have hle : c.max.getD 0 - c.already ≤ size := by
          simp only [SC.over] at hov
          cases hm : c.max with
          | none => simp [hm] at hov
          | some mm => simp only [hm, decide_eq_true_eq] at hov; simp only [Option.getD_some]; omega
        refine ⟨[], c, rest, rfl, hid, hp, ?_⟩
        rw [hs, hpos]
        simp only [List.append_nil, bump, List.map_map]
        apply List.map_congr_left
        intro d _
        simp only [Function.comp, SC.bump]
        congr 1
        omega
    · simp only [hov, Bool.false_eq_true, if_false] at h
      have hb : bump d0 size ++ [c.bump size] = bump (d0 ++ [c]) size := by simp [bump]
      rw [hb] at h
      obtain ⟨pre, c', post, hdec, hcid, hp, hscs⟩ := ih (d0 ++ [c]) s cid cp m a v b t h
      exact ⟨c :: pre, c', post, by rw [hdec]; rfl, hcid, hp, by rw [hscs]; simp [List.append_assoc]⟩

theorem bytesParsed_exc {path : Path} {size : Nat} {s t : St} {cid : Nat} {cp : Path} {m a : Nat} {v : Path} {b : Nat}
    (h : bytesParsed path size s = .error (.exceeded cid cp m a v b, t)) :
    ∃ pre c post, s.scs = pre ++ c :: post ∧ c.id = cid ∧ s.pos ≤ t.pos ∧ t.scs = bump pre (t.pos - s.pos) := by
  unfold bytesParsed at h
  have := bpGo_wc path size s.scs [] s cid cp m a v b t (by simpa [bump] using h)
  simpa using this

theorem readPrim_ncw (p : Prim) (path : Path) (s : St) : NC (readPrim false p path s) := by
  unfold readPrim
  refine (bpGo_nc path p.size s.scs [] s).bind fun _ t _ => ?_
  refine (take_nc p.size t).bind fun bs t2 _ => ?_
  simp only [Bool.false_eq_true, if_false]
  split <;> exact NC.ok _ _

/-- an `exceeded` out of `readPrim` comes from the charging loop -/
theorem readPrim_exc_inv {p : Prim} {path : Path} {s t : St} {cid : Nat} {cp : Path} {m a : Nat} {v : Path} {b : Nat}
    (h : readPrim false p path s = .error (.exceeded cid cp m a v b, t)) :
    bytesParsed path p.size s = .error (.exceeded cid cp m a v b, t) := by
  unfold readPrim at h
  cases hb : bytesParsed path p.size s with
  | error et =>
    obtain ⟨e, t'⟩ := et
    rw [hb] at h
    simpa [R.bind] using h
  | ok ut =>
    obtain ⟨_, s1⟩ := ut
    rw [hb] at h
    simp only [R.bind_ok] at h
    cases ht : take p.size s1 with
    | error et =>
      obtain ⟨e, t'⟩ := et
      rw [ht] at h
      unfold take at ht
      split at ht
      · simp only [Except.error.injEq, Prod.mk.injEq] at ht
        simp only [R.bind_error, Except.error.injEq, Prod.mk.injEq] at h
        rw [← ht.1] at h; simp at h
      · simp at ht
    | ok bt =>
      obtain ⟨bs, s2⟩ := bt
      rw [ht] at h
      simp only [R.bind_ok, Bool.false_eq_true, if_false] at h
      split at h <;> simp at h

theorem readPrim_wc (p : Prim) (path : Path) (s : St) : WC s (readPrim false p path s) := by
  refine ⟨(readPrim_wi p path s).1, readPrim_ncw p path s, ?_⟩
  cases hr : readPrim false p path s with
  | ok vt =>
    obtain ⟨v, t⟩ := vt
    simp only []
    rw [readPrim_warn_scs hr, readPrim_warn_ok hr]
    congr 1; omega
  | error et =>
    obtain ⟨e, t⟩ := et
    simp only []
    intro cid cp m a v b he
    subst he
    obtain ⟨pre, c, post, h1, h2, _, h4⟩ := bytesParsed_exc (readPrim_exc_inv hr)
    exact ⟨pre, c, post, h1, h2, h4⟩

/-- a successful read in warn mode yields the integer -/
theorem readPrim_warn_val {p : Prim} {path : Path} {s t : St} {v : Val} (h : readPrim false p path s = .ok (v, t)) :
    ∃ x, v = .int p.name x ∧ (p.signed = false → 0 ≤ x) := by
  unfold readPrim at h
  obtain ⟨_, s1, _, h⟩ := bind_ok_inv h
  obtain ⟨bs, s2, _, h⟩ := bind_ok_inv h
  simp only [Bool.false_eq_true, if_false] at h
  split at h <;>
  · simp only [Except.ok.injEq, Prod.mk.injEq] at h
    exact ⟨_, h.1.symm, fun hu => by simp only [Prim.ofBytes, hu]; exact intOfBytes_nonneg _ _⟩

theorem anticipateM_warn (vpath : Path) (v id : Nat) (s : St) :
    ∃ t, anticipateM false vpath v id s = .ok ((), t) ∧ t.scs = s.scs ∧ t.pos = s.pos := by
  unfold anticipateM
  split
  · exact ⟨_, rfl, rfl, rfl⟩
  · simp only [Bool.false_eq_true, if_false]; exact ⟨_, rfl, rfl, rfl⟩

theorem assertDoneSC_wc (c : SC) (s : St) (m : Nat) (hm : c.max = some m) : WC s (assertDoneSC false c s) := by
  refine ⟨(assertDoneSC_wi c s).1, ?_, ?_⟩
  · unfold assertDoneSC
    simp only [hm]
    split
    · exact NC.ok _ _
    · simp only [Bool.false_eq_true, if_false]
      split
      · exact (bpGo_nc _ _ _ _ _).bind fun _ t _ => consume_nc _ t
      · exact NC.ok _ _
  · unfold assertDoneSC
    simp only [hm]
    by_cases heq : c.already = m
    · simp [heq]
    · simp only [heq, Bool.false_eq_true, if_false]
      by_cases hlt : c.already < m
      · simp only [hlt, if_true]
        cases hb : bytesParsed c.path (m - c.already) (emitW (.subceeded c.id c.path m c.already) s) with
        | error et =>
          obtain ⟨e, t⟩ := et
          simp only [R.bind_error]
          intro cid cp mm a v b he
          subst he
          obtain ⟨pre, c', post, h1, h2, _, h4⟩ := bytesParsed_exc hb
          exact ⟨pre, c', post, h1, h2, h4⟩
        | ok ut =>
          obtain ⟨_, s1⟩ := ut
          have hs1 := bytesParsed_ok_inv hb
          simp only [R.bind_ok]
          cases hc : consume (m - c.already) s1 with
          | error et =>
            obtain ⟨e, t⟩ := et
            obtain ⟨rfl, _⟩ := consume_err hc
            simp only []
            intro cid cp mm a v b he; cases he
          | ok ut =>
            obtain ⟨_, t⟩ := ut
            simp only []
            obtain ⟨hs, _⟩ := consume_ok hc
            have hpos : t.pos = s1.pos + (m - c.already) := by
              unfold consume take at hc
              split at hc
              · simp [R.bind] at hc
              · simp only [R.bind_ok, Except.ok.injEq, Prod.mk.injEq, true_and] at hc
                subst hc; rfl
            rw [hs, hpos, hs1]
            simp only [emitW, emit]
            congr 1; omega
      · simp [hlt, emitW, emit]

/-! ## regions and their owners -/

theorem assertDone_last {id : Nat} {pre : List SC} {c : SC} {s : St} (hs : s.scs = pre ++ [c]) (hid : c.id = id)
    (hpre : ∀ d ∈ pre, d.id ≠ id) : assertDone false id s = assertDoneSC false c { s with scs := pre } := by
  unfold assertDone
  rw [hs, findSC_append_new id c pre hid hpre, removeSC_append_new id c pre hid hpre]

/-- the frame of a region's owner: body inside the region, then `assert_done`, with the owner's `except` around the body -/
theorem owner_wc {s1 s2 : St} {id : Nat} {cpath : Path} {n : Nat} (hs2 : s2.scs = s1.scs ++ [⟨id, cpath, 0, some n⟩])
    (hpos : s2.pos = s1.pos) (hfresh : ∀ d ∈ s1.scs, d.id ≠ id) {r : R Val} (hr : WC s2 r) (g : Val → Val) :
    WC s1 (ownCatch false id r fun bv s => (assertDone false id s).bind fun _ s => .ok (g bv, s)) := by
  obtain ⟨hp, hn, hm⟩ := hr
  cases r with
  | ok vs =>
    obtain ⟨bv, s3⟩ := vs
    simp only [stOf] at hp hm
    simp only [ownCatch]
    rw [hs2, bump_append] at hm
    have hne : ∀ d ∈ bump s1.scs (s3.pos - s2.pos), d.id ≠ id := bump_ids hfresh
    rw [assertDone_last (id := id) hm rfl hne]
    have hw := assertDoneSC_wc ((⟨id, cpath, 0, some n⟩ : SC).bump (s3.pos - s2.pos)) { s3 with scs := bump s1.scs (s3.pos - s2.pos) } n rfl
    have hstart : WC s1 (.ok (bv, { s3 with scs := bump s1.scs (s3.pos - s2.pos) }) : R Val) :=
      ⟨by simp only [stOf]; omega, NC.ok _ _, by simp only []; rw [hpos]⟩
    have := WC.bind (f := fun (_ : Val) t => (assertDoneSC false ((⟨id, cpath, 0, some n⟩ : SC).bump (s3.pos - s2.pos)) t).bind
        fun _ s => (.ok (g bv, s) : R Val)) hstart (fun _ t ht => by
      simp only [Except.ok.injEq, Prod.mk.injEq] at ht
      obtain ⟨_, rfl⟩ := ht
      exact hw.bind fun _ t2 _ => WC.ok _ _)
    exact this
  | error es =>
    obtain ⟨e, t⟩ := es
    simp only [stOf] at hp hm
    by_cases hex : ∃ cid cp m a v b, e = .exceeded cid cp m a v b
    · obtain ⟨cid, cp, m, a, v, b, rfl⟩ := hex
      obtain ⟨pre, c, post, hdec, hcid, hscs⟩ := hm cid cp m a v b rfl
      rw [hs2] at hdec
      rcases snoc_split hdec with ⟨_, hpre, hc⟩ | ⟨post', _, hl⟩
      · subst hc
        simp only [] at hcid
        subst hcid
        simp only [ownCatch, Bool.false_or, bne_self_eq_false, Bool.false_eq_true, if_false]
        refine ⟨by simp only [stOf, emitW, emit]; omega, NC.ok _ _, ?_⟩
        simp only [emitW, emit]
        rw [hscs, hpre, hpos]
      · have hne : cid ≠ id := by rw [← hcid]; exact hfresh c (by rw [hl]; simp)
        have hb : (cid != id) = true := by simpa using hne
        simp only [ownCatch, Bool.false_or, hb, if_true]
        refine ⟨by simp only [stOf]; omega, hn, ?_⟩
        intro cid' cp' m' a' v' b' he
        simp only [Err.exceeded.injEq] at he
        obtain ⟨rfl, _⟩ := he
        exact ⟨pre, c, post', hl, hcid, by rw [hscs, hpos]⟩
    · have hoc : (ownCatch false id (.error (e, t)) fun bv s => (assertDone false id s).bind fun _ s => .ok (g bv, s)) = .error (e, t) := by
        cases e <;> first | rfl | (exfalso; exact hex ⟨_, _, _, _, _, _, rfl⟩)
      rw [hoc]
      refine ⟨by simp only [stOf]; omega, hn, ?_⟩
      intro cid cp m a v b he
      exact absurd ⟨cid, cp, m, a, v, b, he⟩ hex

theorem ownCatch_pass {id : Nat} {r : R Val} {k : Val → St → R Val}
    (h : ∀ cp m a v b t, r ≠ .error (.exceeded id cp m a v b, t)) : ownCatch false id r k = r.bind k := by
  cases r with
  | ok vs => rfl
  | error es =>
    obtain ⟨e, t⟩ := es
    cases e with
    | exceeded cid cp m a v b =>
      by_cases hc : cid = id
      · subst hc; exact absurd rfl (h cp m a v b t)
      · have hb : (cid != id) = true := by simpa using hc
        simp [ownCatch, hb, R.bind]
    | _ => rfl

/-! ## the walkers -/

theorem repeatDec_wc (f : Path → St → R Val) (hf : ∀ p s, Fresh s.scs s.pos → WC s (f p s)) (path : Path) :
    ∀ (n i : Nat) (s : St), Fresh s.scs s.pos → WC s (repeatDec f path n i s) := by
  intro n
  induction n with
  | zero => intro i s _; exact WC.ok _ _
  | succ m ih =>
    intro i s hfr
    unfold repeatDec
    refine (hf _ s hfr).bind fun v t ht => ?_
    have hfr1 : Fresh t.scs t.pos := WC.fresh (by rw [← ht]; exact hf _ s hfr) hfr
    exact (ih (i+1) t hfr1).bind fun vs t2 _ => WC.ok _ _

theorem readPrimList_wc (p : Prim) (path : Path) (n : Nat) (s : St) (hfr : Fresh s.scs s.pos) :
    WC s (readPrimList false p path n s) := by
  unfold readPrimList
  apply WC.of_emit
  exact (repeatDec_wc _ (fun q s _ => readPrim_wc p q s) path n 0 _ (by simpa [emitM, emit] using hfr)).bind fun vs t _ => WC.ok _ _

theorem readPrimList_exc {p : Prim} {path : Path} {n : Nat} {s t : St} {e : Err}
    (h : readPrimList false p path n s = .error (e, t)) :
    repeatDec (readPrim false p) path n 0 (emitM ⟨path, .listOf p.name, none, "", 0⟩ s) = .error (e, t) := by
  unfold readPrimList at h
  cases hrr : repeatDec (readPrim false p) path n 0 (emitM ⟨path, .listOf p.name, none, "", 0⟩ s) with
  | error et => rw [hrr] at h; simpa [R.bind] using h
  | ok vt => rw [hrr] at h; simp [R.bind] at h

/-- what the size field of a buffer looks like once read, and the state in which its region is opened -/
theorem sizeField_warn {szP : Prim} {path : Path} {s s1 : St} {nv : Val} (hu : szP.signed = false) (hpos : 0 < szP.size)
    (hfr : Fresh s.scs s.pos) (h1 : readPrim false szP path s = .ok (nv, s1)) :
    ¬ ((nv.asInt?.getD 0) < 0) ∧ Fresh s1.scs s1.pos ∧ (∀ d ∈ s1.scs, d.id ≠ s1.pos) := by
  obtain ⟨x, rfl, hx⟩ := readPrim_warn_val h1
  have hw : WC s (.ok (.int szP.name x, s1) : R Val) := by rw [← h1]; exact readPrim_wc szP path s
  have hp1 := readPrim_warn_ok h1
  refine ⟨by have := hx hu; simp only [Val.asInt?, Option.getD_some]; omega, WC.fresh hw hfr, ?_⟩
  intro d hd
  rw [hw.2.2] at hd
  simp only [bump, List.mem_map] at hd
  obtain ⟨d0, hd0, rfl⟩ := hd
  have := hfr d0 hd0
  simp only [SC.bump]
  omega

/-! ### progress: a successful step consumes at least the leading integers of the layout -/

def Adv {α : Type} (k : Nat) (s : St) (r : R α) : Prop := ∀ a t, r = .ok (a, t) → s.pos + k ≤ t.pos

def WA {α : Type} (k : Nat) (s : St) (r : R α) : Prop := WC s r ∧ Adv k s r

theorem WA.of_wc {α : Type} {s : St} {r : R α} (h : WC s r) : WA 0 s r :=
  ⟨h, fun a t hr => by subst hr; exact h.1⟩

theorem WA.ok {α : Type} (s : St) (a : α) : WA 0 s (.ok (a, s) : R α) := WA.of_wc (WC.ok s a)

theorem WA.of_emit {α : Type} {k : Nat} {s : St} (e : Event) {r : R α} (h : WA k (emit e s) r) : WA k s r := h

theorem WA.mono {α : Type} {k k' : Nat} {s : St} {r : R α} (h : WA k s r) (hk : k' ≤ k) : WA k' s r :=
  ⟨h.1, fun a t hr => by have := h.2 a t hr; omega⟩

theorem WA.bind {α β : Type} {k1 k2 : Nat} {s : St} {r : R α} {f : α → St → R β} (h : WA k1 s r)
    (hf : ∀ a t, r = .ok (a, t) → WA k2 t (f a t)) : WA (k1 + k2) s (r.bind f) := by
  refine ⟨h.1.bind fun a t hr => (hf a t hr).1, ?_⟩
  intro b t2 hb
  obtain ⟨a, t, hr, hft⟩ := bind_ok_inv hb
  have h1 := h.2 a t hr
  have h2 := (hf a t hr).2 b t2 hft
  omega

mutual
def Ty.minLen : Ty → Nat
  | .prim p => p.size
  | .struct _ _ fs => fs.minLen
  | .tpm2bBytes _ _ szP _ _ => szP.size
  | .tpm2b _ _ szP _ _ => szP.size
  | .union _ _ => 0
  | .bad _ => 0
def Fields.minLen : Fields → Nat
  | .nil => 0
  | .cons _ .plain t rest => t.minLen + rest.minLen
  | .cons _ _ _ rest => rest.minLen
end

theorem nonEmpty_minLen {t : Ty} (h : t.nonEmpty = true) : 0 < t.minLen := by
  have leaf : ∀ {u : Ty}, u.nonEmptyLeaf = true → 0 < u.minLen := by
    intro u hu
    cases u <;> simp [Ty.nonEmptyLeaf] at hu <;> simpa [Ty.minLen] using hu
  cases t with
  | struct n p fs =>
    cases fs with
    | nil => simp [Ty.nonEmpty, Ty.nonEmptyLeaf] at h
    | cons f kind u rest =>
      cases kind with
      | plain =>
        simp only [Ty.nonEmpty] at h
        have := leaf h
        simp only [Ty.minLen, Fields.minLen]; omega
      | selected => simp [Ty.nonEmpty, Ty.nonEmptyLeaf] at h
      | counted => simp [Ty.nonEmpty, Ty.nonEmptyLeaf] at h
  | prim p => exact leaf (by simpa [Ty.nonEmpty] using h)
  | tpm2b => exact leaf (by simpa [Ty.nonEmpty] using h)
  | tpm2bBytes => exact leaf (by simpa [Ty.nonEmpty] using h)
  | union => simp [Ty.nonEmpty, Ty.nonEmptyLeaf] at h
  | bad => simp [Ty.nonEmpty, Ty.nonEmptyLeaf] at h

theorem readPrim_wa (p : Prim) (path : Path) (s : St) : WA p.size s (readPrim false p path s) :=
  ⟨readPrim_wc p path s, fun _ t h => by rw [readPrim_warn_ok h]; exact Nat.le_refl _⟩

mutual
theorem decode_wa : (t : Ty) → t.wf = true → t.total = true → ∀ (path : Path) (sel : Option Int) (s : St),
    (sel = none → t.okNoSel = true) → Fresh s.scs s.pos → WA t.minLen s (decode false t path sel s)
  | .prim p, _, _, path, sel, s, _, _ => by simp only [decode, Ty.minLen]; exact readPrim_wa p path s
  | .struct name isP fs, hwf, htot, path, sel, s, _, hfr => by
    simp only [decode, Ty.minLen]
    apply WA.of_emit
    exact (fields_wa fs (by simpa [Ty.wf] using hwf) none [] (by simpa [Ty.total] using htot) path [] _ VOK.nil
      (by simpa [emitM, emit] using hfr)).bind fun vals t _ => WA.ok _ _
  | .tpm2bBytes name szName szP bufName elem, hwf, htot, path, sel, s, _, hfr => by
    simp only [Ty.wf, Bool.and_eq_true, decide_eq_true_eq] at hwf
    obtain ⟨⟨⟨_, hszpos⟩, _⟩, hel1⟩ := hwf
    simp only [Ty.total, Bool.not_eq_true'] at htot
    simp only [decode, Ty.minLen]
    apply WA.of_emit
    refine (readPrim_wa szP _ _).bind (k2 := 0) fun nv s1 h1 => WA.of_wc ?_
    obtain ⟨hn0, hfr1, hne⟩ := sizeField_warn htot hszpos (by simpa [emitM, emit] using hfr) h1
    rw [if_neg hn0]
    obtain ⟨s2, h2, hs2, hp2⟩ := openRegion_warn s1.pos (path ++ [⟨szName, none⟩]) (nv.asInt?.getD 0).toNat s1
    rw [h2]
    simp only [R.bind_ok]
    have hfr2 : Fresh s2.scs s2.pos := by rw [hs2, hp2]; exact fresh_append hfr1 (Nat.le_refl _)
    have hbody := readPrimList_wc elem (path ++ [⟨bufName, none⟩]) (nv.asInt?.getD 0).toNat s2 hfr2
    have := owner_wc (id := s1.pos) hs2 hp2 hne hbody (fun bv => .obj name false [(szName, nv), (bufName, bv)])
    rw [ownCatch_pass] at this
    · exact this
    · intro cp m a v b t hb
      rcases bytes_no_own elem hel1 (path ++ [⟨bufName, none⟩]) s1.pos (nv.asInt?.getD 0).toNat 0
        (emitM ⟨path ++ [⟨bufName, none⟩], .listOf elem.name, none, "", 0⟩ s2) s1.scs
        ⟨s1.pos, path ++ [⟨szName, none⟩], 0, some (nv.asInt?.getD 0).toNat⟩ (nv.asInt?.getD 0).toNat
        (by simpa [emitM, emit] using hs2) rfl hne rfl (by simp) s1.pos cp m a v b t with h' | h'
      · exact h' (readPrimList_exc hb)
      · exact h' rfl
  | .tpm2b name szName szP bufName body, hwf, htot, path, sel, s, _, hfr => by
    simp only [Ty.wf, Bool.and_eq_true, decide_eq_true_eq] at hwf
    obtain ⟨⟨_, hszpos⟩, hwb⟩ := hwf
    simp only [Ty.total, Bool.and_eq_true, Bool.not_eq_true'] at htot
    obtain ⟨⟨hus, htb⟩, hokb⟩ := htot
    simp only [decode, Ty.minLen]
    apply WA.of_emit
    refine (readPrim_wa szP _ _).bind (k2 := 0) fun nv s1 h1 => WA.of_wc ?_
    obtain ⟨hn0, hfr1, hne⟩ := sizeField_warn hus hszpos (by simpa [emitM, emit] using hfr) h1
    rw [if_neg hn0]
    obtain ⟨s2, h2, hs2, hp2⟩ := openRegion_warn s1.pos (path ++ [⟨szName, none⟩]) (nv.asInt?.getD 0).toNat s1
    rw [h2]
    simp only [R.bind_ok]
    have hfr2 : Fresh s2.scs s2.pos := by rw [hs2, hp2]; exact fresh_append hfr1 (Nat.le_refl _)
    split
    · have := owner_wc (id := s1.pos) (r := .ok (.none, emitM ⟨path ++ [⟨bufName, none⟩], body.eventTag, none, "", 0⟩ s2))
        hs2 hp2 hne ⟨Nat.le_refl _, NC.ok _ _, by simp [emitM, emit]⟩ (fun _ => .obj name false [(szName, nv), (bufName, .none)])
      simpa [ownCatch] using this
    · exact owner_wc (id := s1.pos) hs2 hp2 hne (decode_wa body hwb htb _ none s2 (fun _ => hokb) hfr2).1
        (fun bv => .obj name false [(szName, nv), (bufName, bv)])
  | .union name arms, hwf, htot, path, sel, s, hsel, hfr => by
    simp only [decode, Ty.minLen]
    apply WA.of_emit
    apply WA.of_wc
    cases han : selectArm arms.keys sel with
    | none =>
      simp only []
      cases sel with
      | some sv => exact WC.error_free (Nat.le_refl _) (by intro c m h; cases h) (by intro cid cp m a v b h; cases h)
      | none =>
        have := hsel rfl
        simp [Ty.okNoSel, han] at this
    | some an =>
      simp only []
      exact arm_wc arms (by simpa [Ty.wf] using hwf) (by simpa [Ty.total] using htot) name an path _
        (selectArm_mem han) (by simpa [emitM, emit] using hfr)
  | .bad r, _, htot, path, sel, s, _, _ => by simp [Ty.total] at htot

theorem arm_wc : (arms : Arms) → arms.wf = true → arms.total = true → ∀ (un want : String) (path : Path) (s : St),
    want ∈ arms.keys.map (·.1) → Fresh s.scs s.pos → WC s (decodeArm false arms un want path s)
  | .nil, _, _, un, want, path, s, hmem, _ => by simp [Arms.keys] at hmem
  | .consNone an key rest, hwf, htot, un, want, path, s, hmem, hfr => by
    simp only [decodeArm]
    split
    · exact WC.ok _ _
    · rename_i hne
      refine arm_wc rest (by simpa [Arms.wf] using hwf) (by simpa [Arms.total] using htot) un want path s ?_ hfr
      simp only [Arms.keys, List.map_cons, List.mem_cons] at hmem
      rcases hmem with h | h
      · exact absurd h.symm hne
      · exact h
  | .cons an key t rest, hwf, htot, un, want, path, s, hmem, hfr => by
    simp only [Arms.wf, Bool.and_eq_true] at hwf
    simp only [Arms.total, Bool.and_eq_true] at htot
    simp only [decodeArm]
    split
    · exact (decode_wa t hwf.1 htot.1.1 _ none s (fun _ => htot.1.2) hfr).1.bind fun v t' _ => WC.ok _ _
    · rename_i hne
      refine arm_wc rest hwf.2 htot.2 un want path s ?_ hfr
      simp only [Arms.keys, List.map_cons, List.mem_cons] at hmem
      rcases hmem with h | h
      · exact absurd h.symm hne
      · exact h
  | .consBytes an key elem n rest, hwf, htot, un, want, path, s, hmem, hfr => by
    simp only [Arms.wf, Bool.and_eq_true] at hwf
    simp only [Arms.total, Bool.and_eq_true] at htot
    simp only [decodeArm]
    split
    · cases n with
      | none => simp at htot
      | some k =>
        simp only [readListArm]
        exact (readPrimList_wc elem _ k s hfr).bind fun v t' _ => WC.ok _ _
    · rename_i hne
      refine arm_wc rest hwf.2 htot.2 un want path s ?_ hfr
      simp only [Arms.keys, List.map_cons, List.mem_cons] at hmem
      rcases hmem with h | h
      · exact absurd h.symm hne
      · exact h

theorem fields_wa : (fs : Fields) → fs.wf = true → ∀ (l : Option Bool) (seen : List (String × Bool)), fs.total l seen = true →
    ∀ (path : Path) (vals : List (String × Val)) (s : St), VOK vals l seen → Fresh s.scs s.pos →
    WA fs.minLen s (decodeFields false fs path vals s)
  | .nil, _, l, seen, _, path, vals, s, _, _ => by simp only [decodeFields, Fields.minLen]; exact WA.ok _ _
  | .cons fname kind t rest, hwf, l, seen, htot, path, vals, s, hv, hfr => by
    simp only [Fields.wf, Bool.and_eq_true] at hwf
    simp only [Fields.total, Bool.and_eq_true] at htot
    obtain ⟨⟨htt, hkind⟩, hrest⟩ := htot
    simp only [decodeFields]
    cases kind with
    | plain =>
      simp only [] at hkind hrest
      simp only [decodeFieldWith, Fields.minLen]
      have hstep := decode_wa t hwf.1 htt (path ++ [⟨fname, none⟩]) none s (fun _ => hkind) hfr
      refine hstep.bind fun v s1 h1 => ?_
      have hfr1 : Fresh s1.scs s1.pos := WC.fresh (by rw [← h1]; exact hstep.1) hfr
      cases t with
      | prim p =>
        simp only [decode] at h1
        obtain ⟨x, rfl, _⟩ := readPrim_warn_val h1
        exact fields_wa rest hwf.2 _ _ (by simpa [Ty.isPrim] using hrest) path _ s1 (hv.snoc_int fname p.name x) hfr1
      | struct n p fs => exact fields_wa rest hwf.2 _ _ (by simpa [Ty.isPrim] using hrest) path _ s1 (hv.snoc_other fname v) hfr1
      | tpm2b n a b c d => exact fields_wa rest hwf.2 _ _ (by simpa [Ty.isPrim] using hrest) path _ s1 (hv.snoc_other fname v) hfr1
      | tpm2bBytes n a b c d => exact fields_wa rest hwf.2 _ _ (by simpa [Ty.isPrim] using hrest) path _ s1 (hv.snoc_other fname v) hfr1
      | union n a => exact fields_wa rest hwf.2 _ _ (by simpa [Ty.isPrim] using hrest) path _ s1 (hv.snoc_other fname v) hfr1
      | bad r => exact fields_wa rest hwf.2 _ _ (by simpa [Ty.isPrim] using hrest) path _ s1 (hv.snoc_other fname v) hfr1
    | selected sel =>
      simp only [] at hkind hrest
      obtain ⟨x, hx⟩ := hv.sel (by simpa using hkind)
      simp only [decodeFieldWith, hx, Fields.minLen]
      have hstep := decode_wa t hwf.1 htt (path ++ [⟨fname, none⟩]) (some x) s (by intro h; cases h) hfr
      refine (WA.bind (k1 := 0) (k2 := rest.minLen) (hstep.mono (Nat.zero_le _)) fun v s1 h1 => ?_).mono (by omega)
      have hfr1 : Fresh s1.scs s1.pos := WC.fresh (by rw [← h1]; exact hstep.1) hfr
      exact fields_wa rest hwf.2 _ _ hrest path _ s1 (hv.snoc_other fname v) hfr1
    | counted =>
      simp only [Bool.and_eq_true, beq_iff_eq] at hkind hrest
      obtain ⟨hok, hl⟩ := hkind
      subst hl
      obtain ⟨c, hc⟩ := hv.count
      simp only [decodeFieldWith, hc, Fields.minLen]
      have hstep : WC s ((repeatDec (fun p s => decode false t p none s) (path ++ [⟨fname, none⟩]) c 0
          (emitM ⟨path ++ [⟨fname, none⟩], .listOf t.name, none, "", 0⟩ s)).bind fun vs s => (.ok (.list vs, s) : R Val)) := by
        apply WC.of_emit
        exact (repeatDec_wc _ (fun p s hf => (decode_wa t hwf.1 htt p none s (fun _ => hok) hf).1) _ c 0 _
          (by simpa [emitM, emit] using hfr)).bind fun vs t' _ => WC.ok _ _
      refine (WA.bind (k1 := 0) (k2 := rest.minLen) (WA.of_wc hstep) fun v s1 h1 => ?_).mono (by omega)
      have hfr1 : Fresh s1.scs s1.pos := WC.fresh (by rw [← h1]; exact hstep) hfr
      obtain ⟨vs, s2, _, hv'⟩ := bind_ok_inv h1
      simp only [Except.ok.injEq, Prod.mk.injEq] at hv'
      obtain ⟨rfl, _⟩ := hv'
      exact fields_wa rest hwf.2 _ _ hrest path _ s1 (hv.snoc_list fname vs) hfr1
end
