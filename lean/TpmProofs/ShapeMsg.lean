import TpmProofs.Shape
/-!
# Shaped event streams: areas, session lists, commands, responses, streams
-/

section
variable {okc : MEvent → Prop} {pk : Prim → Bool} (abort : Bool)

theorem Tr.msgCatch {P1 P2 P : List Event → Prop} {s : St} {r : R Val} {k : Val → St → R Val} (id1 id2 : Nat)
    (name : String) (vals : List (String × Val)) (h : Tr P1 s r)
    (hk : ∀ v t, r = .ok (v, t) → Tr P2 t (k v t)) (h1 : ∀ E, P1 E → P E)
    (h1w : ∀ E w, P1 E → P (E ++ [.warning w])) (h12 : ∀ E1 E2, P1 E1 → P2 E2 → P (E1 ++ E2)) :
    Tr P s (_root_.msgCatch abort id1 id2 name vals r k) := by
  unfold _root_.msgCatch
  split
  · rename_i cid cp m a v b t
    split
    · exact h.mono h1
    · obtain ⟨new, o, p⟩ := h
      refine ⟨new ++ [(t.pos, .warning (.exceeded cid cp m a v b))], ?_, by rw [List.map_append]; exact h1w _ _ p⟩
      simp only [stOf] at o ⊢
      simp [emitW, emit, o]
  · exact h.mono h1
  · rename_i v t
    obtain ⟨n1, o1, p1⟩ := h
    obtain ⟨n2, o2, p2⟩ := hk v t rfl
    refine ⟨n1 ++ n2, ?_, by rw [List.map_append]; exact h12 _ _ p1 p2⟩
    rw [o2]; simp only [stOf] at o1; rw [o1, List.append_assoc]

/-- one message field (slot `n`), then the rest of the message in the slots `N2` -/
theorem Tr.msgCatch_gn {π : Path} {n : String} {N2 : List String} {s : St} {r : R Val} {k : Val → St → R Val}
    (id1 id2 : Nat) (name : String) (vals : List (String × Val)) (h : Tr (GN okc π [n]) s r)
    (hk : ∀ v t, r = .ok (v, t) → Tr (GN okc π N2) t (k v t)) (hn : n ∉ N2) :
    Tr (GN okc π (n :: N2)) s (_root_.msgCatch abort id1 id2 name vals r k) := by
  have hd : ∀ g ∈ [n], g ∉ N2 := fun g hg => by rw [List.mem_singleton.mp hg]; exact hn
  refine Tr.msgCatch abort id1 id2 name vals h hk (fun _ h1 => h1.mono (fun g hg => ?_)) (fun E w h1 => ?_)
    (fun _ _ h1 h2 => h1.append h2 hd)
  · rw [List.mem_singleton.mp hg]; exact List.mem_cons_self ..
  · have := h1.append (GN.of_gw (okc := okc) π N2 (GW.cons_w w GW.nil)) hd
    exact this

theorem Tr.gn_weaken {α : Type} {π : Path} {N N' : List String} {s : St} {r : R α} (h : Tr (GN okc π N) s r)
    (hs : ∀ g ∈ N, g ∈ N') : Tr (GN okc π N') s r := h.mono (fun _ hh => hh.mono hs)

/-! ## areas -/

/-- side condition on a handle / parameter layout: the layout itself and its `.encrypted()` variant -/
def Ty.areaOk (t : Ty) (pk : Prim → Bool) (encParam : Ty) : Bool :=
  t.shapeOk pk &&
  (match encVariant encParam t with
   | some (_, fs) => fs.shapeOk pk && decide (fs.names.Nodup)
   | none => true)

theorem decodeArea_gd (hpk : PrimLink abort pk okc) (tb : MsgTables) (enc : Bool) (t : Ty) (ht : t.areaOk pk tb.encParam = true) (σ : Path) (s : St) :
    Tr (GD okc σ) s (decodeArea abort tb enc t σ s) := by
  simp only [Ty.areaOk, Bool.and_eq_true] at ht
  unfold decodeArea
  split
  · split
    · exact decode_gd abort hpk t ht.1 σ none s
    · rename_i name fs hv
      rw [hv] at ht
      simp only [Bool.and_eq_true, decide_eq_true_eq] at ht
      refine Tr.of_emit (P := GN okc σ fs.names) _ ?_
        (fun E hE => GD.of_parent ⟨σ, .named name true, none, "", 0⟩ rfl (fun n => named_ne_list _ _ n) rfl hE)
      exact Tr.bind_gn_gw (decodeFields_gn abort hpk fs ht.2.1 ht.2.2 σ [] _) (fun vals t2 _ => Tr.ok_nil _ _ GW.nil)
  · exact decode_gd abort hpk t ht.1 σ none s

/-! ## the session list -/

theorem sizedLoop_gr (hpk : PrimLink abort pk okc) (t : Ty) (ht : t.shapeOk pk = true) (π : Path) (f : String) (cid : Nat) :
    ∀ (fuel i : Nat) (acc : List Val) (s : St),
      Tr (GR okc π f i) s (sizedLoop abort t (π ++ [⟨f, none⟩]) cid fuel i acc s) := by
  intro fuel
  induction fuel with
  | zero => intro i acc s; exact Tr.crash_nil _ _ _ (GR.of_gw π f i GW.nil)
  | succ n ih =>
    intro i acc s
    unfold sizedLoop
    split
    · exact Tr.crash_nil _ _ _ (GR.of_gw π f i GW.nil)
    · split
      · exact Tr.crash_nil _ _ _ (GR.of_gw π f i GW.nil)
      · split
        · rw [elemPath_snoc']
          refine Tr.ownCatch abort cid (decode_gd abort hpk t ht _ none s) (fun v t2 _ => ih (i + 1) (acc ++ [v]) t2)
            (fun E h => ?_) (fun E w h => ?_) (fun E1 E2 h1 h2 => GR.cons h1 h2)
          · have := GR.cons (E2 := []) h (GR.of_gw π f (i + 1) GW.nil)
            simpa using this
          · exact GR.cons h (GR.of_gw π f (i + 1) (GW.cons_w w GW.nil))
        · refine Tr.of_scs (removeSC cid s.scs) ?_
          exact ((assertDoneSC_gw abort _ _).bind (fun _ t2 _ => Tr.ok_nil _ _ GW.nil) (fun _ h => h)
            (fun _ _ h1 h2 => h1.append h2)).mono (fun _ h => GR.of_gw π f i h)

theorem decodeSized_gn (hpk : PrimLink abort pk okc) (t : Ty) (ht : t.shapeOk pk = true) (hn : t.name ≠ "BYTE") (π : Path) (f : String) (cid : Nat)
    (s : St) : Tr (GN okc π [f]) s (decodeSized abort t (π ++ [⟨f, none⟩]) cid s) := by
  unfold decodeSized
  exact list_gn π f t.name s _ (sizedLoop_gr abort hpk t ht π f cid _ 0 [] _) (fun h => absurd h hn)
end

/-! ## commands and responses -/

/-- the events of a message: under `σ`, and (unless there are none) starting with the message's root event at `σ` -/
def GM (okc : MEvent → Prop) (σ : Path) (E : List Event) : Prop :=
  GD okc σ E ∧ (E = [] ∨ ∃ m0 E', E = .marshal m0 :: E' ∧ m0.path = σ)

/-- a single message: its root event at `σ`, then only events strictly below `σ` -/
def GM1 (okc : MEvent → Prop) (σ : Path) (E : List Event) : Prop :=
  GD okc σ E ∧ ∃ m0 E', E = .marshal m0 :: E' ∧ m0.path = σ ∧ ∀ m, .marshal m ∈ E' → m.path ≠ σ

theorem GM1.toGM {okc : MEvent → Prop} {σ : Path} {E : List Event} (h : GM1 okc σ E) : GM okc σ E := by
  obtain ⟨hgd, m0, E', rfl, hm0, _⟩ := h
  exact ⟨hgd, Or.inr ⟨m0, E', rfl, hm0⟩⟩

theorem gn_not_at {okc : MEvent → Prop} {σ : Path} {N : List String} {E : List Event} (h : GN okc σ N E) :
    ∀ m, .marshal m ∈ E → m.path ≠ σ := by
  intro m hm heq
  obtain ⟨⟨g, i, r, _, hp⟩, _⟩ := h.1 m hm
  rw [hp] at heq
  have := congrArg List.length heq
  simp at this

theorem isChild_false_shorter (p q : Path) (h2 : 2 ≤ p.length) (hq : q.length < p.length) : isChild p q = false := by
  unfold isChild
  have : (p.dropLast == q.dropLast) = false := by
    apply beq_false_of_ne
    intro heq
    have := congrArg List.length heq
    simp only [List.length_dropLast] at this
    omega
  simp [this]

/-- messages one after the other: the next message's root event ends every open run of buffer children -/
theorem GM.append {okc : MEvent → Prop} {σ : Path} (hσ : σ ≠ []) {E1 E2 : List Event} (h1 : GM okc σ E1) (h2 : GM okc σ E2) :
    GM okc σ (E1 ++ E2) := by
  refine ⟨⟨fun m hm => ?_, ?_⟩, ?_⟩
  · rcases List.mem_append.mp hm with hm | hm
    · exact h1.1.1 m hm
    · exact h2.1.1 m hm
  · apply kidsOk_append E1 E2 h1.1.2 h2.1.2
    intro p hp hty
    rcases h2.2 with rfl | ⟨m0, E', rfl, hm0⟩
    · rfl
    · obtain ⟨⟨r, hpp, hl⟩, _⟩ := h1.1.1 p hp
      have hr : r ≠ [] := fun hr => (hl hr "BYTE") hty
      have hlen : 2 ≤ p.path.length ∧ σ.length < p.path.length := by
        rw [hpp, List.length_append]
        have : 0 < r.length := List.length_pos_iff.mpr hr
        have : 0 < σ.length := List.length_pos_iff.mpr hσ
        omega
      simp only [bytesRun, hm0, isChild_false_shorter p.path σ hlen.1 hlen.2]
      rfl
  · rcases h1.2 with rfl | ⟨m0, E', rfl, hm0⟩
    · simpa using h2.2
    · exact Or.inr ⟨m0, E' ++ E2, rfl, hm0⟩

def MsgTables.shapeOk (tb : MsgTables) (pk : Prim → Bool) : Bool :=
  pk tb.tagCmd && pk tb.cmdSize && pk tb.cc && pk tb.authSize &&
  pk tb.tagRsp && pk tb.rspSize && pk tb.rc && pk tb.paramSize &&
  tb.authCmd.shapeOk pk && decide (tb.authCmd.name ≠ "BYTE") && tb.authRsp.shapeOk pk && decide (tb.authRsp.name ≠ "BYTE") &&
  (tb.cmdHandles ++ tb.cmdParams ++ tb.rspHandles ++ tb.rspParams).all fun kt => kt.2.areaOk pk tb.encParam

section
variable {okc : MEvent → Prop} {pk : Prim → Bool} (abort : Bool)

theorem lookupTy_areaOk {tb : MsgTables} (h : tb.shapeOk pk = true) {k : Int} {t : Ty}
    (hl : lookupTy tb.cmdHandles k = some t ∨ lookupTy tb.cmdParams k = some t ∨ lookupTy tb.rspHandles k = some t ∨
      lookupTy tb.rspParams k = some t) : t.areaOk pk tb.encParam = true := by
  unfold MsgTables.shapeOk at h
  simp only [Bool.and_eq_true, List.all_eq_true, List.mem_append] at h
  have hall := h.2
  have mem : ∀ {m : List (Int × Ty)}, lookupTy m k = some t → ∃ k', (k', t) ∈ m := by
    intro m hm
    unfold lookupTy at hm
    simp only [Option.map_eq_some_iff] at hm
    obtain ⟨⟨k', t'⟩, hf, rfl⟩ := hm
    exact ⟨k', List.mem_of_find?_eq_some hf⟩
  rcases hl with hl | hl | hl | hl <;> obtain ⟨k', hm⟩ := mem hl
  · exact hall (k', t) (Or.inl (Or.inl (Or.inl hm)))
  · exact hall (k', t) (Or.inl (Or.inl (Or.inr hm)))
  · exact hall (k', t) (Or.inl (Or.inr hm))
  · exact hall (k', t) (Or.inr hm)

theorem field_prim (hpk : PrimLink abort pk okc) (p : Prim) (hp : pk p = true) (π : Path) (n : String) (s : St) :
    Tr (GN okc π [n]) s (readPrim abort p (π ++ [⟨n, none⟩]) s) :=
  (readPrim_gd abort hpk p hp _ s).mono (fun _ h => GN.of_GD h)

theorem field_area (hpk : PrimLink abort pk okc) (tb : MsgTables) (enc : Bool) (t : Ty) (ht : t.areaOk pk tb.encParam = true) (π : Path) (n : String)
    (s : St) : Tr (GN okc π [n]) s (decodeArea abort tb enc t (π ++ [⟨n, none⟩]) s) :=
  (decodeArea_gd abort hpk tb enc t ht _ s).mono (fun _ h => GN.of_GD h)

theorem decodeCommand_gd (hpk : PrimLink abort pk okc) (tb : MsgTables) (h : tb.shapeOk pk = true) (σ : Path) (s0 : St) :
    Tr (GM1 okc σ) s0 (decodeCommand abort tb σ s0) := by
  have h' := h
  unfold MsgTables.shapeOk at h'
  simp only [Bool.and_eq_true, decide_eq_true_eq] at h'
  obtain ⟨⟨⟨⟨⟨⟨⟨⟨⟨⟨⟨⟨oTag, oCsz⟩, oCc⟩, oAsz⟩, _⟩, _⟩, _⟩, _⟩, sAuth⟩, nAuth⟩, _⟩, _⟩, _⟩ := h'
  unfold decodeCommand
  refine Tr.of_scs [⟨s0.pos, [], 0, none⟩] ?_
  refine Tr.of_emit (P := GN okc σ ["tag", "commandSize", "commandCode", "handles", "authSize", "authorizationArea", "parameters"])
    _ ?_ (fun E hE => ⟨GD.of_parent ⟨σ, .named "Command" false, none, "", 0⟩ rfl (fun n => named_ne_list _ _ n) rfl hE,
      _, _, rfl, rfl, gn_not_at hE⟩)
  refine Tr.msgCatch_gn abort _ _ _ _ (field_prim abort hpk _ oTag σ "tag" _) (fun tag s1 _ => ?_) (by decide)
  refine Tr.msgCatch_gn abort _ _ _ _ (field_prim abort hpk _ oCsz σ "commandSize" _) (fun csz s2 _ => ?_) (by decide)
  split
  · exact Tr.crash_nil _ _ _ (GN.of_gw σ _ GW.nil)
  · split
    · exact Tr.crash_nil _ _ _ (GN.of_gw σ _ GW.nil)
    · refine Tr.bind_gw_gn (setListed_gw abort _ _ _ s2) (fun _ s3 _ => ?_)
      refine Tr.msgCatch_gn abort _ _ _ _ (field_prim abort hpk _ oCc σ "commandCode" _) (fun ccv s4 _ => ?_) (by decide)
      simp only []
      split
      · exact Tr.err_nil _ _ (GN.of_gw σ _ GW.nil)
      · rename_i hty hlh
        refine Tr.msgCatch_gn abort _ _ _ _ (field_area abort hpk tb false hty (lookupTy_areaOk h (Or.inl hlh)) σ "handles" _)
          (fun hv s5 _ => ?_) (by decide)
        -- parameters (last slot), whatever was decided about the sessions
        have params : ∀ (vals : List (String × Val)) (enc : Bool) (s : St),
            Tr (GN okc σ ["parameters"]) s
              (match lookupTy tb.cmdParams ((vInt ccv).getD 0) with
               | none => .error (.value (σ ++ [⟨"commandCode", none⟩]) tb.cc.name ((vInt ccv).getD 0), s)
               | some pty =>
                 msgCatch abort s0.pos (s0.pos + 1) "Command" vals
                   (decodeArea abort tb enc pty (σ ++ [⟨"parameters", none⟩]) s) fun pv s =>
                   (assertDone abort s0.pos s).bind fun _ s => .ok (.obj "Command" false (vals ++ [("parameters", pv)]), s)) := by
          intro vals enc s
          split
          · exact Tr.err_nil _ _ (GN.of_gw σ _ GW.nil)
          · rename_i pty hlp
            refine Tr.msgCatch_gn (N2 := []) abort _ _ _ _
              (field_area abort hpk tb enc pty (lookupTy_areaOk h (Or.inr (Or.inl hlp))) σ "parameters" s)
              (fun pv t _ => ?_) (by simp)
            exact (assertDone_gw abort _ t).bind (fun _ t2 _ => Tr.ok_nil _ _ GW.nil) (fun _ hh => GN.of_gw σ [] hh)
              (fun _ _ h1 h2 => GN.of_gw σ [] (h1.append h2))
        split
        · refine Tr.msgCatch_gn abort _ _ _ _ (field_prim abort hpk _ oAsz σ "authSize" _) (fun asz s6 _ => ?_) (by decide)
          split
          · exact Tr.crash_nil _ _ _ (GN.of_gw σ _ GW.nil)
          · split
            · exact Tr.crash_nil _ _ _ (GN.of_gw σ _ GW.nil)
            · refine Tr.bind_gw_gn (openRegion_gw abort _ _ _ s6) (fun _ s7 _ => ?_)
              refine Tr.msgCatch_gn abort _ _ _ _ (decodeSized_gn abort hpk tb.authCmd sAuth nAuth σ "authorizationArea" _ s7)
                (fun area s8 _ => ?_) (by decide)
              split
              · exact Tr.crash_nil _ _ _ (GN.of_gw σ _ GW.nil)
              · exact params _ _ s8
        · exact (params _ false s5).gn_weaken (fun g hg => by
            simp only [List.mem_singleton] at hg; subst hg; simp)

theorem decodeResponse_gd (hpk : PrimLink abort pk okc) (tb : MsgTables) (h : tb.shapeOk pk = true) (cc : Option Int) (encFlag : Bool) (σ : Path) (s0 : St) :
    Tr (GM1 okc σ) s0 (decodeResponse abort tb cc encFlag σ s0) := by
  have h' := h
  unfold MsgTables.shapeOk at h'
  simp only [Bool.and_eq_true, decide_eq_true_eq] at h'
  obtain ⟨⟨⟨⟨⟨⟨⟨⟨⟨⟨⟨⟨_, _⟩, _⟩, _⟩, oTag⟩, oRsz⟩, oRc⟩, oPsz⟩, _⟩, _⟩, sAuth⟩, nAuth⟩, _⟩ := h'
  -- the end of a response: warnings only
  have fin : ∀ (N : List String) (vals : List (String × Val)) (s : St),
      Tr (GN okc σ N) s ((assertDone abort s0.pos s).bind fun _ s =>
        if s.scs.isEmpty then (.ok (Val.obj "Response" false vals, s) : R Val)
        else crash "AssertionError" "size_constraints.assert_done()" s) := by
    intro N vals s
    refine ((assertDone_gw abort _ s).bind (fun _ t _ => ?_) (fun _ hh => hh) (fun _ _ h1 h2 => h1.append h2)).mono
      (fun _ hh => GN.of_gw σ N hh)
    split
    · exact Tr.ok_nil _ _ GW.nil
    · exact Tr.crash_nil _ _ _ GW.nil
  unfold decodeResponse
  refine Tr.of_scs [⟨s0.pos, [], 0, none⟩] ?_
  refine Tr.of_emit (P := GN okc σ ["tag", "responseSize", "responseCode", "handles", "parameterSize", "parameters", "authorizationArea"])
    _ ?_ (fun E hE => ⟨GD.of_parent ⟨σ, .named "Response" false, none, "", 0⟩ rfl (fun n => named_ne_list _ _ n) rfl hE,
      _, _, rfl, rfl, gn_not_at hE⟩)
  refine Tr.msgCatch_gn abort _ _ _ _ (field_prim abort hpk _ oTag σ "tag" _) (fun tag s1 _ => ?_) (by decide)
  refine Tr.msgCatch_gn abort _ _ _ _ (field_prim abort hpk _ oRsz σ "responseSize" _) (fun rsz s2 _ => ?_) (by decide)
  split
  · exact Tr.crash_nil _ _ _ (GN.of_gw σ _ GW.nil)
  · split
    · exact Tr.crash_nil _ _ _ (GN.of_gw σ _ GW.nil)
    · refine Tr.bind_gw_gn (setListed_gw abort _ _ _ s2) (fun _ s3 _ => ?_)
      refine Tr.msgCatch_gn abort _ _ _ _ (field_prim abort hpk _ oRc σ "responseCode" _) (fun rcv s4 _ => ?_) (by decide)
      simp only []
      split
      · exact fin _ _ _
      · split
        · exact Tr.err_nil _ _ (GN.of_gw σ _ GW.nil)
        · rename_i hty hlh
          have hhty : hty.areaOk pk tb.encParam = true := by
            cases cc with
            | none => simp at hlh
            | some c => exact lookupTy_areaOk h (Or.inr (Or.inr (Or.inl (by simpa using hlh))))
          refine Tr.msgCatch_gn abort _ _ _ _ (field_area abort hpk tb encFlag hty hhty σ "handles" _) (fun hv s5 _ => ?_) (by decide)
          split
          · refine Tr.msgCatch_gn abort _ _ _ _ (field_prim abort hpk _ oPsz σ "parameterSize" _) (fun psz s6 _ => ?_) (by decide)
            split
            · exact Tr.crash_nil _ _ _ (GN.of_gw σ _ GW.nil)
            · split
              · exact Tr.crash_nil _ _ _ (GN.of_gw σ _ GW.nil)
              · refine Tr.bind_gw_gn (openRegion_gw abort _ _ _ s6) (fun _ s7 _ => ?_)
                split
                · exact Tr.err_nil _ _ (GN.of_gw σ _ GW.nil)
                · rename_i pty hlp
                  have hpty : pty.areaOk pk tb.encParam = true := by
                    cases cc with
                    | none => simp at hlp
                    | some c => exact lookupTy_areaOk h (Or.inr (Or.inr (Or.inr (by simpa using hlp))))
                  refine Tr.msgCatch_gn abort _ _ _ _ ?_ (fun pv t _ => ?_) (by decide)
                  · refine Tr.bind_gn_gw (field_area abort hpk tb encFlag pty hpty σ "parameters" _) (fun pv t _ => ?_)
                    first
                    | exact (assertDone_gw abort _ t).bind (fun _ t2 _ => Tr.ok_nil _ _ GW.nil) (fun _ hh => hh)
                        (fun _ _ h1 h2 => h1.append h2)
                    | exact Tr.ok_nil _ _ GW.nil
                  · split
                    · exact fin _ _ _
                    · refine Tr.msgCatch_gn (N2 := []) abort _ _ _ _
                        (decodeSized_gn abort hpk tb.authRsp sAuth nAuth σ "authorizationArea" _ t) (fun area t2 _ => ?_) (by simp)
                      split
                      · exact Tr.crash_nil _ _ _ (GN.of_gw σ _ GW.nil)
                      · split
                        · exact Tr.crash_nil _ _ _ (GN.of_gw σ _ GW.nil)
                        · split
                          · exact Tr.ok_nil _ _ (GN.of_gw σ _ GW.nil)
                          · exact Tr.crash_nil _ _ _ (GN.of_gw σ _ GW.nil)
          · refine Tr.gn_weaken (N := ["parameters", "authorizationArea"]) ?_ (fun g hg => by
              simp only [List.mem_cons, List.not_mem_nil, or_false] at hg
              rcases hg with rfl | rfl <;> simp)
            split
            · exact Tr.err_nil _ _ (GN.of_gw σ _ GW.nil)
            · rename_i pty hlp
              have hpty : pty.areaOk pk tb.encParam = true := by
                cases cc with
                | none => simp at hlp
                | some c => exact lookupTy_areaOk h (Or.inr (Or.inr (Or.inr (by simpa using hlp))))
              refine Tr.msgCatch_gn abort _ _ _ _ ?_ (fun pv t _ => ?_) (by decide)
              · refine Tr.bind_gn_gw (field_area abort hpk tb encFlag pty hpty σ "parameters" _) (fun pv t _ => ?_)
                first
                | exact (assertDone_gw abort _ t).bind (fun _ t2 _ => Tr.ok_nil _ _ GW.nil) (fun _ hh => hh)
                    (fun _ _ h1 h2 => h1.append h2)
                | exact Tr.ok_nil _ _ GW.nil
              · split
                · exact fin _ _ _
                · refine Tr.msgCatch_gn (N2 := []) abort _ _ _ _
                    (decodeSized_gn abort hpk tb.authRsp sAuth nAuth σ "authorizationArea" _ t) (fun area t2 _ => ?_) (by simp)
                  split
                  · exact Tr.crash_nil _ _ _ (GN.of_gw σ _ GW.nil)
                  · split
                    · exact Tr.crash_nil _ _ _ (GN.of_gw σ _ GW.nil)
                    · split
                      · exact Tr.ok_nil _ _ (GN.of_gw σ _ GW.nil)
                      · exact Tr.crash_nil _ _ _ (GN.of_gw σ _ GW.nil)

/-! ## the stream loop and the top level -/

theorem decodeStream_gm (hpk : PrimLink abort pk okc) (tb : MsgTables) (h : tb.shapeOk pk = true) (σ : Path) (hσ : σ ≠ []) :
    ∀ (fuel : Nat) (s : St), Tr (GM okc σ) s (decodeStream abort tb σ fuel s) := by
  have hnil : GM okc σ [] := ⟨GD.of_gw σ GW.nil, Or.inl rfl⟩
  have hroot : ∀ (name : String), GM okc σ [.marshal ⟨σ, .named name false, none, "", 0⟩] := fun name =>
    ⟨GD.single _ rfl (fun n => named_ne_list _ _ n) (fun hs => by cases hs), Or.inr ⟨_, _, rfl, rfl⟩⟩
  intro fuel
  induction fuel with
  | zero => intro s; exact Tr.crash_nil _ _ _ hnil
  | succ n ih =>
    intro s
    unfold decodeStream
    split
    · exact Tr.ok_emit1 _ _ _ (hroot _)
    · refine ((decodeCommand_gd abort hpk tb h σ s).mono (fun _ hh => hh.toGM)).bind (fun cmd t _ => ?_) (fun _ hh => hh)
        (fun _ _ h1 h2 => h1.append hσ h2)
      split
      · exact Tr.crash_nil _ _ _ hnil
      · split
        · exact Tr.ok_emit1 _ _ _ (hroot _)
        · exact ((decodeResponse_gd abort hpk tb h _ _ σ t).mono (fun _ hh => hh.toGM)).bind (fun _ t2 _ => ih t2) (fun _ hh => hh)
            (fun _ _ h1 h2 => h1.append hσ h2)

/-- **every run of every top-level decode, in either mode, on every input** -/
theorem runWalker_gd (hpk : PrimLink abort pk okc) (tb : MsgTables) (h : tb.shapeOk pk = true) (top : Top)
    (htop : ∀ t, top = .ty t → t.shapeOk pk = true) (x : List Byte) :
    Tr (GD okc rootPath) (initSt x) (runWalker abort tb top x) := by
  unfold runWalker
  cases top with
  | ty t => exact decode_gd abort hpk t (htop t rfl) rootPath none _
  | command => exact (decodeCommand_gd abort hpk tb h rootPath _).mono (fun _ hh => hh.1)
  | response cc enc => exact (decodeResponse_gd abort hpk tb h cc enc rootPath _).mono (fun _ hh => hh.1)
  | stream => exact (decodeStream_gm abort hpk tb h rootPath (by simp [rootPath]) _ _).mono (fun _ hh => hh.1)
end
