import TpmModel.Basic
/-! Big-endian two's-complement codec: length and round trip, for every width and both signednesses. -/

theorem toBE_length (k n : Nat) : (toBE k n).length = k := by
  induction k generalizing n with
  | zero => simp [toBE]
  | succ k ih => simp [toBE, ih]

theorem fromBE_append (as bs : List Byte) : fromBE (as ++ bs) = fromBE as * 256 ^ bs.length + fromBE bs := by
  induction bs generalizing as with
  | nil => simp [fromBE]
  | cons b bs ih =>
    have : as ++ b :: bs = (as ++ [b]) ++ bs := by simp
    rw [this, ih (as ++ [b])]
    have h1 : fromBE (as ++ [b]) = fromBE as * 256 + b.toNat := by simp [fromBE, List.foldl_append]
    have h2 : fromBE (b :: bs) = b.toNat * 256 ^ bs.length + fromBE bs := by
      have := ih [b]; simpa [fromBE] using this
    rw [h1, h2, List.length_cons, Nat.pow_succ]
    simp only [Nat.add_mul, Nat.mul_assoc, Nat.add_assoc, Nat.mul_comm 256]

theorem fromBE_toBE (k n : Nat) : fromBE (toBE k n) = n % 256 ^ k := by
  induction k generalizing n with
  | zero => simp [toBE, fromBE, Nat.mod_one]
  | succ k ih =>
    simp only [toBE]
    rw [fromBE_append, ih]
    have hb : (UInt8.ofNat (n % 256)).toNat = n % 256 := by simp
    simp only [List.length_singleton, Nat.pow_one, fromBE, List.foldl_cons, List.foldl_nil, Nat.zero_mul, Nat.zero_add, hb]
    rw [Nat.pow_succ]
    have hm : n % (256 ^ k * 256) % 256 = n % 256 := Nat.mod_mul_left_mod n (256 ^ k) 256
    have hd : n % (256 ^ k * 256) / 256 = n / 256 % 256 ^ k := by
      rw [Nat.mul_comm]; exact Nat.mod_mul_right_div_self n 256 (256 ^ k)
    have h := Nat.div_add_mod (n % (256 ^ k * 256)) 256
    omega

theorem snoc_induction {P : List Byte → Prop} (h0 : P []) (h1 : ∀ bs b, P bs → P (bs ++ [b])) :
    ∀ bs, P bs := by
  have : ∀ l : List Byte, P l.reverse := by
    intro l
    induction l with
    | nil => simpa using h0
    | cons b l ih => simpa using h1 _ b ih
  intro bs
  simpa using this bs.reverse

theorem fromBE_lt (bs : List Byte) : fromBE bs < 256 ^ bs.length := by
  induction bs using snoc_induction with
  | h0 => simp [fromBE]
  | h1 bs b ih =>
    rw [fromBE_append]
    simp only [List.length_singleton, Nat.pow_one, List.length_append, Nat.pow_succ]
    have hb : fromBE [b] < 256 := by simp [fromBE]; exact b.toNat_lt
    have : (fromBE bs + 1) * 256 ≤ 256 ^ bs.length * 256 := Nat.mul_le_mul_right 256 ih
    omega

theorem toBE_fromBE (bs : List Byte) : toBE bs.length (fromBE bs) = bs := by
  induction bs using snoc_induction with
  | h0 => simp [toBE]
  | h1 bs b ih =>
    rw [fromBE_append]
    simp only [List.length_append, List.length_singleton, Nat.pow_one, toBE]
    have hb : fromBE [b] = b.toNat := by simp [fromBE]
    have hlt := b.toNat_lt
    have h1 : (fromBE bs * 256 + fromBE [b]) / 256 = fromBE bs := by rw [hb]; omega
    have h2 : (fromBE bs * 256 + fromBE [b]) % 256 = b.toNat := by rw [hb]; omega
    rw [h1, h2, ih]
    simp

theorem pow256 (k : Nat) : 256 ^ k = 2 ^ (8 * k) := by
  rw [Nat.pow_mul]

theorem intToBytes_length (size : Nat) (x : Int) : (intToBytes size x).length = size := by
  simp [intToBytes, toBE_length]

theorem two_pow_split (size : Nat) (h : 0 < size) : 2 ^ (8 * size) = 2 * 2 ^ (8 * size - 1) := by
  have : 8 * size = (8 * size - 1) + 1 := by omega
  conv => lhs; rw [this, Nat.pow_succ]
  omega

theorem intOfBytes_intToBytes (size : Nat) (signed : Bool) (x : Int) (h : inRange size signed x = true) :
    intOfBytes size signed (intToBytes size x) = x := by
  unfold intOfBytes intToBytes
  rw [fromBE_toBE, pow256]
  generalize hM : (2 ^ (8 * size) : Nat) = M
  have hMpos : 0 < M := by rw [← hM]; exact Nat.pow_pos (by decide)
  cases signed with
  | false =>
    simp only [inRange, Bool.false_eq_true, if_false, Bool.and_eq_true, decide_eq_true_eq, hM] at h
    have h1 : x % (M : Int) = x := Int.emod_eq_of_lt h.1 h.2
    simp only [h1, Bool.false_and, Bool.false_eq_true, if_false]
    have : x.toNat % M = x.toNat := Nat.mod_eq_of_lt (by omega)
    rw [this]; omega
  | true =>
    simp only [inRange, if_true, Bool.and_eq_true, decide_eq_true_eq] at h
    obtain ⟨⟨hs, hlo⟩, hhi⟩ := h
    have hsplit := two_pow_split size hs
    rw [hM] at hsplit
    generalize hH : (2 ^ (8 * size - 1) : Nat) = H at *
    by_cases hx : 0 ≤ x
    · have h1 : x % (M : Int) = x := Int.emod_eq_of_lt hx (by omega)
      have h2 : x.toNat % M = x.toNat := Nat.mod_eq_of_lt (by omega)
      simp only [h1, h2, Bool.true_and, decide_eq_true_eq]
      rw [if_neg (by omega)]; omega
    · have h1 : x % (M : Int) = x + M := by
        have : (x + M) % (M : Int) = x % M := Int.add_emod_right _ _
        rw [← this]; exact Int.emod_eq_of_lt (by omega) (by omega)
      have h2 : (x + (M : Int)).toNat % M = (x + (M : Int)).toNat := Nat.mod_eq_of_lt (by omega)
      simp only [h1, h2, Bool.true_and, decide_eq_true_eq]
      rw [if_pos (by omega)]; omega

/-- every byte string of the declared width is the encoding of the integer it decodes to -/
theorem intToBytes_intOfBytes (size : Nat) (signed : Bool) (bs : List Byte) (h : bs.length = size) :
    intToBytes size (intOfBytes size signed bs) = bs := by
  unfold intOfBytes intToBytes
  have hlt := fromBE_lt bs
  rw [h, pow256] at hlt
  generalize hM : (2 ^ (8 * size) : Nat) = M at *
  have key : ∀ y : Int, y % (M : Int) = (fromBE bs : Int) → toBE size (y % (M : Int)).toNat = bs := by
    intro y hy
    rw [hy, Int.toNat_natCast, ← h, toBE_fromBE]
  simp only []
  split
  · apply key
    have : ((fromBE bs : Int) - (M : Int)) % (M : Int) = (fromBE bs : Int) % M := Int.sub_emod_right _ _
    rw [this]; exact Int.emod_eq_of_lt (by omega) (by omega)
  · apply key
    exact Int.emod_eq_of_lt (by omega) (by omega)
