import TpmProofs.DecodeSound
import TpmProofs.Modes
import TpmProofs.MsgOk
import TpmProofs.MsgSound
/-!
# Warn mode keeps decoding: no size error ever escapes its region's owner (C08)

`WI s r`: `r` is the result of a warn-mode step from state `s`.
* the position never moves backwards;
* if the step succeeds, the open regions afterwards are the same regions (same ids, same limits, same order) —
  whatever was opened inside has been closed or has ended with an overrun of its own;
* if it stops, then with `depleted`, with a value error (the two sites after which the layout is unknowable), with an
  internal error, or with `exceeded` for a region `c` that was open when the step began — and then the regions left are
  exactly the ones outside `c`.  Never with `subceeded` or `anticipated` (those are warnings in this mode).
Each owner catches the `exceeded` of its own region, so at top level nothing of the kind is left.
-/

def sig (scs : List SC) : List (Nat × Option Nat) := scs.map fun c => (c.id, c.max)

theorem sig_bump (scs : List SC) (n : Nat) : sig (bump scs n) = sig scs := by
  simp [sig, bump, SC.bump, List.map_map, Function.comp_def]

theorem sig_append (a b : List SC) : sig (a ++ b) = sig a ++ sig b := by simp [sig]

/-- `e` is an overrun of region `cid`, one of the regions `scs` open at the start; `left` are the regions left over -/
def ExcOf (scs : List SC) (left : List SC) (cid : Nat) : Prop :=
  ∃ pre c post, scs = pre ++ c :: post ∧ c.id = cid ∧ sig left = sig pre

def Err.isValueErr : Err → Bool
  | .value _ _ _ => true
  | .valueNone _ _ => true
  | _ => false

def WErr (scs : List SC) (e : Err) (t : St) : Prop :=
  e = .depleted ∨ e.isValueErr = true ∨ (∃ c m, e = .crash c m) ∨
  (∃ cid cp m a v b, e = .exceeded cid cp m a v b ∧ ExcOf scs t.scs cid)

def WI {α : Type} (s : St) (r : R α) : Prop :=
  s.pos ≤ (stOf r).pos ∧
  match r with
  | .ok (_, t) => sig t.scs = sig s.scs
  | .error (e, t) => WErr s.scs e t

theorem sig_split {l1 l2 : List SC} (h : sig l1 = sig l2) {pre : List SC} {c : SC} {post : List SC}
    (h1 : l1 = pre ++ c :: post) :
    ∃ pre' c' post', l2 = pre' ++ c' :: post' ∧ sig pre' = sig pre ∧ c'.id = c.id ∧ c'.max = c.max ∧ sig post' = sig post := by
  subst h1
  induction pre generalizing l2 with
  | nil =>
    cases l2 with
    | nil => simp [sig] at h
    | cons c' post' =>
      simp only [sig, List.nil_append, List.map_cons, List.cons.injEq, Prod.mk.injEq] at h
      exact ⟨[], c', post', rfl, rfl, h.1.1.symm, h.1.2.symm, h.2.symm⟩
  | cons p pre ih =>
    cases l2 with
    | nil => simp [sig] at h
    | cons p' rest' =>
      simp only [sig, List.cons_append, List.map_cons, List.cons.injEq] at h
      obtain ⟨pre', c', post', hl, h1, h2, h3, h4⟩ := ih (l2 := rest') (by simpa [sig] using h.2)
      refine ⟨p' :: pre', c', post', by rw [hl]; rfl, ?_, h2, h3, h4⟩
      simp only [sig, List.map_cons, List.cons.injEq]
      exact ⟨h.1.symm, by simpa [sig] using h1⟩

theorem sig_ids {l1 l2 : List SC} (h : sig l1 = sig l2) : l1.map (·.id) = l2.map (·.id) := by
  have := congrArg (List.map Prod.fst) h
  simpa [sig, List.map_map, Function.comp_def] using this

theorem ExcOf.transfer {l1 l2 left : List SC} {cid : Nat} (h : sig l1 = sig l2) (he : ExcOf l1 left cid) : ExcOf l2 left cid := by
  obtain ⟨pre, c, post, h1, hc, hl⟩ := he
  obtain ⟨pre', c', post', h2, s1, s2, s3, s4⟩ := sig_split h h1
  exact ⟨pre', c', post', h2, by rw [s2, hc], by rw [hl, s1]⟩

theorem WErr.transfer {l1 l2 : List SC} {e : Err} {t : St} (h : sig l1 = sig l2) (he : WErr l1 e t) : WErr l2 e t := by
  rcases he with h1 | h1 | h1 | ⟨cid, cp, m, a, v, b, rfl, hx⟩
  · exact Or.inl h1
  · exact Or.inr (Or.inl h1)
  · exact Or.inr (Or.inr (Or.inl h1))
  · exact Or.inr (Or.inr (Or.inr ⟨cid, cp, m, a, v, b, rfl, hx.transfer h⟩))

theorem WI.ok {α : Type} (s : St) (a : α) : WI s (.ok (a, s) : R α) := ⟨Nat.le_refl _, rfl⟩

theorem WI.bind {α β : Type} {s : St} {r : R α} {f : α → St → R β} (h : WI s r)
    (hf : ∀ a t, r = .ok (a, t) → WI t (f a t)) : WI s (r.bind f) := by
  cases r with
  | error e => obtain ⟨e, t⟩ := e; exact h
  | ok at' =>
    obtain ⟨a, t⟩ := at'
    obtain ⟨hp, hs⟩ := h
    simp only [stOf] at hp hs
    obtain ⟨gp, gs⟩ := hf a t rfl
    refine ⟨by simp only [R.bind_ok]; omega, ?_⟩
    simp only [R.bind_ok]
    cases hr : f a t with
    | ok bt => obtain ⟨b, t2⟩ := bt; rw [hr] at gs; simp only [] at gs ⊢; rw [gs, hs]
    | error et => obtain ⟨e, t2⟩ := et; rw [hr] at gs; simp only [] at gs ⊢; exact gs.transfer hs

theorem WI.crash {α : Type} (s : St) (c m : String) : WI s (crash c m s : R α) :=
  ⟨Nat.le_refl _, Or.inr (Or.inr (Or.inl ⟨c, m, rfl⟩))⟩

theorem WI.of_emit {α : Type} {s : St} (e : Event) {r : R α} (h : WI (emit e s) r) : WI s r := h


/-! ## leaves -/

theorem take_wi (n : Nat) (s : St) : WI s (take n s) := by
  unfold take
  split
  · exact ⟨by simp [stOf], Or.inl rfl⟩
  · exact ⟨by simp [stOf], rfl⟩

theorem consume_wi (n : Nat) (s : St) : WI s (consume n s) := by
  unfold consume; exact (take_wi n s).bind fun _ t _ => WI.ok t _

theorem consume_err {n : Nat} {s : St} {e : Err} {t : St} (h : consume n s = .error (e, t)) : e = .depleted ∧ s.pos ≤ t.pos := by
  unfold consume take at h
  split at h
  · simp only [R.bind_error, Except.error.injEq, Prod.mk.injEq] at h
    obtain ⟨rfl, rfl⟩ := h
    exact ⟨rfl, by simp⟩
  · simp [R.bind] at h

theorem consume_ok {n : Nat} {s t : St} (h : consume n s = .ok ((), t)) : t.scs = s.scs ∧ s.pos ≤ t.pos := by
  unfold consume take at h
  split at h
  · simp [R.bind] at h
  · simp only [R.bind_ok, Except.ok.injEq, Prod.mk.injEq, true_and] at h
    subst h; exact ⟨rfl, by simp⟩

/-- `bytes_parsed`: charges every open region, or ends the first region the field would cross -/
theorem bpGo_wi (path : Path) (size : Nat) : ∀ (todo done : List SC) (s : St),
    s.pos ≤ (stOf (bpGo path size done todo s)).pos ∧
    match bpGo path size done todo s with
    | .ok (_, t) => t.scs = done ++ bump todo size
    | .error (e, t) => e = .depleted ∨ ∃ cid cp m a v b pre c post, e = .exceeded cid cp m a v b ∧
        todo = pre ++ c :: post ∧ c.id = cid ∧ sig t.scs = sig (done ++ pre) := by
  intro todo
  induction todo with
  | nil => intro done s; simp [bpGo, stOf, bump]
  | cons c rest ih =>
    intro done s
    unfold bpGo
    by_cases hov : c.over size = true
    · simp only [hov, if_true]
      cases hc : consume (c.max.getD 0 - c.already) { s with scs := done.map fun d => { d with already := d.already - (size - (c.max.getD 0 - c.already)) } } with
      | error et =>
        obtain ⟨e, t⟩ := et
        obtain ⟨rfl, hp⟩ := consume_err hc
        exact ⟨by simpa [R.bind, stOf] using hp, Or.inl rfl⟩
      | ok ut =>
        obtain ⟨_, t⟩ := ut
        obtain ⟨hs, hp⟩ := consume_ok hc
        refine ⟨by simpa [R.bind, stOf] using hp, Or.inr ⟨_, _, _, _, _, _, [], c, rest, rfl, rfl, rfl, ?_⟩⟩
        rw [hs]; simp [sig, List.map_map, Function.comp_def]
    · simp only [hov, Bool.false_eq_true, if_false]
      obtain ⟨hp, hr⟩ := ih (done ++ [c.bump size]) s
      refine ⟨hp, ?_⟩
      cases hb : bpGo path size (done ++ [c.bump size]) rest s with
      | ok ut =>
        obtain ⟨_, t⟩ := ut
        rw [hb] at hr
        simp only [] at hr ⊢
        rw [hr]; simp [bump, List.append_assoc]
      | error et =>
        obtain ⟨e, t⟩ := et
        rw [hb] at hr
        simp only [] at hr ⊢
        rcases hr with hr | ⟨cid, cp, m, a, v, b, pre, c', post, he, htodo, hcid, hsig⟩
        · exact Or.inl hr
        · refine Or.inr ⟨cid, cp, m, a, v, b, c :: pre, c', post, he, by rw [htodo]; rfl, hcid, ?_⟩
          rw [hsig]; simp [sig, SC.bump, List.append_assoc]

theorem bytesParsed_wi (path : Path) (size : Nat) (s : St) : WI s (bytesParsed path size s) := by
  obtain ⟨hp, hr⟩ := bpGo_wi path size s.scs [] s
  refine ⟨hp, ?_⟩
  unfold bytesParsed
  cases hb : bpGo path size [] s.scs s with
  | ok ut =>
    obtain ⟨_, t⟩ := ut
    rw [hb] at hr
    simp only [] at hr ⊢
    rw [hr]; simp [sig_bump]
  | error et =>
    obtain ⟨e, t⟩ := et
    rw [hb] at hr
    simp only [] at hr ⊢
    rcases hr with hr | ⟨cid, cp, m, a, v, b, pre, c', post, he, htodo, hcid, hsig⟩
    · exact Or.inl hr
    · exact Or.inr (Or.inr (Or.inr ⟨cid, cp, m, a, v, b, he, pre, c', post, htodo, hcid, by simpa using hsig⟩))

theorem readPrim_wi (p : Prim) (path : Path) (s : St) : WI s (readPrim false p path s) := by
  unfold readPrim
  refine (bytesParsed_wi path p.size s).bind fun _ t _ => (take_wi p.size t).bind fun bs t2 _ => ?_
  simp only [Bool.false_eq_true, if_false]
  split <;> exact ⟨Nat.le_refl _, rfl⟩

theorem anticipateM_wi (vpath : Path) (v id : Nat) (s : St) : WI s (anticipateM false vpath v id s) := by
  unfold anticipateM
  split
  · exact WI.ok _ _
  · simp only [Bool.false_eq_true, if_false]; exact ⟨Nat.le_refl _, rfl⟩

/-! ## regions and their owners -/

theorem openRegion_warn (id : Nat) (cpath : Path) (n : Nat) (s : St) :
    ∃ t, openRegion false id cpath n s = .ok ((), t) ∧ t.scs = s.scs ++ [⟨id, cpath, 0, some n⟩] ∧ t.pos = s.pos := by
  unfold openRegion anticipateM
  split
  · exact ⟨_, rfl, rfl, rfl⟩
  · simp only [Bool.false_eq_true, if_false, R.bind_ok]
    exact ⟨_, rfl, rfl, rfl⟩

theorem snoc_split {α : Type} {l pre post : List α} {x c : α} (h : l ++ [x] = pre ++ c :: post) :
    (post = [] ∧ pre = l ∧ c = x) ∨ (∃ post', post = post' ++ [x] ∧ l = pre ++ c :: post') := by
  induction pre generalizing l with
  | nil =>
    cases l with
    | nil =>
      simp only [List.nil_append, List.cons.injEq] at h
      exact Or.inl ⟨h.2.symm, rfl, h.1.symm⟩
    | cons a l' =>
      simp only [List.cons_append, List.nil_append, List.cons.injEq] at h
      exact Or.inr ⟨l', h.2.symm, by rw [h.1]; rfl⟩
  | cons p pre ih =>
    cases l with
    | nil =>
      simp only [List.nil_append, List.cons_append, List.cons.injEq] at h
      have := h.2
      cases pre <;> simp at this
    | cons a l' =>
      simp only [List.cons_append, List.cons.injEq] at h
      rcases ih h.2 with ⟨h1, h2, h3⟩ | ⟨post', h1, h2⟩
      · exact Or.inl ⟨h1, by rw [h.1, h2], h3⟩
      · exact Or.inr ⟨post', h1, by rw [h.1, h2]; rfl⟩

theorem sig_snoc_split {l pre : List SC} {idn : Nat × Option Nat} (h : sig l = sig pre ++ [idn]) :
    ∃ pre' c', l = pre' ++ [c'] ∧ sig pre' = sig pre ∧ (c'.id, c'.max) = idn := by
  induction pre generalizing l with
  | nil =>
    cases l with
    | nil => simp [sig] at h
    | cons c rest =>
      simp only [sig, List.map_cons, List.map_nil, List.nil_append, List.cons.injEq, List.map_eq_nil_iff] at h
      obtain ⟨h1, rfl⟩ := h
      exact ⟨[], c, rfl, rfl, h1⟩
  | cons p pre ih =>
    cases l with
    | nil => simp [sig] at h
    | cons c rest =>
      simp only [sig, List.map_cons, List.cons_append, List.cons.injEq] at h
      obtain ⟨pre', c', hl, hs, hc⟩ := ih (l := rest) (by simpa [sig] using h.2)
      refine ⟨c :: pre', c', by rw [hl]; rfl, ?_, hc⟩
      simp only [sig, List.map_cons, List.cons.injEq]
      exact ⟨h.1, by simpa [sig] using hs⟩

theorem assertDoneSC_wi (c : SC) (s : St) : WI s (assertDoneSC false c s) := by
  unfold assertDoneSC
  split
  · exact WI.crash _ _ _
  · split
    · exact WI.ok _ _
    · simp only [Bool.false_eq_true, if_false]
      apply WI.of_emit
      split
      · exact (bytesParsed_wi _ _ _).bind fun _ t _ => consume_wi _ t
      · exact WI.ok _ _

/-- ids of the regions are not ahead of the position, and none equals `id` -/
theorem ids_ne_of_sig {l1 l2 : List SC} (h : sig l1 = sig l2) {id : Nat} (h2 : ∀ d ∈ l2, d.id ≠ id) : ∀ d ∈ l1, d.id ≠ id := by
  intro d hd
  have hids := sig_ids h
  have : d.id ∈ l1.map (·.id) := List.mem_map.mpr ⟨d, hd, rfl⟩
  rw [hids] at this
  obtain ⟨d0, hd0, he0⟩ := List.mem_map.mp this
  rw [← he0]; exact h2 d0 hd0

/-- the owner of region `id`: body inside the region, then `assert_done`, with the owner's `except` around the body -/
theorem owner_wi {s1 s2 : St} {id : Nat} {cpath : Path} {n : Nat} (hs2 : s2.scs = s1.scs ++ [⟨id, cpath, 0, some n⟩])
    (hpos : s2.pos = s1.pos) (hfresh : ∀ d ∈ s1.scs, d.id ≠ id) {r : R Val} (hr : WI s2 r) (g : Val → Val) :
    WI s1 (ownCatch false id r fun bv s => (assertDone false id s).bind fun _ s => .ok (g bv, s)) := by
  obtain ⟨hp, hm⟩ := hr
  cases r with
  | ok vs =>
    obtain ⟨bv, s3⟩ := vs
    simp only [stOf] at hp hm
    simp only [ownCatch]
    rw [hs2, sig_append] at hm
    obtain ⟨pre', c', hl, hsp, hc⟩ := sig_snoc_split (l := s3.scs) (pre := s1.scs) (idn := (id, some n)) (by simpa [sig] using hm)
    simp only [Prod.mk.injEq] at hc
    have hne : ∀ d ∈ pre', d.id ≠ id := ids_ne_of_sig hsp hfresh
    have hwi : WI { s3 with scs := pre' } (assertDoneSC false c' { s3 with scs := pre' }) := assertDoneSC_wi c' _
    have hfind : assertDone false id s3 = assertDoneSC false c' { s3 with scs := pre' } := by
      unfold assertDone
      rw [hl, findSC_append_new id c' pre' hc.1 hne, removeSC_append_new id c' pre' hc.1 hne]
    rw [hfind]
    obtain ⟨wp, wm⟩ := hwi
    refine ⟨?_, ?_⟩
    · cases hx : assertDoneSC false c' { s3 with scs := pre' } with
      | ok ut => obtain ⟨_, t⟩ := ut; rw [hx] at wp; simp only [R.bind_ok, stOf] at wp ⊢; omega
      | error et => obtain ⟨e, t⟩ := et; rw [hx] at wp; simp only [R.bind_error, stOf] at wp ⊢; omega
    · cases hx : assertDoneSC false c' { s3 with scs := pre' } with
      | ok ut =>
        obtain ⟨_, t⟩ := ut
        rw [hx] at wm
        simp only [R.bind_ok] at wm ⊢
        rw [wm]; exact hsp
      | error et =>
        obtain ⟨e, t⟩ := et
        rw [hx] at wm
        simp only [R.bind_error] at wm ⊢
        exact wm.transfer hsp
  | error es =>
    obtain ⟨e, t⟩ := es
    simp only [stOf] at hp hm
    rcases hm with rfl | hv | ⟨c, m, rfl⟩ | ⟨cid, cp, m, a, v, b, rfl, pre, c, post, hdec, hcid, hsig⟩
    · exact ⟨by simp only [ownCatch, stOf]; omega, Or.inl rfl⟩
    · cases e <;> simp only [Err.isValueErr, Bool.false_eq_true] at hv <;> exact ⟨by simp only [ownCatch, stOf]; omega, Or.inr (Or.inl rfl)⟩
    · exact ⟨by simp only [ownCatch, stOf]; omega, Or.inr (Or.inr (Or.inl ⟨c, m, rfl⟩))⟩
    · rw [hs2] at hdec
      rcases snoc_split hdec with ⟨hpost, hpre, hc⟩ | ⟨post', hpost, hl⟩
      · -- our own region: caught, reported, decoding goes on behind it
        subst hc
        simp only [] at hcid
        subst hcid
        simp only [ownCatch, Bool.false_or, bne_self_eq_false, Bool.false_eq_true, if_false]
        refine ⟨by simp only [stOf, emitW, emit]; omega, ?_⟩
        simp only [emitW, emit]
        rw [hsig, hpre]
      · -- an enclosing region: not ours
        have hne : cid ≠ id := by
          rw [← hcid]
          exact hfresh c (by rw [hl]; simp)
        have hb : (cid != id) = true := by simpa using hne
        simp only [ownCatch, Bool.false_or, hb, if_true]
        exact ⟨by simp only [stOf]; omega, Or.inr (Or.inr (Or.inr ⟨cid, cp, m, a, v, b, rfl, pre, c, post', hl, hcid, hsig⟩))⟩

/-! ## the walkers -/

theorem fresh_of_sig {l1 l2 : List SC} (h : sig l1 = sig l2) {p q : Nat} (hf : Fresh l2 p) (hpq : p ≤ q) : Fresh l1 q := by
  intro d hd
  have hids := sig_ids h
  have : d.id ∈ l1.map (·.id) := List.mem_map.mpr ⟨d, hd, rfl⟩
  rw [hids] at this
  obtain ⟨d0, hd0, he0⟩ := List.mem_map.mp this
  have := hf d0 hd0
  omega

theorem WI.fresh {α : Type} {s t : St} {a : α} (h : WI s (.ok (a, t) : R α)) (hf : Fresh s.scs s.pos) : Fresh t.scs t.pos :=
  fresh_of_sig h.2 hf h.1

theorem repeatDec_wi (f : Path → St → R Val) (hf : ∀ p s, Fresh s.scs s.pos → WI s (f p s)) (path : Path) :
    ∀ (n i : Nat) (s : St), Fresh s.scs s.pos → WI s (repeatDec f path n i s) := by
  intro n
  induction n with
  | zero => intro i s _; exact WI.ok _ _
  | succ m ih =>
    intro i s hfr
    unfold repeatDec
    refine (hf _ s hfr).bind fun v t ht => ?_
    have hfr1 : Fresh t.scs t.pos := WI.fresh (by rw [← ht]; exact hf _ s hfr) hfr
    exact (ih (i+1) t hfr1).bind fun vs t2 _ => WI.ok _ _

theorem readPrimList_wi (p : Prim) (path : Path) (n : Nat) (s : St) (hfr : Fresh s.scs s.pos) :
    WI s (readPrimList false p path n s) := by
  unfold readPrimList
  apply WI.of_emit
  exact (repeatDec_wi _ (fun q s _ => readPrim_wi p q s) path n 0 _ (by simpa [emitM, emit] using hfr)).bind fun vs t _ => WI.ok _ _

theorem readListArm_wi (elem : Prim) (n : Option Nat) (path : Path) (s : St) (hfr : Fresh s.scs s.pos) :
    WI s (readListArm false elem n path s) := by
  unfold readListArm
  cases n with
  | none => exact WI.crash _ _ _
  | some k => exact readPrimList_wi elem path k s hfr

theorem fieldWith_wi (d : Path → Option Int → St → R Val) (hd : ∀ p sel s, Fresh s.scs s.pos → WI s (d p sel s))
    (tname : String) (kind : FKind) (fpath : Path) (vals : List (String × Val)) (s : St) (hfr : Fresh s.scs s.pos) :
    WI s (decodeFieldWith d tname kind fpath vals s) := by
  cases kind with
  | plain => exact hd _ _ _ hfr
  | selected sel =>
    simp only [decodeFieldWith]
    split
    · exact WI.crash _ _ _
    · exact hd _ _ _ hfr
  | counted =>
    simp only [decodeFieldWith]
    split
    · exact WI.crash _ _ _
    · apply WI.of_emit
      exact (repeatDec_wi _ (fun p s hf => hd p none s hf) fpath _ 0 _ (by simpa [emitM, emit] using hfr)).bind
        fun vs t _ => WI.ok _ _

/-- reading a size field in warn mode: it always yields an integer and consumes exactly its width -/
theorem readPrim_warn_ok {p : Prim} {path : Path} {s t : St} {v : Val} (h : readPrim false p path s = .ok (v, t)) :
    t.pos = s.pos + p.size := by
  unfold readPrim at h
  obtain ⟨_, s1, hb, h⟩ := bind_ok_inv h
  obtain ⟨bs, s2, ht, h⟩ := bind_ok_inv h
  have hs1 := bytesParsed_ok_inv hb
  obtain ⟨_, _, hs2⟩ := take_ok_inv ht
  simp only [Bool.false_eq_true, if_false] at h
  split at h <;>
  · simp only [Except.ok.injEq, Prod.mk.injEq] at h
    obtain ⟨_, rfl⟩ := h
    rw [hs2, hs1]; simp [emitM, emitW, emit]

/-- an overrun is only ever reported for a region the field really crosses -/
theorem bpGo_exc_over (path : Path) (size : Nat) : ∀ (todo done : List SC) (s : St) (cid : Nat) (cp : Path) (m a : Nat) (v : Path)
    (b : Nat) (t : St), bpGo path size done todo s = .error (.exceeded cid cp m a v b, t) →
    ∃ c ∈ todo, c.id = cid ∧ c.over size = true := by
  intro todo
  induction todo with
  | nil => intro done s cid cp m a v b t h; simp [bpGo] at h
  | cons c rest ih =>
    intro done s cid cp m a v b t h
    unfold bpGo at h
    by_cases hov : c.over size = true
    · simp only [hov, if_true] at h
      cases hc : consume (c.max.getD 0 - c.already) { s with scs := done.map fun d => { d with already := d.already - (size - (c.max.getD 0 - c.already)) } } with
      | error et =>
        obtain ⟨e, t'⟩ := et
        obtain ⟨rfl, _⟩ := consume_err hc
        rw [hc] at h
        simp [R.bind] at h
      | ok ut =>
        obtain ⟨_, t'⟩ := ut
        rw [hc] at h
        simp only [R.bind_ok, Except.error.injEq, Prod.mk.injEq, Err.exceeded.injEq] at h
        exact ⟨c, by simp, h.1.1, hov⟩
    · simp only [hov, Bool.false_eq_true, if_false] at h
      obtain ⟨c', hc', h1, h2⟩ := ih _ _ _ _ _ _ _ _ _ h
      exact ⟨c', by simp [hc'], h1, h2⟩

theorem readPrim_exc_over {p : Prim} {path : Path} {s t : St} {cid : Nat} {cp : Path} {m a : Nat} {v : Path} {b : Nat}
    (h : readPrim false p path s = .error (.exceeded cid cp m a v b, t)) : ∃ c ∈ s.scs, c.id = cid ∧ c.over p.size = true := by
  unfold readPrim at h
  cases hb : bytesParsed path p.size s with
  | error et =>
    obtain ⟨e, t'⟩ := et
    rw [hb] at h
    simp only [R.bind_error, Except.error.injEq, Prod.mk.injEq] at h
    obtain ⟨rfl, rfl⟩ := h
    exact bpGo_exc_over path p.size s.scs [] s _ _ _ _ _ _ _ hb
  | ok ut =>
    obtain ⟨_, s1⟩ := ut
    rw [hb] at h
    simp only [R.bind_ok] at h
    cases ht : take p.size s1 with
    | error et =>
      obtain ⟨e, t'⟩ := et
      rw [ht] at h
      unfold take at ht
      split at ht
      · simp only [Except.error.injEq, Prod.mk.injEq] at ht
        simp only [R.bind_error, Except.error.injEq, Prod.mk.injEq] at h
        rw [← ht.1] at h; simp at h
      · simp at ht
    | ok bt =>
      obtain ⟨bs, s2⟩ := bt
      rw [ht] at h
      simp only [R.bind_ok, Bool.false_eq_true, if_false] at h
      split at h <;> simp at h

theorem readPrim_warn_scs {p : Prim} {path : Path} {s t : St} {v : Val} (h : readPrim false p path s = .ok (v, t)) :
    t.scs = bump s.scs p.size := by
  unfold readPrim at h
  obtain ⟨_, s1, hb, h⟩ := bind_ok_inv h
  obtain ⟨bs, s2, ht, h⟩ := bind_ok_inv h
  have hs1 := bytesParsed_ok_inv hb
  obtain ⟨_, _, hs2⟩ := take_ok_inv ht
  simp only [Bool.false_eq_true, if_false] at h
  split at h <;>
  · simp only [Except.ok.injEq, Prod.mk.injEq] at h
    obtain ⟨_, rfl⟩ := h
    rw [hs2, hs1]; simp [emitM, emitW, emit]

/-- the byte list of a size-prefixed buffer never overruns the buffer's own region: `k` one-byte elements are read
while the region still has room for `k` -/
theorem bytes_no_own (elem : Prim) (h1 : elem.size = 1) (path : Path) (id : Nat) :
    ∀ (k i : Nat) (s : St) (pre : List SC) (c : SC) (n : Nat), s.scs = pre ++ [c] → c.id = id → (∀ d ∈ pre, d.id ≠ id) →
    c.max = some n → c.already + k ≤ n →
    ∀ cid cp m a v b t, repeatDec (readPrim false elem) path k i s ≠ .error (.exceeded cid cp m a v b, t) ∨ cid ≠ id := by
  intro k
  induction k with
  | zero => intro i s pre c n _ _ _ _ _ cid cp m a v b t; left; simp [repeatDec]
  | succ k ih =>
    intro i s pre c n hs hc hpre hm hk cid cp m a v b t
    by_cases hcid : cid = id
    · left
      subst hcid
      unfold repeatDec
      cases hr : readPrim false elem (elemPath path i) s with
      | error et =>
        obtain ⟨e, t'⟩ := et
        simp only [R.bind_error]
        intro hh
        simp only [Except.error.injEq, Prod.mk.injEq] at hh
        obtain ⟨rfl, rfl⟩ := hh
        obtain ⟨c', hc', hid, hov⟩ := readPrim_exc_over hr
        rw [hs] at hc'
        simp only [List.mem_append, List.mem_singleton] at hc'
        rcases hc' with hc' | rfl
        · exact hpre c' hc' hid
        · simp only [SC.over, hm, h1, decide_eq_true_eq] at hov
          omega
      | ok vt =>
        obtain ⟨v', s1⟩ := vt
        simp only [R.bind_ok]
        have hs1 := readPrim_warn_scs hr
        rw [hs, bump_append, h1] at hs1
        have := ih (i+1) s1 (bump pre 1) (c.bump 1) n hs1 (by simpa [SC.bump] using hc) (bump_ids hpre)
          (by simpa [SC.bump] using hm) (by simp only [SC.bump]; omega) cid cp m a v b
        intro hh
        cases hrr : repeatDec (readPrim false elem) path k (i+1) s1 with
        | error et =>
          obtain ⟨e, t'⟩ := et
          rw [hrr] at hh
          simp only [R.bind_error, Except.error.injEq, Prod.mk.injEq] at hh
          obtain ⟨rfl, rfl⟩ := hh
          rcases this t' with h' | h'
          · exact h' hrr
          · exact h' rfl
        | ok vt2 =>
          obtain ⟨vs, s2⟩ := vt2
          rw [hrr] at hh
          simp [R.bind] at hh
    · right; exact hcid

mutual
theorem decode_wi : (t : Ty) → t.wf = true → ∀ (path : Path) (sel : Option Int) (s : St), Fresh s.scs s.pos →
    WI s (decode false t path sel s)
  | .prim p, _, path, sel, s, _ => by simp only [decode]; exact readPrim_wi p path s
  | .struct name isP fs, hwf, path, sel, s, hfr => by
    simp only [decode]
    apply WI.of_emit
    exact (fields_wi fs (by simpa [Ty.wf] using hwf) path [] _ (by simpa [emitM, emit] using hfr)).bind fun vals t _ => WI.ok _ _
  | .tpm2bBytes name szName szP bufName elem, hwf, path, sel, s, hfr => by
    simp only [Ty.wf, Bool.and_eq_true, decide_eq_true_eq] at hwf
    obtain ⟨⟨⟨_, hszpos⟩, _⟩, hel1⟩ := hwf
    simp only [decode]
    apply WI.of_emit
    refine (readPrim_wi szP _ _).bind fun nv s1 h1 => ?_
    have hw1 : WI (emitM ⟨path, .named name false, none, "", 0⟩ s) (.ok (nv, s1) : R Val) := by rw [← h1]; exact readPrim_wi szP _ _
    have hp1 := readPrim_warn_ok h1
    have hfr1 : Fresh s1.scs s1.pos := WI.fresh hw1 (by simpa [emitM, emit] using hfr)
    split
    · exact WI.crash _ _ _
    · obtain ⟨s2, h2, hs2, hp2⟩ := openRegion_warn s1.pos (path ++ [⟨szName, none⟩]) (nv.asInt?.getD 0).toNat s1
      rw [h2]
      simp only [R.bind_ok]
      have hne : ∀ d ∈ s1.scs, d.id ≠ s1.pos := by
        intro d hd
        have hlt : d.id ≤ s.pos := by
          have := fresh_of_sig hw1.2 (p := s.pos) (q := s.pos) (by simpa [emitM, emit] using hfr) (Nat.le_refl _) d hd
          exact this
        simp only [emitM, emit] at hp1
        omega
      have hfr2 : Fresh s2.scs s2.pos := by
        rw [hs2, hp2]; exact fresh_append hfr1 (Nat.le_refl _)
      -- the body is the byte list; present it as the owner's frame with an `except` that never fires for lists of bytes
      have hbody := readPrimList_wi elem (path ++ [⟨bufName, none⟩]) (nv.asInt?.getD 0).toNat s2 hfr2
      have := owner_wi (id := s1.pos) hs2 hp2 hne hbody (fun bv => .obj name false [(szName, nv), (bufName, bv)])
      -- without the `except` (tpm2bBytes has none): same on success; an overrun of the own region would propagate
      cases hb : readPrimList false elem (path ++ [⟨bufName, none⟩]) (nv.asInt?.getD 0).toNat s2 with
      | ok vs =>
        obtain ⟨bv, s3⟩ := vs
        rw [hb] at this
        simpa [ownCatch] using this
      | error es =>
        obtain ⟨e, t⟩ := es
        rw [hb] at hbody
        obtain ⟨hp, hm⟩ := hbody
        simp only [stOf] at hp hm
        simp only [R.bind_error]
        refine ⟨by simp only [stOf]; omega, ?_⟩
        rcases hm with rfl | hv | ⟨c, m, rfl⟩ | ⟨cid, cp, m, a, v, b, rfl, pre, c, post, hdec, hcid, hsig⟩
        · exact Or.inl rfl
        · exact Or.inr (Or.inl hv)
        · exact Or.inr (Or.inr (Or.inl ⟨c, m, rfl⟩))
        · rw [hs2] at hdec
          rcases snoc_split hdec with ⟨hpost, hpre, hc⟩ | ⟨post', hpost, hl⟩
          · -- the buffer's own region cannot be overrun by its own bytes
            exfalso
            subst hc
            simp only [] at hcid
            have hrep : repeatDec (readPrim false elem) (path ++ [⟨bufName, none⟩]) (nv.asInt?.getD 0).toNat 0
                (emitM ⟨path ++ [⟨bufName, none⟩], .listOf elem.name, none, "", 0⟩ s2) = .error (.exceeded cid cp m a v b, t) := by
              unfold readPrimList at hb
              cases hrr : repeatDec (readPrim false elem) (path ++ [⟨bufName, none⟩]) (nv.asInt?.getD 0).toNat 0
                  (emitM ⟨path ++ [⟨bufName, none⟩], .listOf elem.name, none, "", 0⟩ s2) with
              | error et => rw [hrr] at hb; simpa [R.bind] using hb
              | ok vt => rw [hrr] at hb; simp [R.bind] at hb
            rcases bytes_no_own elem hel1 (path ++ [⟨bufName, none⟩]) s1.pos (nv.asInt?.getD 0).toNat 0
              (emitM ⟨path ++ [⟨bufName, none⟩], .listOf elem.name, none, "", 0⟩ s2) s1.scs
              ⟨s1.pos, path ++ [⟨szName, none⟩], 0, some (nv.asInt?.getD 0).toNat⟩ (nv.asInt?.getD 0).toNat
              (by simpa [emitM, emit] using hs2) rfl hne rfl (by simp) cid cp m a v b t with h' | h'
            · exact h' hrep
            · exact h' hcid.symm
          · exact Or.inr (Or.inr (Or.inr ⟨cid, cp, m, a, v, b, rfl, pre, c, post', hl, hcid, hsig⟩))
  | .tpm2b name szName szP bufName body, hwf, path, sel, s, hfr => by
    simp only [Ty.wf, Bool.and_eq_true, decide_eq_true_eq] at hwf
    obtain ⟨⟨_, hszpos⟩, hwb⟩ := hwf
    simp only [decode]
    apply WI.of_emit
    refine (readPrim_wi szP _ _).bind fun nv s1 h1 => ?_
    have hw1 : WI (emitM ⟨path, .named name false, none, "", 0⟩ s) (.ok (nv, s1) : R Val) := by rw [← h1]; exact readPrim_wi szP _ _
    have hp1 := readPrim_warn_ok h1
    have hfr1 : Fresh s1.scs s1.pos := WI.fresh hw1 (by simpa [emitM, emit] using hfr)
    split
    · exact WI.crash _ _ _
    · obtain ⟨s2, h2, hs2, hp2⟩ := openRegion_warn s1.pos (path ++ [⟨szName, none⟩]) (nv.asInt?.getD 0).toNat s1
      rw [h2]
      simp only [R.bind_ok]
      have hne : ∀ d ∈ s1.scs, d.id ≠ s1.pos := by
        intro d hd
        have hlt : d.id ≤ s.pos :=
          fresh_of_sig hw1.2 (p := s.pos) (q := s.pos) (by simpa [emitM, emit] using hfr) (Nat.le_refl _) d hd
        simp only [emitM, emit] at hp1
        omega
      have hfr2 : Fresh s2.scs s2.pos := by
        rw [hs2, hp2]; exact fresh_append hfr1 (Nat.le_refl _)
      split
      · have := owner_wi (id := s1.pos) (r := .ok (.none, emitM ⟨path ++ [⟨bufName, none⟩], body.eventTag, none, "", 0⟩ s2))
          hs2 hp2 hne ⟨Nat.le_refl _, rfl⟩ (fun _ => .obj name false [(szName, nv), (bufName, .none)])
        simpa [ownCatch] using this
      · exact owner_wi (id := s1.pos) hs2 hp2 hne (decode_wi body hwb _ none s2 hfr2)
          (fun bv => .obj name false [(szName, nv), (bufName, bv)])
  | .union name arms, hwf, path, sel, s, hfr => by
    simp only [decode]
    apply WI.of_emit
    split
    · split
      · exact ⟨Nat.le_refl _, Or.inr (Or.inl rfl)⟩
      · exact ⟨Nat.le_refl _, Or.inr (Or.inl rfl)⟩
    · exact arm_wi arms (by simpa [Ty.wf] using hwf) name _ path _ (by simpa [emitM, emit] using hfr)
  | .bad r, _, path, sel, s, _ => by simp only [decode]; exact WI.crash _ _ _

theorem arm_wi : (arms : Arms) → arms.wf = true → ∀ (un want : String) (path : Path) (s : St), Fresh s.scs s.pos →
    WI s (decodeArm false arms un want path s)
  | .nil, _, un, want, path, s, _ => by simp only [decodeArm]; exact WI.crash _ _ _
  | .consNone an key rest, hwf, un, want, path, s, hfr => by
    simp only [decodeArm]
    split
    · exact WI.ok _ _
    · exact arm_wi rest (by simpa [Arms.wf] using hwf) un want path s hfr
  | .cons an key t rest, hwf, un, want, path, s, hfr => by
    simp only [Arms.wf, Bool.and_eq_true] at hwf
    simp only [decodeArm]
    split
    · exact (decode_wi t hwf.1 _ none s hfr).bind fun v t' _ => WI.ok _ _
    · exact arm_wi rest hwf.2 un want path s hfr
  | .consBytes an key elem n rest, hwf, un, want, path, s, hfr => by
    simp only [Arms.wf, Bool.and_eq_true] at hwf
    simp only [decodeArm]
    split
    · exact (readListArm_wi elem n _ s hfr).bind fun v t' _ => WI.ok _ _
    · exact arm_wi rest hwf.2 un want path s hfr

theorem fields_wi : (fs : Fields) → fs.wf = true → ∀ (path : Path) (vals : List (String × Val)) (s : St), Fresh s.scs s.pos →
    WI s (decodeFields false fs path vals s)
  | .nil, _, path, vals, s, _ => by simp only [decodeFields]; exact WI.ok _ _
  | .cons fname kind t rest, hwf, path, vals, s, hfr => by
    simp only [Fields.wf, Bool.and_eq_true] at hwf
    simp only [decodeFields]
    have hstep := fieldWith_wi _ (fun p sel s hf => decode_wi t hwf.1 p sel s hf) t.name kind (path ++ [⟨fname, none⟩]) vals s hfr
    refine hstep.bind fun v t' ht => ?_
    exact fields_wi rest hwf.2 path _ t' (WI.fresh (by rw [← ht]; exact hstep) hfr)
end

/-! ## messages: nothing but `depleted`, the two value errors and internal errors ever leaves a message walker -/

theorem decodeArea_wi (tb : MsgTables) (enc : Bool) (t : Ty) (hwt : t.wf = true) (hwe : tb.encParam.wf = true)
    (path : Path) (s : St) (hfr : Fresh s.scs s.pos) : WI s (decodeArea false tb enc t path s) := by
  unfold decodeArea
  by_cases hc : (enc && t.isParams) = true
  · simp only [hc, if_true]
    cases henc : encVariant tb.encParam t with
    | none => simp only []; exact decode_wi t hwt path none s hfr
    | some nf =>
      obtain ⟨name, fs⟩ := nf
      simp only []
      apply WI.of_emit
      exact (fields_wi fs (encVariant_wf hwe hwt henc) path [] _ (by simpa [emitM, emit] using hfr)).bind fun vals t' _ => WI.ok _ _
  · simp only [hc, Bool.false_eq_true, if_false]
    exact decode_wi t hwt path none s hfr

/-- the session loop inside its region `cid` (the last one opened): afterwards that region is gone, one way or the other -/
theorem sizedLoop_wi (t : Ty) (hwt : t.wf = true) (path : Path) (cid : Nat) :
    ∀ (fuel i : Nat) (acc : List Val) (s : St) (pre : List SC) (a : SC), s.scs = pre ++ [a] → a.id = cid →
    (∀ d ∈ pre, d.id ≠ cid) → Fresh s.scs s.pos →
    WI { s with scs := pre } (sizedLoop false t path cid fuel i acc s) := by
  intro fuel
  induction fuel with
  | zero => intro i acc s pre a _ _ _ _; exact ⟨Nat.le_refl _, Or.inr (Or.inr (Or.inl ⟨_, _, rfl⟩))⟩
  | succ n ih =>
    intro i acc s pre a hs ha hpre hfr
    unfold sizedLoop
    rw [hs, findSC_last cid pre a ha hpre]
    simp only []
    cases hm : a.max with
    | none => simp only []; exact ⟨Nat.le_refl _, Or.inr (Or.inr (Or.inl ⟨_, _, rfl⟩))⟩
    | some m =>
      simp only []
      by_cases hlt : a.already < m
      · rw [if_pos hlt]
        have hbody := decode_wi t hwt (elemPath path i) none s hfr
        obtain ⟨hp, hmm⟩ := hbody
        cases hr : decode false t (elemPath path i) none s with
        | ok vs =>
          obtain ⟨v, s1⟩ := vs
          rw [hr] at hp hmm
          simp only [stOf] at hp hmm
          simp only [ownCatch]
          rw [hs, sig_append] at hmm
          obtain ⟨pre1, a1, hl, hsp, hc1⟩ := sig_snoc_split (l := s1.scs) (pre := pre) (idn := (a.id, a.max)) (by simpa [sig] using hmm)
          simp only [Prod.mk.injEq] at hc1
          have hfr1 : Fresh s1.scs s1.pos := fresh_of_sig (l2 := s.scs) (by rw [hs, sig_append]; simpa [sig] using hmm) hfr hp
          obtain ⟨ip, im⟩ := ih (i+1) (acc ++ [v]) s1 pre1 a1 hl (by rw [hc1.1, ha]) (ids_ne_of_sig hsp hpre) hfr1
          refine ⟨by simp only [] at ip ⊢; omega, ?_⟩
          cases hx : sizedLoop false t path cid n (i+1) (acc ++ [v]) s1 with
          | ok ut => obtain ⟨u, t2⟩ := ut; rw [hx] at im; simp only [] at im ⊢; rw [im, hsp]
          | error et => obtain ⟨e, t2⟩ := et; rw [hx] at im; simp only [] at im ⊢; exact im.transfer hsp
        | error es =>
          obtain ⟨e, t1⟩ := es
          rw [hr] at hp hmm
          simp only [stOf] at hp hmm
          rcases hmm with rfl | hv | ⟨c, mm, rfl⟩ | ⟨cid', cp, mm, aa, v, b, rfl, prx, c, post, hdec, hcid, hsig⟩
          · exact ⟨by simp only [ownCatch, stOf]; omega, Or.inl rfl⟩
          · cases e <;> simp only [Err.isValueErr, Bool.false_eq_true] at hv <;> exact ⟨by simp only [ownCatch, stOf]; omega, Or.inr (Or.inl rfl)⟩
          · exact ⟨by simp only [ownCatch, stOf]; omega, Or.inr (Or.inr (Or.inl ⟨c, mm, rfl⟩))⟩
          · rw [hs] at hdec
            rcases snoc_split hdec with ⟨hpost, hprx, hc⟩ | ⟨post', hpost, hl⟩
            · subst hc
              rw [ha] at hcid
              subst hcid
              simp only [ownCatch, Bool.false_or, bne_self_eq_false, Bool.false_eq_true, if_false]
              exact ⟨by simp only [stOf, emitW, emit]; omega, by simp only [emitW, emit]; rw [hsig, hprx]⟩
            · have hne : cid' ≠ cid := by rw [← hcid]; exact hpre c (by rw [hl]; simp)
              have hb : (cid' != cid) = true := by simpa using hne
              simp only [ownCatch, Bool.false_or, hb, if_true]
              exact ⟨by simp only [stOf]; omega, Or.inr (Or.inr (Or.inr ⟨cid', cp, mm, aa, v, b, rfl, prx, c, post', hl, hcid, hsig⟩))⟩
      · rw [if_neg hlt]
        rw [removeSC_last cid pre a ha hpre]
        exact (assertDoneSC_wi a { s with scs := pre }).bind fun _ t' _ => WI.ok _ _

theorem decodeSized_wi (t : Ty) (hwt : t.wf = true) (path : Path) (cid : Nat) (s : St) (pre : List SC) (a : SC)
    (hs : s.scs = pre ++ [a]) (ha : a.id = cid) (hpre : ∀ d ∈ pre, d.id ≠ cid) (hfr : Fresh s.scs s.pos) :
    WI { s with scs := pre } (decodeSized false t path cid s) := by
  unfold decodeSized
  simp only []
  exact sizedLoop_wi t hwt path cid _ 0 [] (emitM ⟨path, .listOf t.name, none, "", 0⟩ s) pre a
    (by simpa [emitM, emit] using hs) ha hpre (by simpa [emitM, emit] using hfr)

/-- what may leave a message walker in warn mode -/
def WM {α : Type} (r : R α) : Prop :=
  match r with
  | .ok _ => True
  | .error (e, _) => e = .depleted ∨ e.isValueErr = true ∨ (∃ c m, e = .crash c m)

theorem WM.bind {α β : Type} {r : R α} {f : α → St → R β} (h : WM r) (hf : ∀ a t, r = .ok (a, t) → WM (f a t)) :
    WM (r.bind f) := by
  cases r with
  | error e => obtain ⟨e, t⟩ := e; exact h
  | ok at' => obtain ⟨a, t⟩ := at'; exact hf a t rfl

theorem WM.crash {α : Type} (c m : String) (s : St) : WM (crash c m s : R α) := Or.inr (Or.inr ⟨c, m, rfl⟩)

/-- `except SizeConstraintExceededError` of a message: every overrun that can reach it is one of its own two regions -/
theorem mc_wm {id1 id2 : Nat} {name : String} {vals : List (String × Val)} {scs : List SC} {r : R Val} {k : Val → St → R Val}
    (herr : ∀ e t, r = .error (e, t) → WErr scs e t) (hown : ∀ d ∈ scs, d.id = id1 ∨ d.id = id2)
    (hk : ∀ v t, r = .ok (v, t) → WM (k v t)) : WM (msgCatch false id1 id2 name vals r k) := by
  cases r with
  | ok vs => obtain ⟨v, t⟩ := vs; simp only [msgCatch]; exact hk v t rfl
  | error es =>
    obtain ⟨e, t⟩ := es
    rcases herr e t rfl with rfl | hv | ⟨c, m, rfl⟩ | ⟨cid, cp, m, a, v, b, rfl, pre, c, post, hdec, hcid, _⟩
    · exact Or.inl rfl
    · cases e <;> simp only [Err.isValueErr, Bool.false_eq_true] at hv <;> exact Or.inr (Or.inl rfl)
    · exact Or.inr (Or.inr ⟨c, m, rfl⟩)
    · have hmem : c ∈ scs := by rw [hdec]; simp
      have hc := hown c hmem
      rw [hcid] at hc
      have : (cid != id1 && cid != id2) = false := by
        rcases hc with rfl | rfl <;> simp
      simp only [msgCatch, Bool.false_or, this, Bool.false_eq_true, if_false]
      trivial

theorem WI.errs {α : Type} {s : St} {r : R α} (h : WI s r) : ∀ e t, r = .error (e, t) → WErr s.scs e t := by
  intro e t hr; subst hr; exact h.2

theorem WI.oks {α : Type} {s : St} {r : R α} (h : WI s r) : ∀ a t, r = .ok (a, t) → s.pos ≤ t.pos ∧ sig t.scs = sig s.scs := by
  intro a t hr; subst hr; exact ⟨h.1, h.2⟩

theorem own_of_sig {l1 l2 : List SC} (h : sig l1 = sig l2) {P : Nat → Prop} (h2 : ∀ d ∈ l2, P d.id) : ∀ d ∈ l1, P d.id := by
  intro d hd
  have hids := sig_ids h
  have : d.id ∈ l1.map (·.id) := List.mem_map.mpr ⟨d, hd, rfl⟩
  rw [hids] at this
  obtain ⟨d0, hd0, he0⟩ := List.mem_map.mp this
  rw [← he0]; exact h2 d0 hd0

theorem setListed_warn (id : Nat) (cpath : Path) (n : Nat) (s : St) :
    ∃ t, setListed false id cpath n s = .ok ((), t) ∧ t.pos = s.pos ∧ t.scs.map (·.id) = s.scs.map (·.id) := by
  unfold setListed anticipateM
  simp only []
  split
  · refine ⟨_, rfl, rfl, ?_⟩
    simp only [List.map_map]
    apply List.map_congr_left
    intro c _
    simp only [Function.comp]
    split <;> rfl
  · simp only [Bool.false_eq_true, if_false]
    refine ⟨_, rfl, rfl, ?_⟩
    simp only [emitW, emit, List.map_map]
    apply List.map_congr_left
    intro c _
    simp only [Function.comp]
    split <;> rfl

theorem only_of_ids {l1 l2 : List SC} (h : l1.map (·.id) = l2.map (·.id)) {P : Nat → Prop} (h2 : ∀ d ∈ l2, P d.id) :
    ∀ d ∈ l1, P d.id := by
  intro d hd
  have : d.id ∈ l1.map (·.id) := List.mem_map.mpr ⟨d, hd, rfl⟩
  rw [h] at this
  obtain ⟨d0, hd0, he0⟩ := List.mem_map.mp this
  rw [← he0]; exact h2 d0 hd0

theorem fresh_only {scs : List SC} {cid pos : Nat} (h : ∀ d ∈ scs, d.id = cid) (hp : cid ≤ pos) : Fresh scs pos := by
  intro d hd; rw [h d hd]; exact hp

theorem decodeCommand_wm (tb : MsgTables) (hw : tb.wf = true) (path : Path) (s0 : St) : WM (decodeCommand false tb path s0) := by
  simp only [MsgTables.wf, Bool.and_eq_true, decide_eq_true_eq] at hw
  obtain ⟨⟨⟨⟨⟨⟨⟨⟨⟨⟨⟨⟨⟨⟨⟨⟨⟨⟨_, hTagPos⟩, _⟩, _⟩, _⟩, wAuth⟩, _⟩, _⟩, _⟩, _⟩, _⟩, _⟩, _⟩, _⟩, wEnc⟩, wCH⟩, wCP⟩, _⟩, _⟩ := hw
  unfold decodeCommand
  simp only []
  -- a step under the message's `except`, started in a state whose only region is the message's own
  have only0 : ∀ d ∈ ([⟨s0.pos, [], 0, none⟩] : List SC), d.id = s0.pos := by
    intro d hd; simp only [List.mem_singleton] at hd; subst hd; rfl
  have own_of_only : ∀ {scs : List SC}, (∀ d ∈ scs, d.id = s0.pos) → ∀ d ∈ scs, d.id = s0.pos ∨ d.id = s0.pos + 1 :=
    fun h d hd => Or.inl (h d hd)
  -- tag
  have h1 := readPrim_wi tb.tagCmd (path ++ [⟨"tag", none⟩])
    (emitM ⟨path, .named "Command" false, none, "", 0⟩ { s0 with scs := [⟨s0.pos, [], 0, none⟩] })
  refine mc_wm h1.errs (own_of_only (by simpa [emitM, emit] using only0)) fun tag s1 e1 => ?_
  obtain ⟨_, g1⟩ := h1.oks _ _ e1
  have p1 : s1.pos = s0.pos + tb.tagCmd.size := by simpa [emitM, emit] using readPrim_warn_ok e1
  have o1 : ∀ d ∈ s1.scs, d.id = s0.pos := own_of_sig (P := fun i => i = s0.pos) g1 (by simpa [emitM, emit] using only0)
  -- commandSize
  have h2 := readPrim_wi tb.cmdSize (path ++ [⟨"commandSize", none⟩]) s1
  refine mc_wm h2.errs (own_of_only o1) fun csz s2 e2 => ?_
  obtain ⟨q2, g2⟩ := h2.oks _ _ e2
  have o2 : ∀ d ∈ s2.scs, d.id = s0.pos := own_of_sig (P := fun i => i = s0.pos) g2 o1
  split
  · exact WM.crash _ _ _
  · split
    · exact WM.crash _ _ _
    · rename_i n _ _
      obtain ⟨s3, e3, p3, i3⟩ := setListed_warn s0.pos (path ++ [⟨"commandSize", none⟩]) n.toNat s2
      rw [e3]
      simp only [R.bind_ok]
      have o3 : ∀ d ∈ s3.scs, d.id = s0.pos := only_of_ids (P := fun i => i = s0.pos) i3 o2
      -- commandCode
      have h4 := readPrim_wi tb.cc (path ++ [⟨"commandCode", none⟩]) s3
      refine mc_wm h4.errs (own_of_only o3) fun ccv s4 e4 => ?_
      obtain ⟨q4, g4⟩ := h4.oks _ _ e4
      have o4 : ∀ d ∈ s4.scs, d.id = s0.pos := own_of_sig (P := fun i => i = s0.pos) g4 o3
      have q4' : s0.pos + 1 ≤ s4.pos := by omega
      split
      · exact Or.inr (Or.inl rfl)
      · rename_i hty hh
        -- handles
        have h5 := decodeArea_wi tb false hty (lookupTy_wf wCH hh) wEnc (path ++ [⟨"handles", none⟩]) s4 (fresh_only o4 (by omega))
        refine mc_wm h5.errs (own_of_only o4) fun hv s5 e5 => ?_
        obtain ⟨q5, g5⟩ := h5.oks _ _ e5
        have o5 : ∀ d ∈ s5.scs, d.id = s0.pos := own_of_sig (P := fun i => i = s0.pos) g5 o4
        -- the tail: parameters, then the message's own region closes
        have tail : ∀ (vals : List (String × Val)) (enc : Bool) (s6 : St), (∀ d ∈ s6.scs, d.id = s0.pos) → s0.pos + 1 ≤ s6.pos →
            WM (match lookupTy tb.cmdParams ((vInt ccv).getD 0) with
              | none => (.error (.value (path ++ [(⟨"commandCode", none⟩ : PathNode)]) tb.cc.name ((vInt ccv).getD 0), s6) : R Val)
              | some pty =>
                msgCatch false s0.pos (s0.pos + 1) "Command" vals
                  (decodeArea false tb enc pty (path ++ [(⟨"parameters", none⟩ : PathNode)]) s6) fun pv s =>
                  (assertDone false s0.pos s).bind fun _ s => .ok (.obj "Command" false (vals ++ [("parameters", pv)]), s)) := by
          intro vals enc s6 o6 q6
          split
          · exact Or.inr (Or.inl rfl)
          · rename_i pty hp
            have h7 := decodeArea_wi tb enc pty (lookupTy_wf wCP hp) wEnc (path ++ [⟨"parameters", none⟩]) s6 (fresh_only o6 (by omega))
            refine mc_wm h7.errs (own_of_only o6) fun pv s7 e7 => ?_
            -- the final `assert_done` is outside every `except`: its padding is charged to no region at all
            unfold assertDone
            split
            · exact WM.crash _ _ _
            · rename_i c hc
              obtain ⟨_, g7⟩ := h7.oks _ _ e7
              have o7 : ∀ d ∈ s7.scs, d.id = s0.pos := own_of_sig (P := fun i => i = s0.pos) g7 o6
              have hrem : removeSC s0.pos s7.scs = [] := by
                unfold removeSC
                apply List.filter_eq_nil_iff.mpr
                intro d hd
                simp [o7 d hd]
              rw [hrem]
              have := assertDoneSC_wi c { s7 with scs := [] }
              refine WM.bind ?_ fun _ t _ => trivial
              cases hx : assertDoneSC false c { s7 with scs := [] } with
              | ok ut => trivial
              | error et =>
                obtain ⟨e, t⟩ := et
                rw [hx] at this
                rcases this.2 with rfl | h' | h' | ⟨cid, cp, m, a, v, b, rfl, pre, c', post, hdec, _⟩
                · exact Or.inl rfl
                · exact Or.inr (Or.inl h')
                · exact Or.inr (Or.inr h')
                · simp at hdec
        split
        · -- sessions
          have h6 := readPrim_wi tb.authSize (path ++ [⟨"authSize", none⟩]) s5
          refine mc_wm h6.errs (own_of_only o5) fun asz s6 e6 => ?_
          obtain ⟨q6, g6⟩ := h6.oks _ _ e6
          have o6 : ∀ d ∈ s6.scs, d.id = s0.pos := own_of_sig (P := fun i => i = s0.pos) g6 o5
          split
          · exact WM.crash _ _ _
          · split
            · exact WM.crash _ _ _
            · rename_i an _ _
              obtain ⟨s7, e7, hs7, p7⟩ := openRegion_warn (s0.pos + 1) (path ++ [⟨"authSize", none⟩]) an.toNat s6
              rw [e7]
              simp only [R.bind_ok]
              have hpre : ∀ d ∈ s6.scs, d.id ≠ s0.pos + 1 := by intro d hd; rw [o6 d hd]; omega
              have hfr7 : Fresh s7.scs s7.pos := by
                rw [hs7, p7]
                exact fresh_append (fresh_only o6 (by omega)) (by simp only []; omega)
              have h8 := decodeSized_wi tb.authCmd wAuth (path ++ [⟨"authorizationArea", none⟩]) (s0.pos + 1) s7 s6.scs _ hs7 rfl hpre hfr7
              refine mc_wm h8.errs (own_of_only o6) fun area s8 e8 => ?_
              obtain ⟨q8, g8⟩ := h8.oks _ _ e8
              simp only [] at q8 g8
              have o8 : ∀ d ∈ s8.scs, d.id = s0.pos := own_of_sig (P := fun i => i = s0.pos) g8 o6
              split
              · exact WM.crash _ _ _
              · exact tail _ _ s8 o8 (by omega)
        · exact tail _ false s5 o5 (by omega)

/-! ### responses -/

def OneReg (id : Nat) (scs : List SC) : Prop := ∃ a, scs = [a] ∧ a.id = id

theorem OneReg.of_sig {id : Nat} {l1 l2 : List SC} (h : sig l1 = sig l2) (h2 : OneReg id l2) : OneReg id l1 := by
  obtain ⟨a, rfl, ha⟩ := h2
  cases l1 with
  | nil => simp [sig] at h
  | cons b rest =>
    simp only [sig, List.map_cons, List.map_nil, List.cons.injEq, List.map_eq_nil_iff, Prod.mk.injEq] at h
    obtain ⟨⟨h1, _⟩, rfl⟩ := h
    exact ⟨b, rfl, by rw [h1, ha]⟩

theorem OneReg.of_ids {id : Nat} {l1 l2 : List SC} (h : l1.map (·.id) = l2.map (·.id)) (h2 : OneReg id l2) : OneReg id l1 := by
  obtain ⟨a, rfl, ha⟩ := h2
  cases l1 with
  | nil => simp at h
  | cons b rest =>
    simp only [List.map_cons, List.map_nil, List.cons.injEq, List.map_eq_nil_iff] at h
    obtain ⟨h1, rfl⟩ := h
    exact ⟨b, rfl, by rw [h1, ha]⟩

theorem OneReg.own {id : Nat} {scs : List SC} (h : OneReg id scs) (id2 : Nat) : ∀ d ∈ scs, d.id = id ∨ d.id = id2 := by
  obtain ⟨a, rfl, ha⟩ := h
  intro d hd; simp only [List.mem_singleton] at hd; subst hd; exact Or.inl ha

theorem OneReg.fresh {id pos : Nat} {scs : List SC} (h : OneReg id scs) (hp : id ≤ pos) : Fresh scs pos := by
  obtain ⟨a, rfl, ha⟩ := h
  intro d hd; simp only [List.mem_singleton] at hd; subst hd; rw [ha]; exact hp

theorem ExcOf.snoc {scs left : List SC} {cid : Nat} (h : ExcOf scs left cid) (x : SC) : ExcOf (scs ++ [x]) left cid := by
  obtain ⟨pre, c, post, h1, h2, h3⟩ := h
  exact ⟨pre, c, post ++ [x], by rw [h1]; simp, h2, h3⟩

theorem WErr.snoc {scs : List SC} {e : Err} {t : St} (h : WErr scs e t) (x : SC) : WErr (scs ++ [x]) e t := by
  rcases h with h1 | h1 | h1 | ⟨cid, cp, m, a, v, b, rfl, hx⟩
  · exact Or.inl h1
  · exact Or.inr (Or.inl h1)
  · exact Or.inr (Or.inr (Or.inl h1))
  · exact Or.inr (Or.inr (Or.inr ⟨cid, cp, m, a, v, b, rfl, hx.snoc x⟩))

/-- the end of a response: the response-size region (the only one left) closes; nothing is left open -/
theorem finish_wm {rid : Nat} {s : St} (h : OneReg rid s.scs) (vals : List (String × Val)) :
    WM ((assertDone false rid s).bind fun _ s =>
      if s.scs.isEmpty then (.ok (.obj "Response" false vals, s) : R Val)
      else crash "AssertionError" "size_constraints.assert_done()" s) := by
  obtain ⟨a, hs, ha⟩ := h
  unfold assertDone
  have hf : findSC rid s.scs = some a := by rw [hs]; simp [findSC, ha]
  have hr : removeSC rid s.scs = [] := by rw [hs]; simp [removeSC, ha]
  rw [hf, hr]
  simp only []
  have := assertDoneSC_wi a { s with scs := [] }
  refine WM.bind ?_ fun _ t _ => ?_
  · cases hx : assertDoneSC false a { s with scs := [] } with
    | ok ut => trivial
    | error et =>
      obtain ⟨e, t⟩ := et
      rw [hx] at this
      rcases this.2 with rfl | h' | h' | ⟨cid, cp, m, aa, v, b, rfl, pre, c', post, hdec, _⟩
      · exact Or.inl rfl
      · exact Or.inr (Or.inl h')
      · exact Or.inr (Or.inr h')
      · simp at hdec
  · split
    · trivial
    · exact WM.crash _ _ _

theorem setListed_warn' (id : Nat) (cpath : Path) (n : Nat) (s : St) :
    ∃ t, setListed false id cpath n s = .ok ((), t) ∧ t.pos = s.pos ∧ t.scs.map (·.id) = s.scs.map (·.id) :=
  setListed_warn id cpath n s

theorem decodeResponse_wm (tb : MsgTables) (hw : tb.wf = true) (cc : Option Int) (enc : Bool) (path : Path) (s0 : St) :
    WM (decodeResponse false tb cc enc path s0) := by
  simp only [MsgTables.wf, Bool.and_eq_true, decide_eq_true_eq] at hw
  obtain ⟨⟨⟨⟨⟨⟨⟨⟨⟨⟨⟨⟨⟨⟨⟨⟨⟨⟨_, _⟩, _⟩, _⟩, _⟩, _⟩, _⟩, _⟩, hTagPos⟩, _⟩, _⟩, _⟩, wAuth⟩, _⟩, wEnc⟩, _⟩, _⟩, wRH⟩, wRP⟩ := hw
  unfold decodeResponse
  simp only []
  have one0 : OneReg s0.pos ([⟨s0.pos, [], 0, none⟩] : List SC) := ⟨_, rfl, rfl⟩
  -- tag
  have h1 := readPrim_wi tb.tagRsp (path ++ [⟨"tag", none⟩])
    (emitM ⟨path, .named "Response" false, none, "", 0⟩ { s0 with scs := [⟨s0.pos, [], 0, none⟩] })
  refine mc_wm h1.errs (OneReg.own (by simpa [emitM, emit] using one0) _) fun tag s1 e1 => ?_
  obtain ⟨_, g1⟩ := h1.oks _ _ e1
  have p1 : s1.pos = s0.pos + tb.tagRsp.size := by simpa [emitM, emit] using readPrim_warn_ok e1
  have o1 : OneReg s0.pos s1.scs := OneReg.of_sig g1 (by simpa [emitM, emit] using one0)
  -- responseSize
  have h2 := readPrim_wi tb.rspSize (path ++ [⟨"responseSize", none⟩]) s1
  refine mc_wm h2.errs (o1.own _) fun rsz s2 e2 => ?_
  obtain ⟨q2, g2⟩ := h2.oks _ _ e2
  have o2 : OneReg s0.pos s2.scs := OneReg.of_sig g2 o1
  split
  · exact WM.crash _ _ _
  · split
    · exact WM.crash _ _ _
    · rename_i n _ _
      obtain ⟨s3, e3, p3, i3⟩ := setListed_warn s0.pos (path ++ [⟨"responseSize", none⟩]) n.toNat s2
      rw [e3]
      simp only [R.bind_ok]
      have o3 : OneReg s0.pos s3.scs := OneReg.of_ids i3 o2
      -- responseCode
      have h4 := readPrim_wi tb.rc (path ++ [⟨"responseCode", none⟩]) s3
      refine mc_wm h4.errs (o3.own _) fun rcv s4 e4 => ?_
      obtain ⟨q4, g4⟩ := h4.oks _ _ e4
      have o4 : OneReg s0.pos s4.scs := OneReg.of_sig g4 o3
      have q4' : s0.pos + 1 ≤ s4.pos := by omega
      split
      · exact finish_wm o4 _
      · split
        · exact Or.inr (Or.inl (by split <;> rfl))
        · rename_i hty hh
          have whty : hty.wf = true := by
            cases cc with
            | none => simp at hh
            | some c => exact lookupTy_wf wRH (by simpa using hh)
          have h5 := decodeArea_wi tb enc hty whty wEnc (path ++ [⟨"handles", none⟩]) s4 (o4.fresh (by omega))
          refine mc_wm h5.errs (o4.own _) fun hv s5 e5 => ?_
          obtain ⟨q5, g5⟩ := h5.oks _ _ e5
          have o5 : OneReg s0.pos s5.scs := OneReg.of_sig g5 o4
          -- after the parameters: the sessions (governed by responseSize itself), or the end
          have after : ∀ (vals : List (String × Val)) (s8 : St), OneReg s0.pos s8.scs → s0.pos + 1 ≤ s8.pos →
              WM (if (!(vInt tag == some tb.sessionsTag)) = true then
                  (assertDone false s0.pos s8).bind fun _ s =>
                    if s.scs.isEmpty then (.ok (.obj "Response" false vals, s) : R Val)
                    else crash "AssertionError" "size_constraints.assert_done()" s
                else
                  msgCatch false s0.pos (s0.pos + 1) "Response" vals
                    (decodeSized false tb.authRsp (path ++ [(⟨"authorizationArea", none⟩ : PathNode)]) s0.pos s8) fun area s =>
                    match areaFlag tb.authRsp "encrypt" area with
                    | .error cls => crash cls "is_parameter_encryption" s
                    | .ok expected =>
                      if expected != enc then crash "AssertionError" "process_response: parameter_encryption mismatch" s else
                      if s.scs.isEmpty then .ok (.obj "Response" false (vals ++ [("authorizationArea", area)]), s)
                      else crash "AssertionError" "size_constraints.assert_done()" s) := by
            intro vals s8 o8 q8
            split
            · exact finish_wm o8 _
            · obtain ⟨a, hs8, ha⟩ := o8
              have h9 := decodeSized_wi tb.authRsp wAuth (path ++ [⟨"authorizationArea", none⟩]) s0.pos s8 [] a
                (by rw [hs8]; rfl) ha (by intro d hd; cases hd) (by rw [hs8]; intro d hd; simp only [List.mem_singleton] at hd; subst hd; rw [ha]; omega)
              refine mc_wm h9.errs (by intro d hd; cases hd) fun area s9 e9 => ?_
              split
              · exact WM.crash _ _ _
              · split
                · exact WM.crash _ _ _
                · split
                  · trivial
                  · exact WM.crash _ _ _
          split
          · -- sessions: parameterSize opens its region around the parameters
            rename_i hsess
            have h6 := readPrim_wi tb.paramSize (path ++ [⟨"parameterSize", none⟩]) s5
            refine mc_wm h6.errs (o5.own _) fun psz s6 e6 => ?_
            obtain ⟨q6, g6⟩ := h6.oks _ _ e6
            have o6 : OneReg s0.pos s6.scs := OneReg.of_sig g6 o5
            split
            · exact WM.crash _ _ _
            · split
              · exact WM.crash _ _ _
              · rename_i pn _ _
                obtain ⟨s7, e7, hs7, p7⟩ := openRegion_warn (s0.pos + 1) (path ++ [⟨"parameterSize", none⟩]) pn.toNat s6
                rw [e7]
                simp only [R.bind_ok]
                split
                · exact Or.inr (Or.inl (by split <;> rfl))
                · rename_i pty hp
                  have wpty : pty.wf = true := by
                    cases cc with
                    | none => simp at hp
                    | some c => exact lookupTy_wf wRP (by simpa using hp)
                  obtain ⟨a6, ha6s, ha6⟩ := o6
                  have hpre : ∀ d ∈ s6.scs, d.id ≠ s0.pos + 1 := by
                    intro d hd; rw [ha6s] at hd; simp only [List.mem_singleton] at hd; subst hd; rw [ha6]; omega
                  have hfr7 : Fresh s7.scs s7.pos := by
                    rw [hs7, p7]
                    exact fresh_append (OneReg.fresh ⟨a6, ha6s, ha6⟩ (by omega)) (by simp only []; omega)
                  have own7 : ∀ d ∈ s7.scs, d.id = s0.pos ∨ d.id = s0.pos + 1 := by
                    intro d hd
                    rw [hs7, ha6s] at hd
                    simp only [List.mem_append, List.mem_singleton] at hd
                    rcases hd with rfl | rfl
                    · exact Or.inl ha6
                    · exact Or.inr rfl
                  have h8 := decodeArea_wi tb enc pty wpty wEnc (path ++ [⟨"parameters", none⟩]) s7 hfr7
                  -- the parameters inside the parameterSize region, then that region closes: one step under the `except`
                  refine mc_wm (scs := s7.scs) ?_ own7 fun pv s8 e8 => ?_
                  · intro e t he
                    cases hd : decodeArea false tb enc pty (path ++ [⟨"parameters", none⟩]) s7 with
                    | error et =>
                      obtain ⟨e', t'⟩ := et
                      rw [hd] at he
                      simp only [R.bind_error, Except.error.injEq, Prod.mk.injEq] at he
                      obtain ⟨rfl, rfl⟩ := he
                      exact h8.errs _ _ hd
                    | ok vt =>
                      obtain ⟨pv, s8a⟩ := vt
                      rw [hd] at he
                      simp only [R.bind_ok] at he
                      obtain ⟨_, g8⟩ := h8.oks _ _ hd
                      rw [hs7, sig_append] at g8
                      obtain ⟨pre', p', hl, hsp, hc⟩ := sig_snoc_split (l := s8a.scs) (pre := s6.scs) (idn := (s0.pos + 1, some pn.toNat)) (by simpa [sig] using g8)
                      simp only [Prod.mk.injEq] at hc
                      have hne : ∀ d ∈ pre', d.id ≠ s0.pos + 1 := ids_ne_of_sig hsp hpre
                      have hfind : assertDone false (s0.pos + 1) s8a = assertDoneSC false p' { s8a with scs := pre' } := by
                        unfold assertDone
                        rw [hl, findSC_append_new (s0.pos + 1) p' pre' hc.1 hne, removeSC_append_new (s0.pos + 1) p' pre' hc.1 hne]
                      rw [hfind] at he
                      have hwi := assertDoneSC_wi p' { s8a with scs := pre' }
                      cases hx : assertDoneSC false p' { s8a with scs := pre' } with
                      | ok ut => rw [hx] at he; simp [R.bind] at he
                      | error et =>
                        obtain ⟨e', t'⟩ := et
                        rw [hx] at he hwi
                        simp only [R.bind_error, Except.error.injEq, Prod.mk.injEq] at he
                        obtain ⟨rfl, rfl⟩ := he
                        have hw1 : WErr pre' e' t' := hwi.2
                        have hw2 : WErr (pre' ++ [p']) e' t' := hw1.snoc p'
                        exact hw2.transfer (l1 := pre' ++ [p']) (l2 := s7.scs) (by
                          rw [hs7, sig_append, sig_append, hsp]; simp [sig, hc.1, hc.2])
                  · -- success: the parameterSize region is gone, the response-size region remains
                    obtain ⟨pv', s8a, hd, e8'⟩ := bind_ok_inv e8
                    obtain ⟨_, s8b, hb, e8''⟩ := bind_ok_inv e8'
                    simp only [Except.ok.injEq, Prod.mk.injEq] at e8''
                    obtain ⟨rfl, rfl⟩ := e8''
                    obtain ⟨q8, g8⟩ := h8.oks _ _ hd
                    rw [hs7, sig_append] at g8
                    obtain ⟨pre', p', hl, hsp, hc⟩ := sig_snoc_split (l := s8a.scs) (pre := s6.scs) (idn := (s0.pos + 1, some pn.toNat)) (by simpa [sig] using g8)
                    simp only [Prod.mk.injEq] at hc
                    have hne : ∀ d ∈ pre', d.id ≠ s0.pos + 1 := ids_ne_of_sig hsp hpre
                    have hfind : assertDone false (s0.pos + 1) s8a = assertDoneSC false p' { s8a with scs := pre' } := by
                      unfold assertDone
                      rw [hl, findSC_append_new (s0.pos + 1) p' pre' hc.1 hne, removeSC_append_new (s0.pos + 1) p' pre' hc.1 hne]
                    rw [hfind] at hb
                    have hwi := assertDoneSC_wi p' { s8a with scs := pre' }
                    rw [hb] at hwi
                    have o8 : OneReg s0.pos s8b.scs := OneReg.of_sig (hwi.2.trans hsp) ⟨a6, ha6s, ha6⟩
                    have q8b : s0.pos + 1 ≤ s8b.pos := by have := hwi.1; simp only [stOf] at this; omega
                    exact after _ s8b o8 q8b
          · -- no sessions
            rename_i hsess
            split
            · exact Or.inr (Or.inl (by split <;> rfl))
            · rename_i pty hp
              have wpty : pty.wf = true := by
                cases cc with
                | none => simp at hp
                | some c => exact lookupTy_wf wRP (by simpa using hp)
              have h8 := decodeArea_wi tb enc pty wpty wEnc (path ++ [⟨"parameters", none⟩]) s5 (o5.fresh (by omega))
              refine mc_wm (scs := s5.scs) ?_ (o5.own _) fun pv s8 e8 => ?_
              · intro e t he
                cases hd : decodeArea false tb enc pty (path ++ [⟨"parameters", none⟩]) s5 with
                | error et =>
                  obtain ⟨e', t'⟩ := et
                  rw [hd] at he
                  simp only [R.bind_error, Except.error.injEq, Prod.mk.injEq] at he
                  obtain ⟨rfl, rfl⟩ := he
                  exact h8.errs _ _ hd
                | ok vt =>
                  obtain ⟨pv, s8a⟩ := vt
                  rw [hd] at he
                  simp [R.bind] at he
              · obtain ⟨pv', s8a, hd, e8'⟩ := bind_ok_inv e8
                simp only [Except.ok.injEq, Prod.mk.injEq] at e8'
                obtain ⟨rfl, rfl⟩ := e8'
                obtain ⟨q8, g8⟩ := h8.oks _ _ hd
                exact after _ s8a (OneReg.of_sig g8 o5) (by omega)

theorem decodeStream_wm (tb : MsgTables) (hw : tb.wf = true) (path : Path) : ∀ (fuel : Nat) (s : St),
    WM (decodeStream false tb path fuel s) := by
  intro fuel
  induction fuel with
  | zero => intro s; exact WM.crash _ _ _
  | succ n ih =>
    intro s
    unfold decodeStream
    split
    · trivial
    · refine (decodeCommand_wm tb hw path s).bind fun cmd s1 _ => ?_
      split
      · exact WM.crash _ _ _
      · split
        · trivial
        · exact (decodeResponse_wm tb hw _ _ path s1).bind fun _ s2 _ => ih s2

/-- **warn mode, every top-level decode**: the walker ends with a result, with `depleted`, with one of the two value
errors after which the layout is unknowable, or with an internal error — never with a size error -/
theorem runWalker_wm (tb : MsgTables) (hw : tb.wf = true) (top : Top) (htop : ∀ t, top = .ty t → t.wf = true) (x : List Byte) :
    WM (runWalker false tb top x) := by
  unfold runWalker
  cases top with
  | ty t =>
    have := decode_wi t (htop t rfl) rootPath none (initSt x) (by intro c hc; cases hc)
    show WM (decode false t rootPath none (initSt x))
    cases hr : decode false t rootPath none (initSt x) with
    | ok vs => trivial
    | error es =>
      obtain ⟨e, t'⟩ := es
      rw [hr] at this
      rcases this.2 with rfl | h' | h' | ⟨cid, cp, m, a, v, b, rfl, pre, c', post, hdec, _⟩
      · exact Or.inl rfl
      · exact Or.inr (Or.inl h')
      · exact Or.inr (Or.inr h')
      · simp [initSt] at hdec
  | command => exact decodeCommand_wm tb hw rootPath _
  | response cc enc => exact decodeResponse_wm tb hw cc enc rootPath _
  | stream => exact decodeStream_wm tb hw rootPath _ _
