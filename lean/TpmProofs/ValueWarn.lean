import TpmProofs.PosInp
import TpmProofs.MsgSound
/-!
# Every out-of-range value is shown, then reported — directly, exactly once (C08 "one warning directly after each offending
event", C07 "the offending event is emitted first, then the warning" at EVERY position)

`Annot known evs`: the event list `evs` is *well annotated* — reading it from the left it consists of
* structure / list events (no value),
* field events whose value is in the declared set of the event's class (`known` looks the class name up in the primitive table),
* field events whose value is NOT in that set, each **directly followed by the warning about exactly that field**
  (`ValueConstraintViolatedError` with the event's path, class and integer),
* warnings of the other kinds (overrun, shortfall, anticipated overrun).
So no value warning stands anywhere but directly behind its offending field event, and no offending field event is without its
warning.  `VW known s r`: the events a warn-mode step adds are well annotated.  It is closed under sequencing and proved for every
walker in warn mode, for every input; the only place a value warning is emitted is `process_primitive`.
-/

inductive Annot (known : String → Option Prim) : List Event → Prop
  | nil : Annot known []
  | struct {m : MEvent} {rest : List Event} : m.val = none → Annot known rest → Annot known (.marshal m :: rest)
  | good {m : MEvent} {x : Int} {p : Prim} {rest : List Event} : m.val = some x → known m.vclass = some p → p.isValid x = true →
      Annot known rest → Annot known (.marshal m :: rest)
  | bad {m : MEvent} {x : Int} {p : Prim} {rest : List Event} : m.val = some x → known m.vclass = some p → p.isValid x = false →
      Annot known rest → Annot known (.marshal m :: .warning (.value m.path m.vclass x) :: rest)
  | other {w : Err} {rest : List Event} : (∀ pa c x, w ≠ .value pa c x) → Annot known rest → Annot known (.warning w :: rest)

theorem Annot.append {known : String → Option Prim} {a b : List Event} (ha : Annot known a) (hb : Annot known b) :
    Annot known (a ++ b) := by
  induction ha with
  | nil => exact hb
  | struct h _ ih => exact Annot.struct h ih
  | good h1 h2 h3 _ ih => exact Annot.good h1 h2 h3 ih
  | bad h1 h2 h3 _ ih => exact Annot.bad h1 h2 h3 ih
  | other h _ ih => exact Annot.other h ih

def VW {α : Type} (known : String → Option Prim) (s : St) (r : R α) : Prop :=
  ∃ new, (stOf r).out = s.out ++ new ∧ Annot known (new.map (·.2))

variable {known : String → Option Prim}

theorem VW.quiet {α : Type} {s : St} {r : R α} (h : (stOf r).out = s.out) : VW known s r :=
  ⟨[], by simp [h], Annot.nil⟩

theorem VW.ok {α : Type} (s : St) (a : α) : VW known s (.ok (a, s) : R α) := VW.quiet rfl
theorem VW.err {α : Type} (s : St) (e : Err) : VW known s (.error (e, s) : R α) := VW.quiet rfl
theorem VW.crash {α : Type} (s : St) (c m : String) : VW known s (crash c m s : R α) := VW.quiet rfl

theorem VW.bind {α β : Type} {s : St} {r : R α} {f : α → St → R β} (h : VW known s r)
    (hf : ∀ a t, r = .ok (a, t) → VW known t (f a t)) : VW known s (r.bind f) := by
  cases r with
  | error e => obtain ⟨e, t⟩ := e; exact h
  | ok at' =>
    obtain ⟨a, t⟩ := at'
    obtain ⟨n1, h1, a1⟩ := h
    obtain ⟨n2, h2, a2⟩ := hf a t rfl
    simp only [stOf] at h1
    refine ⟨n1 ++ n2, ?_, by rw [List.map_append]; exact a1.append a2⟩
    simp only [R.bind_ok]
    rw [h2, h1, List.append_assoc]

/-- the start state may differ in everything but the trace -/
theorem VW.of_out {α : Type} {s s' : St} {r : R α} (h : VW known s' r) (ho : s'.out = s.out) : VW known s r := by
  obtain ⟨n, h1, a⟩ := h
  exact ⟨n, by rw [h1, ho], a⟩

/-- a structure / list event emitted first -/
theorem VW.emitS {α : Type} {s : St} {r : R α} {ev : MEvent} (h : VW known (emitM ev s) r) (hv : ev.val = none) : VW known s r := by
  obtain ⟨n, h1, a⟩ := h
  refine ⟨(s.pos, .marshal ev) :: n, by rw [h1]; simp [emitM, emit], ?_⟩
  simp only [List.map_cons]
  exact Annot.struct hv a

/-- a warning that is not about a value emitted first -/
theorem VW.emitO {α : Type} {s : St} {r : R α} {w : Err} (h : VW known (emitW w s) r) (hw : ∀ pa c x, w ≠ .value pa c x) : VW known s r := by
  obtain ⟨n, h1, a⟩ := h
  refine ⟨(s.pos, .warning w) :: n, by rw [h1]; simp [emitW, emit], ?_⟩
  simp only [List.map_cons]
  exact Annot.other hw a

/-- a warning that is not about a value appended to what a step did (the owners' `except`) -/
theorem VW.snocO {α β : Type} {s t : St} {e : Err} {b : β} (w : Err) (hw : ∀ pa c x, w ≠ .value pa c x)
    (h : VW known s (.error (e, t) : R α)) : VW known s (.ok (b, emitW w t) : R β) := by
  obtain ⟨n, h1, a⟩ := h
  simp only [stOf] at h1
  refine ⟨n ++ [(t.pos, .warning w)], by simp [stOf, emitW, emit, h1], ?_⟩
  rw [List.map_append]
  exact a.append (Annot.other hw Annot.nil)

theorem VW.retype {α β : Type} {s t : St} {e : Err} (h : VW known s (.error (e, t) : R α)) : VW known s (.error (e, t) : R β) := h

/-! ## leaves -/

theorem take_out (n : Nat) (s : St) : (stOf (take n s)).out = s.out := by
  unfold take; split <;> rfl

theorem bind_out {α β : Type} {s : St} {r : R α} {f : α → St → R β} (h : (stOf r).out = s.out)
    (hf : ∀ a t, r = .ok (a, t) → (stOf (f a t)).out = t.out) : (stOf (r.bind f)).out = s.out := by
  cases r with
  | error e => obtain ⟨e, t⟩ := e; exact h
  | ok at' => obtain ⟨a, t⟩ := at'; simp only [R.bind_ok]; rw [hf a t rfl]; exact h

theorem consume_out (n : Nat) (s : St) : (stOf (consume n s)).out = s.out := by
  unfold consume; exact bind_out (take_out n s) (fun _ t _ => rfl)

theorem bpGo_out (path : Path) (size : Nat) : ∀ (todo done : List SC) (s : St), (stOf (bpGo path size done todo s)).out = s.out := by
  intro todo
  induction todo with
  | nil => intro done s; simp [bpGo, stOf]
  | cons c rest ih =>
    intro done s
    unfold bpGo
    split
    · exact bind_out (s := { s with scs := done.map fun d => { d with already := d.already - (size - (c.max.getD 0 - c.already)) } })
        (consume_out _ _) (fun _ t _ => rfl)
    · exact ih _ _

theorem bytesParsed_vw (path : Path) (size : Nat) (s : St) : VW known s (bytesParsed path size s) :=
  VW.quiet (bpGo_out path size s.scs [] s)

theorem readPrim_vw (p : Prim) (hk : known p.name = some p) (path : Path) (s : St) : VW known s (readPrim false p path s) := by
  unfold readPrim
  refine (bytesParsed_vw path p.size s).bind fun _ t _ => (VW.quiet (take_out p.size t)).bind fun bs t2 _ => ?_
  simp only [Bool.false_eq_true, if_false]
  split
  · rename_i hv
    exact ⟨[(t2.pos, .marshal ⟨path, .named p.name false, some (p.ofBytes bs), p.name, p.size⟩)], by simp [stOf, emitM, emit],
      Annot.good (p := p) rfl hk hv Annot.nil⟩
  · rename_i hv
    exact ⟨[(t2.pos, .marshal ⟨path, .named p.name false, some (p.ofBytes bs), p.name, p.size⟩),
        (t2.pos, .warning (.value path p.name (p.ofBytes bs)))], by simp [stOf, emitM, emitW, emit],
      Annot.bad (p := p) (m := ⟨path, .named p.name false, some (p.ofBytes bs), p.name, p.size⟩) rfl hk (by simpa using hv) Annot.nil⟩

theorem anticipate_not_value (vpath : Path) (v id : Nat) : ∀ (scs : List SC) (e : Err), anticipate vpath v id scs = some e →
    ∀ pa c x, e ≠ .value pa c x := by
  intro scs
  induction scs with
  | nil => intro e h; simp [anticipate] at h
  | cons d rest ih =>
    intro e h pa c x
    unfold anticipate at h
    split at h
    · exact ih e h pa c x
    · split at h
      · simp only [Option.some.injEq] at h; subst h; intro hh; cases hh
      · exact ih e h pa c x

theorem anticipateM_vw (vpath : Path) (v id : Nat) (s : St) : VW known s (anticipateM false vpath v id s) := by
  unfold anticipateM
  split
  · exact VW.ok _ _
  · rename_i e he
    simp only [Bool.false_eq_true, if_false]
    exact VW.emitO (VW.ok _ _) (anticipate_not_value vpath v id s.scs e he)

theorem openRegion_vw (id : Nat) (cpath : Path) (n : Nat) (s : St) : VW known s (openRegion false id cpath n s) := by
  unfold openRegion
  exact (anticipateM_vw cpath n id s).bind fun _ t _ => VW.of_out (VW.ok _ _) rfl

theorem setListed_vw (id : Nat) (cpath : Path) (n : Nat) (s : St) : VW known s (setListed false id cpath n s) := by
  unfold setListed
  exact VW.of_out (anticipateM_vw cpath n id _) rfl

theorem assertDoneSC_vw (c : SC) (s : St) : VW known s (assertDoneSC false c s) := by
  unfold assertDoneSC
  cases hm : c.max with
  | none => exact VW.crash _ _ _
  | some m =>
    simp only []
    by_cases heq : c.already = m
    · simp only [heq, if_true]; exact VW.ok _ _
    · simp only [heq, Bool.false_eq_true, if_false]
      refine VW.emitO (w := .subceeded c.id c.path m c.already) ?_ (by intro pa c' x h; cases h)
      split
      · exact (bytesParsed_vw _ _ _).bind fun _ t _ => VW.quiet (consume_out _ t)
      · exact VW.ok _ _

theorem assertDone_vw (id : Nat) (s : St) : VW known s (assertDone false id s) := by
  unfold assertDone
  split
  · exact VW.crash _ _ _
  · exact VW.of_out (assertDoneSC_vw _ _) rfl

theorem repeatDec_vw (f : Path → St → R Val) (hf : ∀ p s, VW known s (f p s)) (path : Path) :
    ∀ (n i : Nat) (s : St), VW known s (repeatDec f path n i s) := by
  intro n
  induction n with
  | zero => intro i s; exact VW.ok _ _
  | succ m ih =>
    intro i s
    unfold repeatDec
    exact (hf _ s).bind fun v t _ => (ih (i+1) t).bind fun vs t2 _ => VW.ok _ _

theorem readPrimList_vw (p : Prim) (hk : known p.name = some p) (path : Path) (n : Nat) (s : St) :
    VW known s (readPrimList false p path n s) := by
  unfold readPrimList
  exact VW.emitS ((repeatDec_vw _ (fun q s => readPrim_vw p hk q s) path n 0 _).bind fun vs t _ => VW.ok _ _) rfl

theorem ownCatch_vw {id : Nat} {s : St} {r : R Val} {k : Val → St → R Val} (hr : VW known s r)
    (hk : ∀ v t, r = .ok (v, t) → VW known t (k v t)) : VW known s (ownCatch false id r k) := by
  cases r with
  | ok vs =>
    obtain ⟨v, t⟩ := vs
    have := VW.bind (f := k) hr hk
    simpa [ownCatch, R.bind] using this
  | error es =>
    obtain ⟨e, t⟩ := es
    cases e with
    | exceeded cid cp m a v b =>
      simp only [ownCatch, Bool.false_or]
      split
      · exact hr
      · exact VW.snocO _ (by intro pa c x h; cases h) hr
    | _ => exact hr

theorem msgCatch_vw {id1 id2 : Nat} {name : String} {vals : List (String × Val)} {s : St} {r : R Val} {k : Val → St → R Val}
    (hr : VW known s r) (hk : ∀ v t, r = .ok (v, t) → VW known t (k v t)) : VW known s (msgCatch false id1 id2 name vals r k) := by
  cases r with
  | ok vs =>
    obtain ⟨v, t⟩ := vs
    have := VW.bind (f := k) hr hk
    simpa [msgCatch, R.bind] using this
  | error es =>
    obtain ⟨e, t⟩ := es
    cases e with
    | exceeded cid cp m a v b =>
      simp only [msgCatch, Bool.false_or]
      split
      · exact hr
      · exact VW.snocO _ (by intro pa c x h; cases h) hr
    | _ => exact hr

/-! ## static side condition: every primitive type a layout mentions is the table's entry for its name -/

mutual
def Ty.pk (k : Prim → Bool) : Ty → Bool
  | .prim p => k p
  | .struct _ _ fs => fs.pk k
  | .tpm2bBytes _ _ szP _ elem => k szP && k elem
  | .tpm2b _ _ szP _ body => k szP && body.pk k
  | .union _ arms => arms.pk k
  | .bad _ => true
def Fields.pk (k : Prim → Bool) : Fields → Bool
  | .nil => true
  | .cons _ _ t rest => t.pk k && rest.pk k
def Arms.pk (k : Prim → Bool) : Arms → Bool
  | .nil => true
  | .consNone _ _ rest => rest.pk k
  | .cons _ _ t rest => t.pk k && rest.pk k
  | .consBytes _ _ elem _ rest => k elem && rest.pk k
end

theorem fieldWith_vw (d : Path → Option Int → St → R Val) (hd : ∀ p sel s, VW known s (d p sel s))
    (tname : String) (kind : FKind) (fpath : Path) (vals : List (String × Val)) (s : St) :
    VW known s (decodeFieldWith d tname kind fpath vals s) := by
  cases kind with
  | plain => exact hd _ _ _
  | selected sel =>
    simp only [decodeFieldWith]
    split
    · exact VW.crash _ _ _
    · exact hd _ _ _
  | counted =>
    simp only [decodeFieldWith]
    split
    · exact VW.crash _ _ _
    · exact VW.emitS ((repeatDec_vw _ (fun p s => hd p none s) fpath _ 0 _).bind fun vs t _ => VW.ok _ _) rfl

def kn (known : String → Option Prim) (p : Prim) : Bool := decide (known p.name = some p)

mutual
theorem decode_vw : (t : Ty) → t.pk (kn known) = true → ∀ (path : Path) (sel : Option Int) (s : St), VW known s (decode false t path sel s)
  | .prim p, hk, path, sel, s => by
    simp only [decode]; exact readPrim_vw p (by simpa [Ty.pk, kn] using hk) path s
  | .struct name isP fs, hk, path, sel, s => by
    simp only [decode]
    exact VW.emitS ((fields_vw fs (by simpa [Ty.pk] using hk) path [] _).bind fun vals t _ => VW.ok _ _) rfl
  | .tpm2bBytes name szName szP bufName elem, hk, path, sel, s => by
    simp only [Ty.pk, Bool.and_eq_true, kn, decide_eq_true_eq] at hk
    simp only [decode]
    refine VW.emitS ((readPrim_vw szP hk.1 _ _).bind fun nv s1 _ => ?_) rfl
    split
    · exact VW.crash _ _ _
    · exact (openRegion_vw _ _ _ _).bind fun _ s2 _ => (readPrimList_vw elem hk.2 _ _ s2).bind fun bv s3 _ =>
        (assertDone_vw _ s3).bind fun _ s4 _ => VW.ok _ _
  | .tpm2b name szName szP bufName body, hk, path, sel, s => by
    simp only [Ty.pk, Bool.and_eq_true] at hk
    simp only [decode]
    refine VW.emitS ((readPrim_vw szP (by simpa [kn] using hk.1) _ _).bind fun nv s1 _ => ?_) rfl
    split
    · exact VW.crash _ _ _
    · refine (openRegion_vw _ _ _ _).bind fun _ s2 _ => ?_
      split
      · exact VW.emitS ((assertDone_vw _ _).bind fun _ s4 _ => VW.ok _ _) rfl
      · exact ownCatch_vw (decode_vw body hk.2 _ none s2) fun bv s3 _ => (assertDone_vw _ s3).bind fun _ s4 _ => VW.ok _ _
  | .union name arms, hk, path, sel, s => by
    simp only [decode]
    refine VW.emitS (ev := ⟨path, .named name false, none, "", 0⟩) ?_ rfl
    split
    · split <;> exact VW.err _ _
    · exact arm_vw arms (by simpa [Ty.pk] using hk) name _ path _
  | .bad r, _, path, sel, s => by simp only [decode]; exact VW.crash _ _ _

theorem arm_vw : (arms : Arms) → arms.pk (kn known) = true → ∀ (un want : String) (path : Path) (s : St),
    VW known s (decodeArm false arms un want path s)
  | .nil, _, un, want, path, s => by simp only [decodeArm]; exact VW.crash _ _ _
  | .consNone an key rest, hk, un, want, path, s => by
    simp only [decodeArm]
    split
    · exact VW.ok _ _
    · exact arm_vw rest (by simpa [Arms.pk] using hk) un want path s
  | .cons an key t rest, hk, un, want, path, s => by
    simp only [Arms.pk, Bool.and_eq_true] at hk
    simp only [decodeArm]
    split
    · exact (decode_vw t hk.1 _ none s).bind fun v t' _ => VW.ok _ _
    · exact arm_vw rest hk.2 un want path s
  | .consBytes an key elem n rest, hk, un, want, path, s => by
    simp only [Arms.pk, Bool.and_eq_true, kn, decide_eq_true_eq] at hk
    simp only [decodeArm]
    split
    · cases n with
      | none => simp only [readListArm]; exact (VW.crash _ _ _).bind fun v t' _ => VW.ok _ _
      | some c => simp only [readListArm]; exact (readPrimList_vw elem hk.1 _ c s).bind fun v t' _ => VW.ok _ _
    · exact arm_vw rest (by simpa [kn] using hk.2) un want path s

theorem fields_vw : (fs : Fields) → fs.pk (kn known) = true → ∀ (path : Path) (vals : List (String × Val)) (s : St),
    VW known s (decodeFields false fs path vals s)
  | .nil, _, path, vals, s => by simp only [decodeFields]; exact VW.ok _ _
  | .cons fname kind t rest, hk, path, vals, s => by
    simp only [Fields.pk, Bool.and_eq_true] at hk
    simp only [decodeFields]
    exact (fieldWith_vw _ (fun p sel s => decode_vw t hk.1 p sel s) t.name kind _ vals s).bind fun v t' _ =>
      fields_vw rest hk.2 path _ t'
end

/-! ## messages -/

theorem dropSelectors_pk (k : Prim → Bool) : ∀ (fs : Fields), fs.pk k = true → fs.dropSelectors.pk k = true
  | .nil, _ => rfl
  | .cons f kind t rest, h => by
    simp only [Fields.pk, Bool.and_eq_true] at h
    cases kind <;> simp [Fields.dropSelectors, Fields.pk, h.1, dropSelectors_pk k rest h.2]

theorem encVariant_pk {k : Prim → Bool} {encParam t : Ty} {name : String} {fs : Fields} (he : encParam.pk k = true) (ht : t.pk k = true)
    (h : encVariant encParam t = some (name, fs)) : fs.pk k = true := by
  cases t with
  | struct n p fields =>
    cases fields with
    | nil => simp [encVariant] at h
    | cons f kind ft rest =>
      simp only [encVariant] at h
      split at h
      · simp only [Option.some.injEq, Prod.mk.injEq] at h
        obtain ⟨_, rfl⟩ := h
        simp only [Ty.pk, Fields.pk, Bool.and_eq_true] at ht
        simp [Fields.pk, he, dropSelectors_pk k rest ht.2]
      · simp at h
  | _ => simp [encVariant] at h

def MsgTables.pk (tb : MsgTables) (k : Prim → Bool) : Bool :=
  k tb.tagCmd && k tb.cmdSize && k tb.cc && k tb.authSize && tb.authCmd.pk k &&
  k tb.tagRsp && k tb.rspSize && k tb.rc && k tb.paramSize && tb.authRsp.pk k && tb.encParam.pk k &&
  tb.cmdHandles.all (·.2.pk k) && tb.cmdParams.all (·.2.pk k) && tb.rspHandles.all (·.2.pk k) && tb.rspParams.all (·.2.pk k)

theorem lookupTy_pk {k : Prim → Bool} {m : List (Int × Ty)} (h : m.all (·.2.pk k) = true) {key : Int} {t : Ty} (hl : lookupTy m key = some t) :
    t.pk k = true := by
  unfold lookupTy at hl
  simp only [Option.map_eq_some_iff] at hl
  obtain ⟨⟨k', t'⟩, hf, rfl⟩ := hl
  exact List.all_eq_true.mp h _ (List.mem_of_find?_eq_some hf)

theorem decodeArea_vw (tb : MsgTables) (enc : Bool) (t : Ty) (ht : t.pk (kn known) = true) (he : tb.encParam.pk (kn known) = true)
    (path : Path) (s : St) : VW known s (decodeArea false tb enc t path s) := by
  unfold decodeArea
  split
  · cases henc : encVariant tb.encParam t with
    | none => simp only []; exact decode_vw t ht path none s
    | some nf =>
      obtain ⟨name, fs⟩ := nf
      simp only []
      exact VW.emitS ((fields_vw fs (encVariant_pk he ht henc) path [] _).bind fun vals t' _ => VW.ok _ _) rfl
  · exact decode_vw t ht path none s

theorem sizedLoop_vw (t : Ty) (ht : t.pk (kn known) = true) (path : Path) (cid : Nat) : ∀ (fuel i : Nat) (acc : List Val) (s : St),
    VW known s (sizedLoop false t path cid fuel i acc s) := by
  intro fuel
  induction fuel with
  | zero => intro i acc s; exact VW.crash _ _ _
  | succ n ih =>
    intro i acc s
    unfold sizedLoop
    split
    · exact VW.crash _ _ _
    · split
      · exact VW.crash _ _ _
      · split
        · exact ownCatch_vw (decode_vw t ht _ none s) fun v s1 _ => ih _ _ s1
        · exact VW.of_out ((assertDoneSC_vw _ _).bind fun _ t' _ => VW.ok _ _) rfl

theorem decodeSized_vw (t : Ty) (ht : t.pk (kn known) = true) (path : Path) (cid : Nat) (s : St) :
    VW known s (decodeSized false t path cid s) := by
  unfold decodeSized
  exact VW.emitS (sizedLoop_vw t ht path cid _ 0 [] _) rfl

/-- the two value errors that are *raised* (unknown command code, selector without member) are no events -/
theorem decodeCommand_vw (tb : MsgTables) (hk : tb.pk (kn known) = true) (path : Path) (s0 : St) :
    VW known s0 (decodeCommand false tb path s0) := by
  simp only [MsgTables.pk, Bool.and_eq_true, kn, decide_eq_true_eq] at hk
  obtain ⟨⟨⟨⟨⟨⟨⟨⟨⟨⟨⟨⟨⟨⟨kTag, kCsz⟩, kCc⟩, kAsz⟩, kAuth⟩, _⟩, _⟩, _⟩, _⟩, _⟩, kEnc⟩, kCH⟩, kCP⟩, _⟩, _⟩ := hk
  unfold decodeCommand
  simp only []
  refine VW.of_out (s' := emitM ⟨path, .named "Command" false, none, "", 0⟩ s0) ?_ rfl |> fun h => VW.emitS h rfl
  refine VW.of_out (s' := emitM ⟨path, .named "Command" false, none, "", 0⟩ { s0 with scs := [⟨s0.pos, [], 0, none⟩] }) ?_ rfl
  refine msgCatch_vw (readPrim_vw _ kTag _ _) fun tag s1 _ => ?_
  refine msgCatch_vw (readPrim_vw _ kCsz _ _) fun csz s2 _ => ?_
  split
  · exact VW.crash _ _ _
  · split
    · exact VW.crash _ _ _
    · refine (setListed_vw _ _ _ _).bind fun _ s3 _ => ?_
      refine msgCatch_vw (readPrim_vw _ kCc _ _) fun ccv s4 _ => ?_
      split
      · exact VW.err _ _
      · rename_i hty hh
        refine msgCatch_vw (decodeArea_vw tb false hty (lookupTy_pk kCH hh) kEnc _ _) fun hv s5 _ => ?_
        have tail : ∀ (vals : List (String × Val)) (enc : Bool) (s6 : St),
            VW known s6 (match lookupTy tb.cmdParams ((vInt ccv).getD 0) with
              | none => (.error (.value (path ++ [(⟨"commandCode", none⟩ : PathNode)]) tb.cc.name ((vInt ccv).getD 0), s6) : R Val)
              | some pty =>
                msgCatch false s0.pos (s0.pos + 1) "Command" vals
                  (decodeArea false tb enc pty (path ++ [(⟨"parameters", none⟩ : PathNode)]) s6) fun pv s =>
                  (assertDone false s0.pos s).bind fun _ s => .ok (.obj "Command" false (vals ++ [("parameters", pv)]), s)) := by
          intro vals enc s6
          split
          · exact VW.err _ _
          · rename_i pty hp
            exact msgCatch_vw (decodeArea_vw tb enc pty (lookupTy_pk kCP hp) kEnc _ _) fun pv s7 _ =>
              (assertDone_vw _ s7).bind fun _ s8 _ => VW.ok _ _
        split
        · refine msgCatch_vw (readPrim_vw _ kAsz _ _) fun asz s6 _ => ?_
          split
          · exact VW.crash _ _ _
          · split
            · exact VW.crash _ _ _
            · refine (openRegion_vw _ _ _ _).bind fun _ s7 _ => ?_
              refine msgCatch_vw (decodeSized_vw tb.authCmd kAuth _ _ _) fun area s8 _ => ?_
              split
              · exact VW.crash _ _ _
              · exact tail _ _ s8
        · exact tail _ false s5

set_option maxHeartbeats 1000000 in
theorem decodeResponse_vw (tb : MsgTables) (hk : tb.pk (kn known) = true) (cc : Option Int) (enc : Bool) (path : Path) (s0 : St) :
    VW known s0 (decodeResponse false tb cc enc path s0) := by
  simp only [MsgTables.pk, Bool.and_eq_true, kn, decide_eq_true_eq] at hk
  obtain ⟨⟨⟨⟨⟨⟨⟨⟨⟨⟨⟨⟨⟨⟨_, _⟩, _⟩, _⟩, _⟩, kTag⟩, kRsz⟩, kRc⟩, kPsz⟩, kAuth⟩, kEnc⟩, _⟩, _⟩, kRH⟩, kRP⟩ := hk
  unfold decodeResponse
  simp only []
  refine VW.emitS (ev := ⟨path, .named "Response" false, none, "", 0⟩) ?_ rfl
  refine VW.of_out (s' := emitM ⟨path, .named "Response" false, none, "", 0⟩ { s0 with scs := [⟨s0.pos, [], 0, none⟩] }) ?_ rfl
  have finish : ∀ (vals : List (String × Val)) (s : St),
      VW known s ((assertDone false s0.pos s).bind fun _ s =>
        if s.scs.isEmpty then (.ok (.obj "Response" false vals, s) : R Val)
        else crash "AssertionError" "size_constraints.assert_done()" s) := by
    intro vals s
    refine (assertDone_vw _ s).bind fun _ t _ => ?_
    split
    · exact VW.ok _ _
    · exact VW.crash _ _ _
  refine msgCatch_vw (readPrim_vw _ kTag _ _) fun tag s1 _ => ?_
  refine msgCatch_vw (readPrim_vw _ kRsz _ _) fun rsz s2 _ => ?_
  split
  · exact VW.crash _ _ _
  · split
    · exact VW.crash _ _ _
    · refine (setListed_vw _ _ _ _).bind fun _ s3 _ => ?_
      refine msgCatch_vw (readPrim_vw _ kRc _ _) fun rcv s4 _ => ?_
      split
      · exact finish _ _
      · split
        · exact VW.err _ _
        · rename_i hty hh
          have khty : hty.pk (kn known) = true := by
            cases cc with
            | none => simp at hh
            | some c => exact lookupTy_pk kRH (by simpa using hh)
          refine msgCatch_vw (decodeArea_vw tb enc hty khty kEnc _ _) fun hv s5 _ => ?_
          have after : ∀ (vals : List (String × Val)) (s8 : St),
              VW known s8 (if (!(vInt tag == some tb.sessionsTag)) = true then
                  (assertDone false s0.pos s8).bind fun _ s =>
                    if s.scs.isEmpty then (.ok (.obj "Response" false vals, s) : R Val)
                    else crash "AssertionError" "size_constraints.assert_done()" s
                else
                  msgCatch false s0.pos (s0.pos + 1) "Response" vals
                    (decodeSized false tb.authRsp (path ++ [(⟨"authorizationArea", none⟩ : PathNode)]) s0.pos s8) fun area s =>
                    match areaFlag tb.authRsp "encrypt" area with
                    | .error cls => crash cls "is_parameter_encryption" s
                    | .ok expected =>
                      if expected != enc then crash "AssertionError" "process_response: parameter_encryption mismatch" s else
                      if s.scs.isEmpty then .ok (.obj "Response" false (vals ++ [("authorizationArea", area)]), s)
                      else crash "AssertionError" "size_constraints.assert_done()" s) := by
            intro vals s8
            split
            · exact finish _ _
            · refine msgCatch_vw (decodeSized_vw tb.authRsp kAuth _ _ _) fun area s9 _ => ?_
              split
              · exact VW.crash _ _ _
              · split
                · exact VW.crash _ _ _
                · split
                  · exact VW.ok _ _
                  · exact VW.crash _ _ _
          split
          · refine msgCatch_vw (readPrim_vw _ kPsz _ _) fun psz s6 _ => ?_
            split
            · exact VW.crash _ _ _
            · split
              · exact VW.crash _ _ _
              · refine (openRegion_vw _ _ _ _).bind fun _ s7 _ => ?_
                split
                · exact VW.err _ _
                · rename_i pty hp
                  have kpty : pty.pk (kn known) = true := by
                    cases cc with
                    | none => simp at hp
                    | some c => exact lookupTy_pk kRP (by simpa using hp)
                  refine msgCatch_vw ((decodeArea_vw tb enc pty kpty kEnc _ _).bind fun pv s8 _ =>
                    (assertDone_vw _ s8).bind fun _ s9 _ => VW.ok _ _) fun pv s8 _ => ?_
                  exact after _ s8
          · split
            · exact VW.err _ _
            · rename_i pty hp
              have kpty : pty.pk (kn known) = true := by
                cases cc with
                | none => simp at hp
                | some c => exact lookupTy_pk kRP (by simpa using hp)
              refine msgCatch_vw ((decodeArea_vw tb enc pty kpty kEnc _ _).bind fun pv s8 _ => VW.ok _ _) fun pv s8 _ => ?_
              exact after _ s8

theorem decodeStream_vw (tb : MsgTables) (hk : tb.pk (kn known) = true) (path : Path) : ∀ (fuel : Nat) (s : St),
    VW known s (decodeStream false tb path fuel s) := by
  intro fuel
  induction fuel with
  | zero => intro s; exact VW.crash _ _ _
  | succ n ih =>
    intro s
    unfold decodeStream
    split
    · exact VW.emitS (VW.ok _ _) rfl
    · refine (decodeCommand_vw tb hk path s).bind fun cmd s1 _ => ?_
      split
      · exact VW.crash _ _ _
      · split
        · exact VW.emitS (VW.ok _ _) rfl
        · exact (decodeResponse_vw tb hk _ _ path s1).bind fun _ s2 _ => ih s2

/-- **every warn-mode decode** (every layout whose primitives are the table's, commands, responses, streams; EVERY input): the
trace is well annotated -/
theorem runWalker_vw (tb : MsgTables) (hk : tb.pk (kn known) = true) (top : Top) (htop : ∀ t, top = .ty t → t.pk (kn known) = true)
    (x : List Byte) : Annot known ((stOf (runWalker false tb top x)).out.map (·.2)) := by
  have : VW known (initSt x) (runWalker false tb top x) := by
    unfold runWalker
    cases top with
    | ty t => exact decode_vw t (htop t rfl) rootPath none _
    | command => exact decodeCommand_vw tb hk rootPath _
    | response cc enc => exact decodeResponse_vw tb hk cc enc rootPath _
    | stream => exact decodeStream_vw tb hk rootPath _ _
  obtain ⟨new, h1, a⟩ := this
  simp only [initSt, List.nil_append] at h1
  rw [h1]; exact a

/-! ## what a well-annotated trace says, position by position -/

/-- every value warning stands directly behind the event of the field it is about, and that field's value is outside the declared
set of its class -/
theorem Annot.warning_follows {evs : List Event} (h : Annot known evs) :
    ∀ (pre : List Event) (pa : Path) (c : String) (x : Int) (post : List Event), evs = pre ++ .warning (.value pa c x) :: post →
      ∃ pre' m p, pre = pre' ++ [.marshal m] ∧ m.path = pa ∧ m.vclass = c ∧ m.val = some x ∧ known c = some p ∧ p.isValid x = false := by
  induction h with
  | nil => intro pre pa c x post h; simp at h
  | @struct m rest hv _ ih =>
    intro pre pa c x post h
    cases pre with
    | nil => simp at h
    | cons e pre' =>
      simp only [List.cons_append, List.cons.injEq] at h
      obtain ⟨q, m', p, hq, r⟩ := ih pre' pa c x post h.2
      exact ⟨e :: q, m', p, by rw [hq]; rfl, r⟩
  | @good m y p rest hv hk hval _ ih =>
    intro pre pa c x post h
    cases pre with
    | nil => simp at h
    | cons e pre' =>
      simp only [List.cons_append, List.cons.injEq] at h
      obtain ⟨q, m', p', hq, r⟩ := ih pre' pa c x post h.2
      exact ⟨e :: q, m', p', by rw [hq]; rfl, r⟩
  | @bad m y p rest hv hk hval _ ih =>
    intro pre pa c x post h
    cases pre with
    | nil => simp at h
    | cons e pre' =>
      simp only [List.cons_append, List.cons.injEq] at h
      cases pre' with
      | nil =>
        simp only [List.nil_append, List.cons.injEq, Event.warning.injEq, Err.value.injEq] at h
        obtain ⟨rfl, ⟨rfl, rfl, rfl⟩, _⟩ := h
        exact ⟨[], m, p, rfl, rfl, rfl, hv, hk, hval⟩
      | cons e2 pre2 =>
        simp only [List.cons_append, List.cons.injEq] at h
        obtain ⟨q, m', p', hq, r⟩ := ih pre2 pa c x post h.2.2
        exact ⟨e :: e2 :: q, m', p', by rw [hq]; rfl, r⟩
  | @other w rest hw _ ih =>
    intro pre pa c x post h
    cases pre with
    | nil =>
      simp only [List.nil_append, List.cons.injEq, Event.warning.injEq] at h
      exact absurd h.1 (hw pa c x)
    | cons e pre' =>
      simp only [List.cons_append, List.cons.injEq] at h
      obtain ⟨q, m', p, hq, r⟩ := ih pre' pa c x post h.2
      exact ⟨e :: q, m', p, by rw [hq]; rfl, r⟩

/-- every field event whose value is outside the declared set of its class is directly followed by the warning about exactly it -/
theorem Annot.offender_warned {evs : List Event} (h : Annot known evs) :
    ∀ (pre : List Event) (m : MEvent) (x : Int) (p : Prim) (post : List Event), evs = pre ++ .marshal m :: post →
      m.val = some x → known m.vclass = some p → p.isValid x = false →
      ∃ post', post = .warning (.value m.path m.vclass x) :: post' := by
  induction h with
  | nil => intro pre m x p post h; simp at h
  | @struct m0 rest hv _ ih =>
    intro pre m x p post h hx hk hb
    cases pre with
    | nil =>
      simp only [List.nil_append, List.cons.injEq, Event.marshal.injEq] at h
      rw [h.1] at hv; rw [hv] at hx; cases hx
    | cons e pre' =>
      simp only [List.cons_append, List.cons.injEq] at h
      exact ih pre' m x p post h.2 hx hk hb
  | @good m0 y p0 rest hv hk0 hval _ ih =>
    intro pre m x p post h hx hk hb
    cases pre with
    | nil =>
      simp only [List.nil_append, List.cons.injEq, Event.marshal.injEq] at h
      obtain ⟨rfl, _⟩ := h
      rw [hv] at hx; simp only [Option.some.injEq] at hx; subst hx
      rw [hk0] at hk; simp only [Option.some.injEq] at hk; subst hk
      rw [hval] at hb; cases hb
    | cons e pre' =>
      simp only [List.cons_append, List.cons.injEq] at h
      exact ih pre' m x p post h.2 hx hk hb
  | @bad m0 y p0 rest hv hk0 hval _ ih =>
    intro pre m x p post h hx hk hb
    cases pre with
    | nil =>
      simp only [List.nil_append, List.cons.injEq, Event.marshal.injEq] at h
      obtain ⟨rfl, rfl⟩ := h
      rw [hv] at hx; simp only [Option.some.injEq] at hx; subst hx
      exact ⟨rest, rfl⟩
    | cons e pre' =>
      simp only [List.cons_append, List.cons.injEq] at h
      cases pre' with
      | nil => simp at h
      | cons e2 pre2 =>
        simp only [List.cons_append, List.cons.injEq] at h
        exact ih pre2 m x p post h.2.2 hx hk hb
  | @other w rest hw _ ih =>
    intro pre m x p post h hx hk hb
    cases pre with
    | nil => simp at h
    | cons e pre' =>
      simp only [List.cons_append, List.cons.injEq] at h
      exact ih pre' m x p post h.2 hx hk hb
