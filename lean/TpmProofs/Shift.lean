import TpmProofs.MsgSound
/-!
# Decoding a message does not depend on where in the input it starts, nor on what follows it

`shiftSt d y pre s`: the state `s` seen `d` bytes further into a longer input — the remaining input extended by `y`, the position
and every region id moved by `d`, the trace re-stamped and put behind the events `pre` of what came before.  For every walker, in
either mode: unless the run from `s` runs out of input (`depleted` — with more input behind it would go on), the run from the shifted
state is the shifted run:

    ND (decode abort t path sel s) → decode abort t path sel (shiftSt d y pre s) = shiftR d y pre (decode abort t path sel s)

(region ids are only ever compared with each other, so moving them all by `d` changes nothing; overruns that are caught and reported
carry the moved id).  This is what makes a stream decode the concatenation of its messages' decodes for ARBITRARY messages — also
malformed ones in warn mode — as long as each message, decoded on its own, is consumed completely (`Props/C09S.lean`).
-/

section
variable (d : Nat) (y : List Byte) (pre : List (Nat × Event))

def shErr : Err → Err
  | .exceeded cid cp m a v b => .exceeded (cid + d) cp m a v b
  | .subceeded cid cp m a => .subceeded (cid + d) cp m a
  | .anticipated cid cp m a v x b => .anticipated (cid + d) cp m a v x b
  | e => e

def shEv : Event → Event
  | .marshal m => .marshal m
  | .warning e => .warning (shErr d e)

def shSC (c : SC) : SC := { c with id := c.id + d }

def shiftSt (s : St) : St :=
  { inp := s.inp ++ y, pos := s.pos + d, out := pre ++ s.out.map (fun ke => (ke.1 + d, shEv d ke.2)), scs := s.scs.map (shSC d) }

def shiftR {α : Type} : R α → R α
  | .ok (a, s) => .ok (a, shiftSt d y pre s)
  | .error (e, s) => .error (shErr d e, shiftSt d y pre s)

/-- the run does not end for lack of input -/
def ND {α : Type} (r : R α) : Prop := y = [] ∨ ∀ t, r ≠ .error (.depleted, t)

variable {d y pre}

theorem ND.of_bind {α β : Type} {r : R α} {k : α → St → R β} (h : ND y (r.bind k)) : ND y r := by
  rcases h with hy | h
  · exact Or.inl hy
  · refine Or.inr (fun t hr => ?_)
    rw [hr] at h
    exact h t rfl

theorem ND.cont {α β : Type} {r : R α} {k : α → St → R β} (h : ND y (r.bind k)) {a : α} {t : St} (hr : r = .ok (a, t)) : ND y (k a t) := by
  rw [hr] at h; exact h

theorem sh_bind {α β : Type} {r r' : R α} {k k' : α → St → R β} (hnd : ND y (r.bind k)) (hr : ND y r → r' = shiftR d y pre r)
    (hk : ∀ a t, r = .ok (a, t) → ND y (k a t) → k' a (shiftSt d y pre t) = shiftR d y pre (k a t)) :
    r'.bind k' = shiftR d y pre (r.bind k) := by
  rw [hr hnd.of_bind]
  cases r with
  | ok at' => obtain ⟨a, t⟩ := at'; simp only [shiftR, R.bind_ok]; exact hk a t rfl (hnd.cont rfl)
  | error et => obtain ⟨e, t⟩ := et; rfl

@[simp] theorem shiftSt_pos (s : St) : (shiftSt d y pre s).pos = s.pos + d := rfl
@[simp] theorem shiftSt_inp (s : St) : (shiftSt d y pre s).inp = s.inp ++ y := rfl
@[simp] theorem shiftSt_scs (s : St) : (shiftSt d y pre s).scs = s.scs.map (shSC d) := rfl

theorem shiftSt_emitM (e : MEvent) (s : St) : emitM e (shiftSt d y pre s) = shiftSt d y pre (emitM e s) := by
  simp [emitM, emit, shiftSt, shEv, List.append_assoc]

theorem shiftSt_emitW (e : Err) (s : St) : emitW (shErr d e) (shiftSt d y pre s) = shiftSt d y pre (emitW e s) := by
  simp [emitW, emit, shiftSt, shEv, List.append_assoc]

theorem take_sh (n : Nat) (s : St) (h : ND y (take n s)) : take n (shiftSt d y pre s) = shiftR d y pre (take n s) := by
  unfold take at h ⊢
  by_cases hl : s.inp.length < n
  · rcases h with hy | h
    · subst hy
      have hl' : (s.inp ++ []).length < n := by simpa using hl
      rw [if_pos hl]
      show (if (s.inp ++ []).length < n then _ else _) = _
      rw [if_pos hl']
      simp [shiftR, shiftSt, shErr, Nat.add_right_comm]
    · exfalso; rw [if_pos hl] at h; exact h _ rfl
  · have hl' : ¬ (s.inp ++ y).length < n := by simp only [List.length_append]; omega
    have h1 : (s.inp ++ y).take n = s.inp.take n := by rw [List.take_append_of_le_length (by omega)]
    have h2 : (s.inp ++ y).drop n = s.inp.drop n ++ y := by rw [List.drop_append_of_le_length (by omega)]
    rw [if_neg hl]
    show (if (s.inp ++ y).length < n then _ else _) = _
    rw [if_neg hl']
    simp only [shiftR, shiftSt_inp, h1, h2]
    simp [shiftSt, Nat.add_right_comm]

theorem consume_sh (n : Nat) (s : St) (h : ND y (consume n s)) : consume n (shiftSt d y pre s) = shiftR d y pre (consume n s) := by
  unfold consume at h ⊢
  exact sh_bind h (fun hh => take_sh n s hh) (fun _ _ _ _ => rfl)

theorem over_sh (c : SC) (n : Nat) : (shSC d c).over n = c.over n := rfl

theorem bpGo_sh (path : Path) (size : Nat) : ∀ (todo done : List SC) (s : St), ND y (bpGo path size done todo s) →
    bpGo path size (done.map (shSC d)) (todo.map (shSC d)) (shiftSt d y pre s) = shiftR d y pre (bpGo path size done todo s) := by
  intro todo
  induction todo with
  | nil => intro done s _; simp only [List.map_nil, bpGo]; rfl
  | cons c rest ih =>
    intro done s hnd
    simp only [List.map_cons]
    unfold bpGo at hnd ⊢
    rw [over_sh]
    by_cases hov : c.over size = true
    · simp only [hov, if_true] at hnd ⊢
      simp only [show (shSC d c).max = c.max from rfl, show (shSC d c).already = c.already from rfl,
        show (shSC d c).id = c.id + d from rfl, show (shSC d c).path = c.path from rfl]
      have hs : (⟨(shiftSt d y pre s).inp, (shiftSt d y pre s).pos, (shiftSt d y pre s).out,
            (done.map (shSC d)).map fun x => ⟨x.id, x.path, x.already - (size - (c.max.getD 0 - c.already)), x.max⟩⟩ : St) =
          shiftSt d y pre ⟨s.inp, s.pos, s.out, done.map fun x => ⟨x.id, x.path, x.already - (size - (c.max.getD 0 - c.already)), x.max⟩⟩ := by
        simp [shiftSt, shSC, List.map_map, Function.comp_def]
      rw [hs]
      exact sh_bind hnd (fun hh => consume_sh _ _ hh) (fun _ _ _ _ => rfl)
    · simp only [hov, Bool.false_eq_true, if_false] at hnd ⊢
      have := ih (done ++ [c.bump size]) s hnd
      simpa [List.map_append, shSC, SC.bump] using this

theorem bytesParsed_sh (path : Path) (size : Nat) (s : St) (h : ND y (bytesParsed path size s)) :
    bytesParsed path size (shiftSt d y pre s) = shiftR d y pre (bytesParsed path size s) := by
  unfold bytesParsed at h ⊢
  have := bpGo_sh (d := d) (y := y) (pre := pre) path size s.scs [] s h
  simpa using this

theorem readPrim_sh (abort : Bool) (p : Prim) (path : Path) (s : St) (h : ND y (readPrim abort p path s)) :
    readPrim abort p path (shiftSt d y pre s) = shiftR d y pre (readPrim abort p path s) := by
  unfold readPrim at h ⊢
  refine sh_bind h (fun hh => bytesParsed_sh path p.size s hh) (fun _ t _ h2 => ?_)
  refine sh_bind h2 (fun hh => take_sh p.size t hh) (fun bs t2 _ _ => ?_)
  simp only []
  split
  · simp only [shiftR]; rw [← shiftSt_emitM]
  · split
    · rfl
    · simp only [shiftR]
      rw [← shiftSt_emitW, ← shiftSt_emitM]
      rfl

theorem anticipate_sh (vpath : Path) (v id : Nat) : ∀ (scs : List SC),
    anticipate vpath v (id + d) (scs.map (shSC d)) = (anticipate vpath v id scs).map (shErr d) := by
  intro scs
  induction scs with
  | nil => rfl
  | cons c rest ih =>
    simp only [List.map_cons]
    unfold anticipate
    simp only [show (shSC d c).id = c.id + d from rfl, over_sh, Nat.add_right_cancel_iff]
    split
    · exact ih
    · split
      · rfl
      · exact ih

theorem anticipateM_sh (abort : Bool) (vpath : Path) (v id : Nat) (s : St) :
    anticipateM abort vpath v (id + d) (shiftSt d y pre s) = shiftR d y pre (anticipateM abort vpath v id s) := by
  unfold anticipateM
  simp only [shiftSt_scs, anticipate_sh]
  cases anticipate vpath v id s.scs with
  | none => rfl
  | some e =>
    simp only [Option.map_some]
    split
    · rfl
    · simp only [shiftR]; rw [← shiftSt_emitW]

theorem openRegion_sh (abort : Bool) (id : Nat) (cpath : Path) (n : Nat) (s : St) :
    openRegion abort (id + d) cpath n (shiftSt d y pre s) = shiftR d y pre (openRegion abort id cpath n s) := by
  unfold openRegion
  rw [anticipateM_sh]
  cases anticipateM abort cpath n id s with
  | ok ut => obtain ⟨_, t⟩ := ut; simp [shiftR, shiftSt, shSC, R.bind]
  | error et => rfl

theorem setListed_sh (abort : Bool) (id : Nat) (cpath : Path) (n : Nat) (s : St) :
    setListed abort (id + d) cpath n (shiftSt d y pre s) = shiftR d y pre (setListed abort id cpath n s) := by
  unfold setListed
  simp only []
  have hs : ({ shiftSt d y pre s with scs := (shiftSt d y pre s).scs.map fun c => if c.id = id + d then { c with path := cpath, max := some n } else c } : St) =
      shiftSt d y pre { s with scs := s.scs.map fun c => if c.id = id then { c with path := cpath, max := some n } else c } := by
    simp only [shiftSt, List.map_map]
    congr 1
    apply List.map_congr_left
    intro c _
    simp only [Function.comp, shSC, Nat.add_right_cancel_iff]
    by_cases hc : c.id = id <;> simp [hc]
  rw [hs]
  exact anticipateM_sh abort cpath n id _

theorem findSC_sh (id : Nat) (scs : List SC) : findSC (id + d) (scs.map (shSC d)) = (findSC id scs).map (shSC d) := by
  unfold findSC
  induction scs with
  | nil => rfl
  | cons c rest ih =>
    simp only [List.map_cons, List.find?_cons, show (shSC d c).id = c.id + d from rfl, Nat.add_right_cancel_iff]
    split
    · rfl
    · exact ih

theorem removeSC_sh (id : Nat) (scs : List SC) : removeSC (id + d) (scs.map (shSC d)) = (removeSC id scs).map (shSC d) := by
  unfold removeSC
  induction scs with
  | nil => rfl
  | cons c rest ih =>
    simp only [List.map_cons, List.filter_cons, show (shSC d c).id = c.id + d from rfl, Nat.add_right_cancel_iff]
    split
    · simp only [List.map_cons, ih]
    · exact ih

theorem assertDoneSC_sh (abort : Bool) (c : SC) (s : St) (h : ND y (assertDoneSC abort c s)) :
    assertDoneSC abort (shSC d c) (shiftSt d y pre s) = shiftR d y pre (assertDoneSC abort c s) := by
  unfold assertDoneSC at h ⊢
  simp only [show (shSC d c).max = c.max from rfl, show (shSC d c).already = c.already from rfl,
    show (shSC d c).id = c.id + d from rfl, show (shSC d c).path = c.path from rfl]
  cases hm : c.max with
  | none => rfl
  | some m =>
    simp only [hm] at h ⊢
    by_cases heq : c.already = m
    · simp only [heq, if_true]; rfl
    · simp only [heq, if_false] at h ⊢
      cases abort with
      | true => rfl
      | false =>
        simp only [Bool.false_eq_true, if_false] at h ⊢
        have he : emitW (Err.subceeded (c.id + d) c.path m c.already) (shiftSt d y pre s) = shiftSt d y pre (emitW (.subceeded c.id c.path m c.already) s) :=
          shiftSt_emitW (d := d) (.subceeded c.id c.path m c.already) s
        rw [he]
        by_cases hlt : c.already < m
        · simp only [hlt, if_true] at h ⊢
          exact sh_bind h (fun hh => bytesParsed_sh _ _ _ hh) (fun _ t _ h2 => consume_sh _ t h2)
        · simp only [hlt, if_false]; rfl

theorem assertDone_sh (abort : Bool) (id : Nat) (s : St) (h : ND y (assertDone abort id s)) :
    assertDone abort (id + d) (shiftSt d y pre s) = shiftR d y pre (assertDone abort id s) := by
  unfold assertDone at h ⊢
  simp only [shiftSt_scs, findSC_sh, removeSC_sh]
  cases hf : findSC id s.scs with
  | none => rfl
  | some c =>
    simp only [hf] at h
    simp only [Option.map_some]
    exact assertDoneSC_sh abort c { s with scs := removeSC id s.scs } h

theorem ownCatch_sh (abort : Bool) (id : Nat) (r r' : R Val) (k k' : Val → St → R Val) (hnd : ND y (ownCatch abort id r k))
    (hr : ND y r → r' = shiftR d y pre r)
    (h : ∀ a t, r = .ok (a, t) → ND y (k a t) → k' a (shiftSt d y pre t) = shiftR d y pre (k a t)) :
    ownCatch abort (id + d) r' k' = shiftR d y pre (ownCatch abort id r k) := by
  have hndr : ND y r := by
    rcases hnd with hy | hnd
    · exact Or.inl hy
    · refine Or.inr (fun t hrt => ?_)
      rw [hrt] at hnd
      exact hnd t rfl
  rw [hr hndr]
  cases r with
  | ok vs => obtain ⟨v, t⟩ := vs; simp only [shiftR, ownCatch]; exact h v t rfl hnd
  | error es =>
    obtain ⟨e, t⟩ := es
    cases e with
    | exceeded cid cp m a v b =>
      simp only [shiftR, shErr, ownCatch]
      have : (cid + d != id + d) = (cid != id) := by
        rw [Bool.eq_iff_iff]; simp
      rw [this]
      split
      · rfl
      · simp only [shiftR]
        rw [← shiftSt_emitW]; rfl
    | _ => rfl

theorem repeatDec_sh (g : Path → St → R Val) (path : Path)
    (hg : ∀ p s, ND y (g p s) → g p (shiftSt d y pre s) = shiftR d y pre (g p s)) :
    ∀ (n i : Nat) (s : St), ND y (repeatDec g path n i s) →
      repeatDec g path n i (shiftSt d y pre s) = shiftR d y pre (repeatDec g path n i s) := by
  intro n
  induction n with
  | zero => intro i s _; rfl
  | succ m ih =>
    intro i s h
    unfold repeatDec at h ⊢
    refine sh_bind h (fun hh => hg _ s hh) (fun v t _ h2 => ?_)
    exact sh_bind h2 (fun hh => ih (i+1) t hh) (fun _ _ _ _ => rfl)

theorem readPrimList_sh (abort : Bool) (p : Prim) (path : Path) (n : Nat) (s : St) (h : ND y (readPrimList abort p path n s)) :
    readPrimList abort p path n (shiftSt d y pre s) = shiftR d y pre (readPrimList abort p path n s) := by
  unfold readPrimList at h ⊢
  rw [shiftSt_emitM]
  exact sh_bind h (fun hh => repeatDec_sh _ path (fun q s hq => readPrim_sh abort p q s hq) n 0 _ hh) (fun _ _ _ _ => rfl)

theorem readListArm_sh (abort : Bool) (elem : Prim) (n : Option Nat) (path : Path) (s : St) (h : ND y (readListArm abort elem n path s)) :
    readListArm abort elem n path (shiftSt d y pre s) = shiftR d y pre (readListArm abort elem n path s) := by
  unfold readListArm at h ⊢
  cases n with
  | none => rfl
  | some k => exact readPrimList_sh abort elem path k s h

theorem fieldWith_sh (dd : Path → Option Int → St → R Val)
    (hd : ∀ p sel s, ND y (dd p sel s) → dd p sel (shiftSt d y pre s) = shiftR d y pre (dd p sel s))
    (tname : String) (kind : FKind) (fpath : Path) (vals : List (String × Val)) (s : St)
    (h : ND y (decodeFieldWith dd tname kind fpath vals s)) :
    decodeFieldWith dd tname kind fpath vals (shiftSt d y pre s) = shiftR d y pre (decodeFieldWith dd tname kind fpath vals s) := by
  cases kind with
  | plain => exact hd _ _ _ h
  | selected sel =>
    simp only [decodeFieldWith] at h ⊢
    split
    · rfl
    · rename_i sv hsv
      simp only [hsv] at h
      exact hd _ _ _ h
  | counted =>
    simp only [decodeFieldWith] at h ⊢
    split
    · rfl
    · rename_i c hc
      simp only [hc] at h
      rw [shiftSt_emitM]
      exact sh_bind h (fun hh => repeatDec_sh _ fpath (fun p s hq => hd p none s hq) c 0 _ hh) (fun _ _ _ _ => rfl)

mutual
theorem decode_sh (abort : Bool) : (t : Ty) → ∀ (path : Path) (sel : Option Int) (s : St), ND y (decode abort t path sel s) →
    decode abort t path sel (shiftSt d y pre s) = shiftR d y pre (decode abort t path sel s)
  | .prim p, path, sel, s, h => by simp only [decode] at h ⊢; exact readPrim_sh abort p path s h
  | .struct name isP fs, path, sel, s, h => by
    simp only [decode] at h ⊢
    rw [shiftSt_emitM]
    exact sh_bind h (fun hh => fields_sh abort fs path [] _ hh) (fun _ _ _ _ => rfl)
  | .tpm2bBytes name szName szP bufName elem, path, sel, s, h => by
    simp only [decode] at h ⊢
    rw [shiftSt_emitM]
    refine sh_bind h (fun hh => readPrim_sh abort szP _ _ hh) (fun nv s1 _ h1 => ?_)
    simp only [shiftSt_pos]
    split
    · rfl
    · rename_i hn
      simp only [hn, if_false] at h1
      rw [openRegion_sh]
      refine sh_bind h1 (fun _ => rfl) (fun _ s2 _ h2 => ?_)
      refine sh_bind h2 (fun hh => readPrimList_sh abort elem _ _ s2 hh) (fun bv s3 _ h3 => ?_)
      exact sh_bind h3 (fun hh => assertDone_sh abort _ s3 hh) (fun _ _ _ _ => rfl)
  | .tpm2b name szName szP bufName body, path, sel, s, h => by
    simp only [decode] at h ⊢
    rw [shiftSt_emitM]
    refine sh_bind h (fun hh => readPrim_sh abort szP _ _ hh) (fun nv s1 _ h1 => ?_)
    simp only [shiftSt_pos]
    split
    · rfl
    · rename_i hn
      simp only [hn, if_false] at h1
      rw [openRegion_sh]
      refine sh_bind h1 (fun _ => rfl) (fun _ s2 _ h2 => ?_)
      split
      · rename_i hz
        simp only [hz, if_true] at h2
        rw [shiftSt_emitM]
        exact sh_bind h2 (fun hh => assertDone_sh abort _ _ hh) (fun _ _ _ _ => rfl)
      · rename_i hz
        simp only [hz, if_false] at h2
        exact ownCatch_sh abort _ _ _ _ _ h2 (fun hh => decode_sh abort body _ none s2 hh)
          (fun bv s3 _ h3 => sh_bind h3 (fun hh => assertDone_sh abort _ s3 hh) (fun _ _ _ _ => rfl))
  | .union name arms, path, sel, s, h => by
    simp only [decode] at h ⊢
    rw [shiftSt_emitM]
    split
    · split <;> rfl
    · rename_i an han
      simp only [han] at h
      exact arm_sh abort arms name _ path _ h
  | .bad r, path, sel, s, _ => by simp only [decode]; rfl

theorem arm_sh (abort : Bool) : (arms : Arms) → ∀ (un want : String) (path : Path) (s : St), ND y (decodeArm abort arms un want path s) →
    decodeArm abort arms un want path (shiftSt d y pre s) = shiftR d y pre (decodeArm abort arms un want path s)
  | .nil, un, want, path, s, _ => by simp only [decodeArm]; rfl
  | .consNone an key rest, un, want, path, s, h => by
    simp only [decodeArm] at h ⊢
    split
    · rfl
    · rename_i hne
      simp only [hne, if_false] at h
      exact arm_sh abort rest un want path s h
  | .cons an key t rest, un, want, path, s, h => by
    simp only [decodeArm] at h ⊢
    split
    · rename_i he
      subst he
      simp only [if_true] at h
      exact sh_bind h (fun hh => decode_sh abort t _ none s hh) (fun _ _ _ _ => rfl)
    · rename_i hne
      simp only [hne, if_false] at h
      exact arm_sh abort rest un want path s h
  | .consBytes an key elem n rest, un, want, path, s, h => by
    simp only [decodeArm] at h ⊢
    split
    · rename_i he
      subst he
      simp only [if_true] at h
      exact sh_bind h (fun hh => readListArm_sh abort elem n _ s hh) (fun _ _ _ _ => rfl)
    · rename_i hne
      simp only [hne, if_false] at h
      exact arm_sh abort rest un want path s h

theorem fields_sh (abort : Bool) : (fs : Fields) → ∀ (path : Path) (vals : List (String × Val)) (s : St),
    ND y (decodeFields abort fs path vals s) →
    decodeFields abort fs path vals (shiftSt d y pre s) = shiftR d y pre (decodeFields abort fs path vals s)
  | .nil, path, vals, s, _ => by simp only [decodeFields]; rfl
  | .cons fname kind t rest, path, vals, s, h => by
    simp only [decodeFields] at h ⊢
    exact sh_bind h (fun hh => fieldWith_sh _ (fun p sel s hq => decode_sh abort t p sel s hq) t.name kind _ vals s hh)
      (fun v t' _ h2 => fields_sh abort rest path _ t' h2)
end
end


/-! ## messages -/
section
variable {d : Nat} {y : List Byte} {pre : List (Nat × Event)}

theorem sh_bind' {α β : Type} {r r' : R α} {k k' : α → St → R β} (hr : ND y r → r' = shiftR d y pre r)
    (hk : ∀ a t, ND y (k a t) → k' a (shiftSt d y pre t) = shiftR d y pre (k a t)) :
    ND y (r.bind k) → r'.bind k' = shiftR d y pre (r.bind k) :=
  fun hnd => sh_bind hnd hr (fun a t _ h => hk a t h)

theorem decodeArea_sh (abort : Bool) (tb : MsgTables) (enc : Bool) (t : Ty) (path : Path) (s : St) :
    ND y (decodeArea abort tb enc t path s) →
    decodeArea abort tb enc t path (shiftSt d y pre s) = shiftR d y pre (decodeArea abort tb enc t path s) := by
  unfold decodeArea
  split
  · split
    · exact decode_sh abort t path none s
    · rw [shiftSt_emitM]
      exact sh_bind' (fields_sh abort _ path [] _) (fun _ _ _ => rfl)
  · exact decode_sh abort t path none s

theorem sizedLoop_sh (abort : Bool) (t : Ty) (path : Path) (cid : Nat) : ∀ (fuel i : Nat) (acc : List Val) (s : St),
    ND y (sizedLoop abort t path cid fuel i acc s) →
    sizedLoop abort t path (cid + d) fuel i acc (shiftSt d y pre s) = shiftR d y pre (sizedLoop abort t path cid fuel i acc s) := by
  intro fuel
  induction fuel with
  | zero => intro i acc s _; rfl
  | succ n ih =>
    intro i acc s
    unfold sizedLoop
    simp only [shiftSt_scs, findSC_sh]
    cases findSC cid s.scs with
    | none => intro _; rfl
    | some c =>
      simp only [Option.map_some, show (shSC d c).max = c.max from rfl, show (shSC d c).already = c.already from rfl]
      cases c.max with
      | none => intro _; rfl
      | some m =>
        simp only []
        split
        · intro h
          exact ownCatch_sh abort _ _ _ _ _ h (decode_sh abort t _ none s) (fun v s1 _ h1 => ih _ _ s1 h1)
        · have hst : (⟨(shiftSt d y pre s).inp, (shiftSt d y pre s).pos, (shiftSt d y pre s).out, removeSC (cid + d) (List.map (shSC d) s.scs)⟩ : St) =
              shiftSt d y pre ⟨s.inp, s.pos, s.out, removeSC cid s.scs⟩ := by simp [shiftSt, removeSC_sh]
          rw [hst]
          exact sh_bind' (assertDoneSC_sh abort c _) (fun _ _ _ => rfl)

theorem sizedFuel_sh (cid : Nat) (scs : List SC) : sizedFuel (cid + d) (scs.map (shSC d)) = sizedFuel cid scs := by
  unfold sizedFuel
  rw [findSC_sh]
  cases findSC cid scs <;> rfl

theorem decodeSized_sh (abort : Bool) (t : Ty) (path : Path) (cid : Nat) (s : St) :
    ND y (decodeSized abort t path cid s) →
    decodeSized abort t path (cid + d) (shiftSt d y pre s) = shiftR d y pre (decodeSized abort t path cid s) := by
  unfold decodeSized
  simp only []
  rw [shiftSt_emitM]
  have hf : sizedFuel (cid + d) (shiftSt d y pre (emitM ⟨path, .listOf t.name, none, "", 0⟩ s)).scs =
      sizedFuel cid (emitM ⟨path, .listOf t.name, none, "", 0⟩ s).scs := sizedFuel_sh cid _
  rw [hf]
  exact sizedLoop_sh abort t path cid _ 0 [] _

theorem msgCatch_sh {abort : Bool} {id1 id2 : Nat} {name : String} {vals : List (String × Val)} {r r' : R Val} {k k' : Val → St → R Val}
    (hr : ND y r → r' = shiftR d y pre r) (h : ∀ a t, ND y (k a t) → k' a (shiftSt d y pre t) = shiftR d y pre (k a t)) :
    ND y (msgCatch abort id1 id2 name vals r k) →
    msgCatch abort (id1 + d) (id2 + d) name vals r' k' = shiftR d y pre (msgCatch abort id1 id2 name vals r k) := by
  intro hnd
  have hndr : ND y r := by
    rcases hnd with hy | hnd
    · exact Or.inl hy
    · refine Or.inr (fun t hrt => ?_)
      rw [hrt] at hnd
      exact hnd t rfl
  rw [hr hndr]
  cases r with
  | ok vs => obtain ⟨v, t⟩ := vs; simp only [shiftR, msgCatch]; exact h v t hnd
  | error es =>
    obtain ⟨e, t⟩ := es
    cases e with
    | exceeded cid cp m a v b =>
      simp only [shiftR, shErr, msgCatch]
      have e1 : (cid + d != id1 + d) = (cid != id1) := by rw [Bool.eq_iff_iff]; simp
      have e2 : (cid + d != id2 + d) = (cid != id2) := by rw [Bool.eq_iff_iff]; simp
      rw [e1, e2]
      split
      · rfl
      · simp only [shiftR]
        rw [← shiftSt_emitW]; rfl
    | _ => rfl

theorem initMsg_sh (path : Path) (name : String) (s0 : St) :
    emitM ⟨path, .named name false, none, "", 0⟩ ⟨(shiftSt d y pre s0).inp, s0.pos + d, (shiftSt d y pre s0).out, [⟨s0.pos + d, [], 0, none⟩]⟩ =
      shiftSt d y pre (emitM ⟨path, .named name false, none, "", 0⟩ ⟨s0.inp, s0.pos, s0.out, [⟨s0.pos, [], 0, none⟩]⟩) := by
  simp [emitM, emit, shiftSt, shEv, shSC, List.append_assoc]

macro "sh_step" : tactic => `(tactic| first
  | (refine msgCatch_sh (readPrim_sh _ _ _ _) (fun _ _ => ?_))
  | (refine msgCatch_sh (decodeArea_sh _ _ _ _ _ _) (fun _ _ => ?_))
  | (refine msgCatch_sh (decodeSized_sh _ _ _ _ _) (fun _ _ => ?_))
  | (refine sh_bind' (fun _ => setListed_sh _ _ _ _ _) (fun _ _ => ?_))
  | (refine sh_bind' (fun _ => openRegion_sh _ _ _ _ _) (fun _ _ => ?_))
  | (refine sh_bind' (assertDone_sh _ _ _) (fun _ _ => ?_))
  | split
  | (intro _; rfl))

theorem decodeCommand_sh (abort : Bool) (tb : MsgTables) (path : Path) (s0 : St) :
    ND y (decodeCommand abort tb path s0) →
    decodeCommand abort tb path (shiftSt d y pre s0) = shiftR d y pre (decodeCommand abort tb path s0) := by
  unfold decodeCommand
  have e1 : s0.pos + d + 1 = s0.pos + 1 + d := by omega
  simp only [shiftSt_pos, e1]
  rw [initMsg_sh]
  repeat' sh_step

theorem paramsStepT_sh (abort : Bool) (tb : MsgTables) (enc : Bool) (pty : Ty) (p : Path) (pid : Nat) (s : St) :
    ND y ((decodeArea abort tb enc pty p s).bind fun pv s => (assertDone abort pid s).bind fun _ s => (.ok (pv, s) : R Val)) →
    ((decodeArea abort tb enc pty p (shiftSt d y pre s)).bind fun pv s =>
        (assertDone abort (pid + d) s).bind fun _ s => (.ok (pv, s) : R Val)) =
      shiftR d y pre ((decodeArea abort tb enc pty p s).bind fun pv s =>
        (assertDone abort pid s).bind fun _ s => (.ok (pv, s) : R Val)) :=
  sh_bind' (decodeArea_sh abort tb enc pty p s) (fun pv t => sh_bind' (assertDone_sh abort pid t) (fun _ _ _ => rfl))

theorem paramsStepF_sh (abort : Bool) (tb : MsgTables) (enc : Bool) (pty : Ty) (p : Path) (s : St) :
    ND y ((decodeArea abort tb enc pty p s).bind fun pv s => (.ok (pv, s) : R Val)) →
    ((decodeArea abort tb enc pty p (shiftSt d y pre s)).bind fun pv s => (.ok (pv, s) : R Val)) =
      shiftR d y pre ((decodeArea abort tb enc pty p s).bind fun pv s => (.ok (pv, s) : R Val)) :=
  sh_bind' (decodeArea_sh abort tb enc pty p s) (fun _ _ _ => rfl)

set_option maxHeartbeats 1000000 in
theorem decodeResponse_sh (abort : Bool) (tb : MsgTables) (cc : Option Int) (enc : Bool) (path : Path) (s0 : St) :
    ND y (decodeResponse abort tb cc enc path s0) →
    decodeResponse abort tb cc enc path (shiftSt d y pre s0) = shiftR d y pre (decodeResponse abort tb cc enc path s0) := by
  unfold decodeResponse
  have e1 : s0.pos + d + 1 = s0.pos + 1 + d := by omega
  simp only [shiftSt_pos, e1]
  rw [initMsg_sh]
  have finish : ∀ (vals : List (String × Val)) (s : St),
      ND y ((assertDone abort s0.pos s).bind fun _ s =>
        if s.scs.isEmpty then (.ok (.obj "Response" false vals, s) : R Val)
        else crash "AssertionError" "size_constraints.assert_done()" s) →
      ((assertDone abort (s0.pos + d) (shiftSt d y pre s)).bind fun _ s =>
        if s.scs.isEmpty then (.ok (.obj "Response" false vals, s) : R Val)
        else crash "AssertionError" "size_constraints.assert_done()" s) =
      shiftR d y pre ((assertDone abort s0.pos s).bind fun _ s =>
        if s.scs.isEmpty then (.ok (.obj "Response" false vals, s) : R Val)
        else crash "AssertionError" "size_constraints.assert_done()" s) := by
    intro vals s
    refine sh_bind' (assertDone_sh abort _ s) (fun _ t _ => ?_)
    simp only [shiftSt_scs, List.isEmpty_map]
    split <;> rfl
  refine msgCatch_sh (readPrim_sh _ _ _ _) (fun tag s1 => ?_)
  refine msgCatch_sh (readPrim_sh _ _ _ _) (fun rsz s2 => ?_)
  split
  · intro _; rfl
  · split
    · intro _; rfl
    · refine sh_bind' (fun _ => setListed_sh _ _ _ _ _) (fun _ s3 => ?_)
      refine msgCatch_sh (readPrim_sh _ _ _ _) (fun rcv s4 => ?_)
      split
      · exact finish _ _
      · split
        · intro _; split <;> rfl
        · refine msgCatch_sh (decodeArea_sh _ _ _ _ _ _) (fun hv s5 => ?_)
          have after : ∀ (vals : List (String × Val)) (s8 : St),
              ND y (if (!(vInt tag == some tb.sessionsTag)) = true then
                  (assertDone abort s0.pos s8).bind fun _ s =>
                    if s.scs.isEmpty then (.ok (.obj "Response" false vals, s) : R Val)
                    else crash "AssertionError" "size_constraints.assert_done()" s
                else
                  msgCatch abort s0.pos (s0.pos + 1) "Response" vals
                    (decodeSized abort tb.authRsp (path ++ [(⟨"authorizationArea", none⟩ : PathNode)]) s0.pos s8) fun area s =>
                    match areaFlag tb.authRsp "encrypt" area with
                    | .error cls => crash cls "is_parameter_encryption" s
                    | .ok expected =>
                      if expected != enc then crash "AssertionError" "process_response: parameter_encryption mismatch" s else
                      if s.scs.isEmpty then .ok (.obj "Response" false (vals ++ [("authorizationArea", area)]), s)
                      else crash "AssertionError" "size_constraints.assert_done()" s) →
              (if (!(vInt tag == some tb.sessionsTag)) = true then
                  (assertDone abort (s0.pos + d) (shiftSt d y pre s8)).bind fun _ s =>
                    if s.scs.isEmpty then (.ok (.obj "Response" false vals, s) : R Val)
                    else crash "AssertionError" "size_constraints.assert_done()" s
                else
                  msgCatch abort (s0.pos + d) (s0.pos + 1 + d) "Response" vals
                    (decodeSized abort tb.authRsp (path ++ [(⟨"authorizationArea", none⟩ : PathNode)]) (s0.pos + d) (shiftSt d y pre s8)) fun area s =>
                    match areaFlag tb.authRsp "encrypt" area with
                    | .error cls => crash cls "is_parameter_encryption" s
                    | .ok expected =>
                      if expected != enc then crash "AssertionError" "process_response: parameter_encryption mismatch" s else
                      if s.scs.isEmpty then .ok (.obj "Response" false (vals ++ [("authorizationArea", area)]), s)
                      else crash "AssertionError" "size_constraints.assert_done()" s) =
              shiftR d y pre (if (!(vInt tag == some tb.sessionsTag)) = true then
                  (assertDone abort s0.pos s8).bind fun _ s =>
                    if s.scs.isEmpty then (.ok (.obj "Response" false vals, s) : R Val)
                    else crash "AssertionError" "size_constraints.assert_done()" s
                else
                  msgCatch abort s0.pos (s0.pos + 1) "Response" vals
                    (decodeSized abort tb.authRsp (path ++ [(⟨"authorizationArea", none⟩ : PathNode)]) s0.pos s8) fun area s =>
                    match areaFlag tb.authRsp "encrypt" area with
                    | .error cls => crash cls "is_parameter_encryption" s
                    | .ok expected =>
                      if expected != enc then crash "AssertionError" "process_response: parameter_encryption mismatch" s else
                      if s.scs.isEmpty then .ok (.obj "Response" false (vals ++ [("authorizationArea", area)]), s)
                      else crash "AssertionError" "size_constraints.assert_done()" s) := by
            intro vals s8
            split
            · exact finish _ _
            · refine msgCatch_sh (decodeSized_sh _ _ _ _ _) (fun area s9 => ?_)
              split
              · intro _; rfl
              · split
                · intro _; rfl
                · intro _
                  simp only [shiftSt_scs, List.isEmpty_map]
                  split <;> rfl
          split
          · refine msgCatch_sh (readPrim_sh _ _ _ _) (fun psz s6 => ?_)
            split
            · intro _; rfl
            · split
              · intro _; rfl
              · refine sh_bind' (fun _ => openRegion_sh _ _ _ _ _) (fun _ s7 => ?_)
                split
                · intro _; split <;> rfl
                · refine msgCatch_sh (paramsStepT_sh _ _ _ _ _ _ _) (fun pv s8 => ?_)
                  exact after _ s8
          · split
            · intro _; split <;> rfl
            · refine msgCatch_sh (paramsStepF_sh _ _ _ _ _ _) (fun pv s8 => ?_)
              exact after _ s8
end

/-! ## a stream of arbitrary messages is the concatenation of its messages' decodes -/

/-- the trace of a message decoded on its own, moved to byte `p` of the stream -/
def shOut (p : Nat) (o : List (Nat × Event)) : List (Nat × Event) := o.map fun ke => (ke.1 + p, shEv p ke.2)

/-- decode the exchanges one by one, each command and each response ON ITS OWN bytes from a fresh state — the response under its
command's code and the encrypt flag of its command's sessions — and chain the traces; `none` if a message does not complete or is
not consumed completely -/
def runMsgs (abort : Bool) (tb : MsgTables) (path : Path) : List (List Byte × List Byte) → Nat → List (Nat × Event) →
    Option (Nat × List (Nat × Event))
  | [], pos, out => some (pos, out)
  | (c, r) :: rest, pos, out =>
    if c.isEmpty || r.isEmpty then none else
    match decodeCommand abort tb path (initSt c) with
    | .ok (cv, tc) =>
      if !tc.inp.isEmpty then none else
      match cmdEncrypt tb cv with
      | .error _ => none
      | .ok enc =>
        match decodeResponse abort tb ((objField cv "commandCode").bind vInt) enc path (initSt r) with
        | .ok (_, tr) =>
          if !tr.inp.isEmpty then none else
          runMsgs abort tb path rest (pos + tc.pos + tr.pos) (out ++ shOut pos tc.out ++ shOut (pos + tc.pos) tr.out)
        | .error _ => none
    | .error _ => none

def flat (msgs : List (List Byte × List Byte)) : List Byte := (msgs.map fun cr => cr.1 ++ cr.2).flatten

theorem decodeCommand_scs (abort : Bool) (tb : MsgTables) (path : Path) (s : St) (scs : List SC) :
    decodeCommand abort tb path { s with scs := scs } = decodeCommand abort tb path s := rfl

theorem decodeResponse_scs (abort : Bool) (tb : MsgTables) (cc : Option Int) (enc : Bool) (path : Path) (s : St) (scs : List SC) :
    decodeResponse abort tb cc enc path { s with scs := scs } = decodeResponse abort tb cc enc path s := rfl

theorem nd_ok {α : Type} {r : R α} {a : α} {t : St} (h : r = .ok (a, t)) : ND y r := by
  refine Or.inr (fun t' h' => ?_); rw [h] at h'; cases h'

theorem nd_nil {α : Type} (r : R α) : ND ([] : List Byte) r := Or.inl rfl

/-- **C09 for arbitrary messages, either mode**: whenever every command and every response of the sequence, decoded on its own
(the response under its command's code and encrypt flag), completes and consumes exactly its bytes — well-formed or not, with or
without warnings — the stream decode of the concatenation is the chain of those decodes: same events in the same order, stamped
with the running offset, then the clean stop at the end -/
theorem stream_is_chain (abort : Bool) (tb : MsgTables) (path : Path) :
    ∀ (msgs : List (List Byte × List Byte)) (pos : Nat) (out : List (Nat × Event)) (scs : List SC) (pos' : Nat) (out' : List (Nat × Event)),
    runMsgs abort tb path msgs pos out = some (pos', out') →
    ∀ fuel, msgs.length < fuel →
    ∃ scs', decodeStream abort tb path fuel ⟨flat msgs, pos, out, scs⟩ =
      .ok (.none, ⟨[], pos', out' ++ [(pos', .marshal ⟨path, .named "Command" false, none, "", 0⟩)], scs'⟩) := by
  intro msgs
  induction msgs with
  | nil =>
    intro pos out scs pos' out' h fuel hf
    simp only [runMsgs, Option.some.injEq, Prod.mk.injEq] at h
    obtain ⟨rfl, rfl⟩ := h
    cases fuel with
    | zero => simp at hf
    | succ n => exact ⟨scs, by simp [decodeStream, flat, emitM, emit]⟩
  | cons cr rest ih =>
    intro pos out scs pos' out' h fuel hf
    obtain ⟨c, r⟩ := cr
    cases fuel with
    | zero => simp at hf
    | succ n =>
      simp only [runMsgs] at h
      split at h
      · cases h
      · rename_i hne
        simp only [Bool.or_eq_true, not_or, Bool.not_eq_true] at hne
        obtain ⟨hc, hr⟩ := hne
        split at h
        · rename_i cv tc hcmd
          split at h
          · cases h
          · rename_i htc
            split at h
            · cases h
            · rename_i enc henc
              split at h
              · rename_i rv tr hrsp
                split at h
                · cases h
                · rename_i htr
                  have htc' : tc.inp = [] := by simpa using htc
                  have htr' : tr.inp = [] := by simpa using htr
                  -- the command inside the stream
                  have hflat : flat ((c, r) :: rest) = c ++ (r ++ flat rest) := by simp [flat, List.append_assoc]
                  have hs0 : (⟨flat ((c, r) :: rest), pos, out, scs⟩ : St) =
                      { shiftSt pos (r ++ flat rest) out (initSt c) with scs := scs } := by
                    simp [shiftSt, initSt, hflat]
                  have hC := decodeCommand_sh (d := pos) (y := r ++ flat rest) (pre := out) abort tb path (initSt c) (nd_ok hcmd)
                  rw [hcmd] at hC
                  unfold decodeStream
                  have hne0 : (flat ((c, r) :: rest)).isEmpty = false := by
                    rw [hflat]; cases c with
                    | nil => simp at hc
                    | cons a t => rfl
                  simp only [hne0, Bool.false_eq_true, if_false]
                  rw [hs0, decodeCommand_scs, hC]
                  simp only [shiftR, R.bind_ok, henc]
                  have hne1 : (shiftSt pos (r ++ flat rest) out tc).inp.isEmpty = false := by
                    simp only [shiftSt_inp, htc', List.nil_append]
                    cases r with
                    | nil => simp at hr
                    | cons a t => rfl
                  simp only [hne1, Bool.false_eq_true, if_false]
                  -- the response
                  have hs1 : shiftSt pos (r ++ flat rest) out tc =
                      { shiftSt (tc.pos + pos) (flat rest) (out ++ shOut pos tc.out) (initSt r) with scs := tc.scs.map (shSC pos) } := by
                    simp [shiftSt, initSt, htc', shOut]
                  have hR := decodeResponse_sh (d := tc.pos + pos) (y := flat rest) (pre := out ++ shOut pos tc.out) abort tb
                    ((objField cv "commandCode").bind vInt) enc path (initSt r) (nd_ok hrsp)
                  rw [hrsp] at hR
                  rw [hs1, decodeResponse_scs, hR]
                  simp only [shiftR, R.bind_ok]
                  -- the rest of the stream
                  have hs2 : shiftSt (tc.pos + pos) (flat rest) (out ++ shOut pos tc.out) tr =
                      ⟨flat rest, pos + tc.pos + tr.pos, out ++ shOut pos tc.out ++ shOut (pos + tc.pos) tr.out, tr.scs.map (shSC (tc.pos + pos))⟩ := by
                    simp [shiftSt, htr', shOut, Nat.add_comm, Nat.add_left_comm]
                  rw [hs2]
                  exact ih _ _ _ _ _ h n (by simp at hf; omega)
              · cases h
        · cases h

/-- the chain lemma with an arbitrary tail: after the messages that decode on their own, the stream loop continues on what follows
from the state the chain leaves -/
theorem stream_chain_then (abort : Bool) (tb : MsgTables) (path : Path) (z : List Byte) :
    ∀ (msgs : List (List Byte × List Byte)) (pos : Nat) (out : List (Nat × Event)) (scs : List SC) (pos' : Nat) (out' : List (Nat × Event)),
    runMsgs abort tb path msgs pos out = some (pos', out') →
    ∀ fuel, msgs.length < fuel →
    ∃ scs', decodeStream abort tb path fuel ⟨flat msgs ++ z, pos, out, scs⟩ =
      decodeStream abort tb path (fuel - msgs.length) ⟨z, pos', out', scs'⟩ := by
  intro msgs
  induction msgs with
  | nil =>
    intro pos out scs pos' out' h fuel hf
    simp only [runMsgs, Option.some.injEq, Prod.mk.injEq] at h
    obtain ⟨rfl, rfl⟩ := h
    cases fuel with
    | zero => simp at hf
    | succ n => exact ⟨scs, by simp [flat]⟩
  | cons cr rest ih =>
    intro pos out scs pos' out' h fuel hf
    obtain ⟨c, r⟩ := cr
    cases fuel with
    | zero => simp at hf
    | succ n =>
      simp only [runMsgs] at h
      split at h
      · cases h
      · rename_i hne
        simp only [Bool.or_eq_true, not_or, Bool.not_eq_true] at hne
        obtain ⟨hc, hr⟩ := hne
        split at h
        · rename_i cv tc hcmd
          split at h
          · cases h
          · rename_i htc
            split at h
            · cases h
            · rename_i enc henc
              split at h
              · rename_i rv tr hrsp
                split at h
                · cases h
                · rename_i htr
                  have htc' : tc.inp = [] := by simpa using htc
                  have htr' : tr.inp = [] := by simpa using htr
                  -- the command inside the stream
                  have hflat : flat ((c, r) :: rest) ++ z = c ++ (r ++ (flat rest ++ z)) := by simp [flat, List.append_assoc]
                  have hs0 : (⟨flat ((c, r) :: rest) ++ z, pos, out, scs⟩ : St) =
                      { shiftSt pos (r ++ (flat rest ++ z)) out (initSt c) with scs := scs } := by
                    simp [shiftSt, initSt, hflat]
                  have hC := decodeCommand_sh (d := pos) (y := r ++ (flat rest ++ z)) (pre := out) abort tb path (initSt c) (nd_ok hcmd)
                  rw [hcmd] at hC
                  rw [decodeStream]
                  have hne0 : (flat ((c, r) :: rest) ++ z).isEmpty = false := by
                    rw [hflat]; cases c with
                    | nil => simp at hc
                    | cons a t => rfl
                  simp only [hne0, Bool.false_eq_true, if_false]
                  rw [hs0, decodeCommand_scs, hC]
                  simp only [shiftR, R.bind_ok, henc]
                  have hne1 : (shiftSt pos (r ++ (flat rest ++ z)) out tc).inp.isEmpty = false := by
                    simp only [shiftSt_inp, htc', List.nil_append]
                    cases r with
                    | nil => simp at hr
                    | cons a t => rfl
                  simp only [hne1, Bool.false_eq_true, if_false]
                  -- the response
                  have hs1 : shiftSt pos (r ++ (flat rest ++ z)) out tc =
                      { shiftSt (tc.pos + pos) (flat rest ++ z) (out ++ shOut pos tc.out) (initSt r) with scs := tc.scs.map (shSC pos) } := by
                    simp [shiftSt, initSt, htc', shOut]
                  have hR := decodeResponse_sh (d := tc.pos + pos) (y := flat rest ++ z) (pre := out ++ shOut pos tc.out) abort tb
                    ((objField cv "commandCode").bind vInt) enc path (initSt r) (nd_ok hrsp)
                  rw [hrsp] at hR
                  rw [hs1, decodeResponse_scs, hR]
                  simp only [shiftR, R.bind_ok]
                  -- the rest of the stream
                  have hs2 : shiftSt (tc.pos + pos) (flat rest ++ z) (out ++ shOut pos tc.out) tr =
                      ⟨flat rest ++ z, pos + tc.pos + tr.pos, out ++ shOut pos tc.out ++ shOut (pos + tc.pos) tr.out, tr.scs.map (shSC (tc.pos + pos))⟩ := by
                    simp [shiftSt, htr', shOut, Nat.add_comm, Nat.add_left_comm]
                  rw [hs2]
                  obtain ⟨scs', hih⟩ := ih _ _ _ _ _ h n (by simp at hf; omega)
                  exact ⟨scs', by rw [hih]; simp⟩
              · cases h
        · cases h

theorem runMsgs_length (abort : Bool) (tb : MsgTables) (path : Path) : ∀ (ms : List (List Byte × List Byte)) p o p' o',
    runMsgs abort tb path ms p o = some (p', o') → ms.length ≤ (flat ms).length := by
  intro ms
  induction ms with
  | nil => intro p o p' o' _; simp
  | cons cr rest ih =>
    intro p o p' o' hh
    obtain ⟨c, r⟩ := cr
    simp only [runMsgs] at hh
    split at hh
    · cases hh
    · rename_i hne
      simp only [Bool.or_eq_true, not_or, Bool.not_eq_true] at hne
      have hc : 0 < c.length := by
        cases c with
        | nil => simp at hne
        | cons a t => simp
      split at hh
      · split at hh
        · cases hh
        · split at hh
          · cases hh
          · split at hh
            · split at hh
              · cases hh
              · have := ih _ _ _ _ hh
                simp only [flat, List.map_cons, List.flatten_cons, List.length_append, List.length_cons] at this ⊢
                omega
            · cases hh
      · cases hh

/-- **the first message whose own decode fails decides the stream (command)**: after messages that chain, a command whose decode on
its own bytes ends in an error other than running out of input makes the stream decode end in that error (moved by the offset), with
the chain's events followed by that command's events — whatever follows it -/
theorem stream_fails_at_command (abort : Bool) (tb : MsgTables) (path : Path) (msgs : List (List Byte × List Byte)) (c y : List Byte)
    (pos' : Nat) (out' : List (Nat × Event)) (h : runMsgs abort tb path msgs 0 [] = some (pos', out'))
    (e : Err) (t : St) (hc : decodeCommand abort tb path (initSt c) = .error (e, t)) (hnd : e ≠ .depleted) (hne : c ≠ []) :
    ∃ t', decodeStream abort tb path ((flat msgs ++ (c ++ y)).length + 1) (initSt (flat msgs ++ (c ++ y))) = .error (shErr pos' e, t') ∧
      t'.out = out' ++ shOut pos' t.out := by
  have hl := runMsgs_length abort tb path msgs 0 [] pos' out' h
  obtain ⟨scs', hs⟩ := stream_chain_then abort tb path (c ++ y) msgs 0 [] [] pos' out' h ((flat msgs ++ (c ++ y)).length + 1) (by
    simp only [List.length_append]; omega)
  obtain ⟨n, hn⟩ : ∃ n, (flat msgs ++ (c ++ y)).length + 1 - msgs.length = n + 1 :=
    ⟨(flat msgs ++ (c ++ y)).length - msgs.length, by simp only [List.length_append] at *; omega⟩
  rw [show initSt (flat msgs ++ (c ++ y)) = ⟨flat msgs ++ (c ++ y), 0, [], []⟩ from rfl, hs, hn]
  unfold decodeStream
  have hne0 : (c ++ y).isEmpty = false := by cases c with | nil => exact absurd rfl hne | cons a t => rfl
  simp only [hne0, Bool.false_eq_true, if_false]
  have hs0 : (⟨c ++ y, pos', out', scs'⟩ : St) = { shiftSt pos' y out' (initSt c) with scs := scs' } := by simp [shiftSt, initSt]
  have hC := decodeCommand_sh (d := pos') (y := y) (pre := out') abort tb path (initSt c)
    (Or.inr (by intro t' h'; rw [hc] at h'; simp only [Except.error.injEq, Prod.mk.injEq] at h'; exact hnd h'.1))
  rw [hc] at hC
  rw [hs0, decodeCommand_scs, hC]
  exact ⟨_, rfl, by simp [shiftSt, shOut, initSt]⟩

/-- … and the same for a response: its command decodes on its own, the response's own decode (under that command's code and flag)
ends in an error other than running out of input -/
theorem stream_fails_at_response (abort : Bool) (tb : MsgTables) (path : Path) (msgs : List (List Byte × List Byte)) (c r y : List Byte)
    (pos' : Nat) (out' : List (Nat × Event)) (h : runMsgs abort tb path msgs 0 [] = some (pos', out'))
    (cv : Val) (tc : St) (hc : decodeCommand abort tb path (initSt c) = .ok (cv, tc)) (htc : tc.inp = []) (hne : c ≠ [])
    (enc : Bool) (henc : cmdEncrypt tb cv = .ok enc)
    (e : Err) (t : St) (hr : decodeResponse abort tb ((objField cv "commandCode").bind vInt) enc path (initSt r) = .error (e, t))
    (hnd : e ≠ .depleted) (hner : r ≠ []) :
    ∃ t', decodeStream abort tb path ((flat msgs ++ (c ++ (r ++ y))).length + 1) (initSt (flat msgs ++ (c ++ (r ++ y)))) =
        .error (shErr (tc.pos + pos') e, t') ∧
      t'.out = out' ++ shOut pos' tc.out ++ shOut (tc.pos + pos') t.out := by
  have hl := runMsgs_length abort tb path msgs 0 [] pos' out' h
  obtain ⟨scs', hs⟩ := stream_chain_then abort tb path (c ++ (r ++ y)) msgs 0 [] [] pos' out' h ((flat msgs ++ (c ++ (r ++ y))).length + 1) (by
    simp only [List.length_append]; omega)
  obtain ⟨n, hn⟩ : ∃ n, (flat msgs ++ (c ++ (r ++ y))).length + 1 - msgs.length = n + 1 :=
    ⟨(flat msgs ++ (c ++ (r ++ y))).length - msgs.length, by simp only [List.length_append] at *; omega⟩
  rw [show initSt (flat msgs ++ (c ++ (r ++ y))) = ⟨flat msgs ++ (c ++ (r ++ y)), 0, [], []⟩ from rfl, hs, hn]
  unfold decodeStream
  have hne0 : (c ++ (r ++ y)).isEmpty = false := by cases c with | nil => exact absurd rfl hne | cons a t => rfl
  simp only [hne0, Bool.false_eq_true, if_false]
  have hs0 : (⟨c ++ (r ++ y), pos', out', scs'⟩ : St) = { shiftSt pos' (r ++ y) out' (initSt c) with scs := scs' } := by
    simp [shiftSt, initSt]
  have hC := decodeCommand_sh (d := pos') (y := r ++ y) (pre := out') abort tb path (initSt c) (nd_ok hc)
  rw [hc] at hC
  rw [hs0, decodeCommand_scs, hC]
  simp only [shiftR, R.bind_ok, henc]
  have hne1 : (shiftSt pos' (r ++ y) out' tc).inp.isEmpty = false := by
    simp only [shiftSt_inp, htc, List.nil_append]
    cases r with
    | nil => exact absurd rfl hner
    | cons a t => rfl
  simp only [hne1, Bool.false_eq_true, if_false]
  have hs1 : shiftSt pos' (r ++ y) out' tc =
      { shiftSt (tc.pos + pos') y (out' ++ shOut pos' tc.out) (initSt r) with scs := tc.scs.map (shSC pos') } := by
    simp [shiftSt, initSt, htc, shOut]
  have hR := decodeResponse_sh (d := tc.pos + pos') (y := y) (pre := out' ++ shOut pos' tc.out) abort tb
    ((objField cv "commandCode").bind vInt) enc path (initSt r)
    (Or.inr (by intro t' h'; rw [hr] at h'; simp only [Except.error.injEq, Prod.mk.injEq] at h'; exact hnd h'.1))
  rw [hr] at hR
  rw [hs1, decodeResponse_scs, hR]
  exact ⟨_, rfl, by simp [shiftSt, shOut, initSt]⟩

/-! ## every stream decode, of ANY input, is the iteration of its messages' own decodes -/

/-- decode the next command ON ITS OWN — from a fresh state on the remaining input — then the response on its own on what that left
(under the command's code and encrypt flag), and so on; positions, region ids and traces are moved to where the message stands.
The message boundaries are taken from the messages themselves: each decode says what it left. -/
def iterMsgs (abort : Bool) (tb : MsgTables) (path : Path) :
    Nat → List Byte → Nat → List (Nat × Event) → Except (Err × Nat × List (Nat × Event)) (Nat × List (Nat × Event))
  | 0, _, pos, out => .error (.crash "ModelError" "stream fuel", pos, out)
  | fuel+1, inp, pos, out =>
    if inp.isEmpty then .ok (pos, out ++ [(pos, .marshal ⟨path, .named "Command" false, none, "", 0⟩)]) else
    match decodeCommand abort tb path (initSt inp) with
    | .error (e, t) => .error (shErr pos e, t.pos + pos, out ++ shOut pos t.out)
    | .ok (cv, tc) =>
      match cmdEncrypt tb cv with
      | .error cls => .error (.crash cls "is_parameter_encryption(command)", tc.pos + pos, out ++ shOut pos tc.out)
      | .ok enc =>
        if tc.inp.isEmpty then
          .ok (tc.pos + pos, out ++ shOut pos tc.out ++ [(tc.pos + pos, .marshal ⟨path, .named "Response" false, none, "", 0⟩)])
        else
          match decodeResponse abort tb ((objField cv "commandCode").bind vInt) enc path (initSt tc.inp) with
          | .error (e, t) => .error (shErr (tc.pos + pos) e, t.pos + (tc.pos + pos), out ++ shOut pos tc.out ++ shOut (tc.pos + pos) t.out)
          | .ok (_, tr) => iterMsgs abort tb path fuel tr.inp (tr.pos + (tc.pos + pos)) (out ++ shOut pos tc.out ++ shOut (tc.pos + pos) tr.out)

/-- what a run shows: outcome, final position, trace -/
def projR (r : R Val) : Except (Err × Nat × List (Nat × Event)) (Nat × List (Nat × Event)) :=
  match r with
  | .ok (_, s) => .ok (s.pos, s.out)
  | .error (e, s) => .error (e, s.pos, s.out)

/-- **the stream decode of EVERY input, in either mode, is the iteration of the messages' own decodes** (no hypothesis on the input:
well-formed or not, complete or cut short, whatever the outcome) -/
theorem stream_is_iteration (abort : Bool) (tb : MsgTables) (path : Path) :
    ∀ (fuel : Nat) (inp : List Byte) (pos : Nat) (out : List (Nat × Event)) (scs : List SC),
      projR (decodeStream abort tb path fuel ⟨inp, pos, out, scs⟩) = iterMsgs abort tb path fuel inp pos out := by
  intro fuel
  induction fuel with
  | zero => intro inp pos out scs; rfl
  | succ n ih =>
    intro inp pos out scs
    rw [decodeStream, iterMsgs]
    by_cases hemp : inp.isEmpty = true
    · simp [hemp, projR, emitM, emit]
    · simp only [hemp, Bool.false_eq_true, if_false]
      have hs0 : (⟨inp, pos, out, scs⟩ : St) = { shiftSt pos [] out (initSt inp) with scs := scs } := by simp [shiftSt, initSt]
      have hC := decodeCommand_sh (d := pos) (y := []) (pre := out) abort tb path (initSt inp) (nd_nil _)
      rw [hs0, decodeCommand_scs, hC]
      cases hcmd : decodeCommand abort tb path (initSt inp) with
      | error et =>
        obtain ⟨e, t⟩ := et
        simp [shiftR, projR, shiftSt, shOut]
      | ok vt =>
        obtain ⟨cv, tc⟩ := vt
        simp only [shiftR, R.bind_ok]
        cases henc : cmdEncrypt tb cv with
        | error cls => simp [crash, projR, shiftSt, shOut]
        | ok enc =>
          simp only []
          by_cases hemp2 : tc.inp.isEmpty = true
          · have : (shiftSt pos [] out tc).inp.isEmpty = true := by simpa [shiftSt] using hemp2
            simp [this, hemp2, projR, emitM, emit, shiftSt, shOut]
          · have : (shiftSt pos [] out tc).inp.isEmpty = false := by simpa [shiftSt] using hemp2
            simp only [this, hemp2, Bool.false_eq_true, if_false]
            have hs1 : shiftSt pos [] out tc =
                { shiftSt (tc.pos + pos) [] (out ++ shOut pos tc.out) (initSt tc.inp) with scs := tc.scs.map (shSC pos) } := by
              simp [shiftSt, initSt, shOut]
            have hR := decodeResponse_sh (d := tc.pos + pos) (y := []) (pre := out ++ shOut pos tc.out) abort tb
              ((objField cv "commandCode").bind vInt) enc path (initSt tc.inp) (nd_nil _)
            rw [hs1, decodeResponse_scs, hR]
            cases hrsp : decodeResponse abort tb ((objField cv "commandCode").bind vInt) enc path (initSt tc.inp) with
            | error et =>
              obtain ⟨e, t⟩ := et
              simp [shiftR, projR, shiftSt, shOut]
            | ok vt2 =>
              obtain ⟨rv, tr⟩ := vt2
              simp only [shiftR, R.bind_ok]
              have hs2 : shiftSt (tc.pos + pos) [] (out ++ shOut pos tc.out) tr =
                  ⟨tr.inp, tr.pos + (tc.pos + pos), out ++ shOut pos tc.out ++ shOut (tc.pos + pos) tr.out, tr.scs.map (shSC (tc.pos + pos))⟩ := by
                simp [shiftSt, shOut]
              rw [hs2]
              exact ih _ _ _ _
