import TpmModel.MsgSpec
/-!
# Where the events of a well-formed encoding sit in the path tree

Every event dictated for a value at `path` has a path at least as long as `path`; the events of a
message other than its root event are strictly below the message's path.
-/

def Deep (n : Nat) (evs : List SEv) : Prop := ∀ e ∈ evs, n ≤ e.2.path.length

theorem Deep.nil (n : Nat) : Deep n [] := by intro e he; cases he

theorem Deep.cons {n : Nat} {e : SEv} {evs : List SEv} (h1 : n ≤ e.2.path.length) (h2 : Deep n evs) :
    Deep n (e :: evs) := by
  intro x hx
  simp only [List.mem_cons] at hx
  rcases hx with rfl | hx
  · exact h1
  · exact h2 x hx

theorem Deep.append {n : Nat} {a b : List SEv} (h1 : Deep n a) (h2 : Deep n b) : Deep n (a ++ b) := by
  intro x hx
  simp only [List.mem_append] at hx
  rcases hx with hx | hx
  · exact h1 x hx
  · exact h2 x hx

theorem Deep.shift {n : Nat} {a : List SEv} (k : Nat) (h : Deep n a) : Deep n (shift k a) := by
  intro x hx
  simp only [_root_.shift, List.mem_map] at hx
  obtain ⟨y, hy, rfl⟩ := hx
  exact h y hy

theorem Deep.mono {n m : Nat} {a : List SEv} (hnm : m ≤ n) (h : Deep n a) : Deep m a :=
  fun e he => Nat.le_trans hnm (h e he)

theorem elemPath_length (path : Path) (i : Nat) : path.length ≤ (elemPath path i).length := by
  simp [elemPath]; omega

theorem specPrim_deep {p : Prim} {path : Path} {v : Val} {bs : List Byte} {evs : List SEv}
    (h : specPrim p path v = some (bs, evs)) : Deep path.length evs := by
  unfold specPrim at h
  split at h
  · simp at h
  · split at h
    · simp only [Option.some.injEq, Prod.mk.injEq] at h
      obtain ⟨_, rfl⟩ := h
      exact Deep.cons (Nat.le_refl _) (Deep.nil _)
    · simp at h

theorem specRepeat_deep (f : Path → Val → Option (List Byte × List SEv))
    (hf : ∀ p v bs evs, f p v = some (bs, evs) → Deep p.length evs) (path : Path) :
    ∀ (vs : List Val) (i : Nat) (bs : List Byte) (evs : List SEv), specRepeat f path vs i = some (bs, evs) →
      Deep path.length evs
  | [], i, bs, evs, h => by
    simp only [specRepeat, Option.some.injEq, Prod.mk.injEq] at h
    obtain ⟨_, rfl⟩ := h
    exact Deep.nil _
  | v :: vs, i, bs, evs, h => by
    simp only [specRepeat] at h
    split at h
    · simp at h
    · rename_i b e hfe
      split at h
      · simp at h
      · rename_i bs' es' hrest
        simp only [Option.some.injEq, Prod.mk.injEq] at h
        obtain ⟨_, rfl⟩ := h
        exact Deep.append (Deep.mono (elemPath_length path i) (hf _ _ _ _ hfe))
          (Deep.shift _ (specRepeat_deep f hf path vs (i+1) bs' es' hrest))

theorem specPrimList_deep {p : Prim} {path : Path} {n : Nat} {v : Val} {bs : List Byte} {evs : List SEv}
    (h : specPrimList p path n v = some (bs, evs)) : Deep path.length evs := by
  unfold specPrimList at h
  split at h
  · simp at h
  · split at h
    · simp only [Option.map_eq_some_iff] at h
      obtain ⟨⟨b, e⟩, hr, heq⟩ := h
      simp only [Prod.mk.injEq] at heq
      obtain ⟨_, rfl⟩ := heq
      exact Deep.cons (Nat.le_refl _) (specRepeat_deep _ (fun _ _ _ _ h => specPrim_deep h) path _ 0 b e hr)
    · simp at h

theorem specFieldWith_deep (g : Path → Option Int → Val → Option (List Byte × List SEv))
    (hg : ∀ p sel v bs evs, g p sel v = some (bs, evs) → Deep p.length evs) (tname : String) (kind : FKind)
    (fpath : Path) (vals : List (String × Val)) (v : Val) (bs : List Byte) (evs : List SEv)
    (h : specFieldWith g tname kind fpath vals v = some (bs, evs)) : Deep fpath.length evs := by
  cases kind with
  | plain => exact hg _ _ _ _ _ h
  | selected sel =>
    simp only [specFieldWith] at h
    split at h
    · simp at h
    · exact hg _ _ _ _ _ h
  | counted =>
    simp only [specFieldWith] at h
    split at h
    · split at h
      · simp only [Option.map_eq_some_iff] at h
        obtain ⟨⟨b, e⟩, hr, heq⟩ := h
        simp only [Prod.mk.injEq] at heq
        obtain ⟨_, rfl⟩ := heq
        exact Deep.cons (Nat.le_refl _) (specRepeat_deep _ (fun p v bs evs h => hg p none v bs evs h) fpath _ 0 b e hr)
      · simp at h
    · simp at h

theorem length_snoc_le (path : Path) (x : PathNode) : path.length ≤ (path ++ [x]).length := by simp

mutual
theorem spec_deep : (t : Ty) → ∀ (path : Path) (sel : Option Int) (v : Val) (bs : List Byte) (evs : List SEv),
    spec t path sel v = some (bs, evs) → Deep path.length evs
  | .prim p, path, sel, v, bs, evs, h => by
    simp only [spec] at h
    exact specPrim_deep h
  | .struct name isP fs, path, sel, v, bs, evs, h => by
    simp only [spec] at h
    split at h
    · simp at h
    · simp only [Option.map_eq_some_iff] at h
      obtain ⟨⟨b, e⟩, hr, heq⟩ := h
      simp only [Prod.mk.injEq] at heq
      obtain ⟨_, rfl⟩ := heq
      exact Deep.cons (Nat.le_refl _) (specFields_deep fs path _ _ b e hr)
  | .tpm2bBytes name szName szP bufName elem, path, sel, v, bs, evs, h => by
    simp only [spec] at h
    split at h
    · simp at h
    · split at h
      · rename_i nb ne n hsz _
        split at h
        · simp at h
        · rename_i bb be hl
          split at h
          · simp only [Option.some.injEq, Prod.mk.injEq] at h
            obtain ⟨_, rfl⟩ := h
            exact Deep.cons (Nat.le_refl _) (Deep.append (Deep.mono (length_snoc_le _ _) (specPrim_deep hsz))
              (Deep.shift _ (Deep.mono (length_snoc_le _ _) (specPrimList_deep hl))))
          · simp at h
      · simp at h
  | .tpm2b name szName szP bufName body, path, sel, v, bs, evs, h => by
    simp only [spec] at h
    split at h
    · simp at h
    · split at h
      · rename_i nb ne n hsz _
        split at h
        · split at h
          · simp only [Option.some.injEq, Prod.mk.injEq] at h
            obtain ⟨_, rfl⟩ := h
            exact Deep.cons (Nat.le_refl _) (Deep.append (Deep.mono (length_snoc_le _ _) (specPrim_deep hsz))
              (Deep.cons (length_snoc_le _ _) (Deep.nil _)))
          · simp at h
        · split at h
          · simp at h
          · rename_i bb be hb
            split at h
            · simp only [Option.some.injEq, Prod.mk.injEq] at h
              obtain ⟨_, rfl⟩ := h
              exact Deep.cons (Nat.le_refl _) (Deep.append (Deep.mono (length_snoc_le _ _) (specPrim_deep hsz))
                (Deep.shift _ (Deep.mono (length_snoc_le _ _) (spec_deep body _ none _ bb be hb))))
            · simp at h
      · simp at h
  | .union name arms, path, sel, v, bs, evs, h => by
    simp only [spec] at h
    split at h
    · simp at h
    · simp only [Option.map_eq_some_iff] at h
      obtain ⟨⟨b, e⟩, hr, heq⟩ := h
      simp only [Prod.mk.injEq] at heq
      obtain ⟨_, rfl⟩ := heq
      exact Deep.cons (Nat.le_refl _) (specArm_deep arms _ _ path v b e hr)
  | .bad _, path, sel, v, bs, evs, h => by simp [spec] at h

theorem specArm_deep : (arms : Arms) → ∀ (un want : String) (path : Path) (v : Val) (bs : List Byte) (evs : List SEv),
    specArm arms un want path v = some (bs, evs) → Deep path.length evs
  | .nil, un, want, path, v, bs, evs, h => by simp [specArm] at h
  | .consNone an _ rest, un, want, path, v, bs, evs, h => by
    simp only [specArm] at h
    split at h
    · split at h
      · simp only [Option.some.injEq, Prod.mk.injEq] at h
        obtain ⟨_, rfl⟩ := h
        exact Deep.nil _
      · simp at h
    · exact specArm_deep rest un want path v bs evs h
  | .cons an _ t rest, un, want, path, v, bs, evs, h => by
    simp only [specArm] at h
    split at h
    · split at h
      · simp at h
      · exact Deep.mono (length_snoc_le _ _) (spec_deep t _ none _ bs evs h)
    · exact specArm_deep rest un want path v bs evs h
  | .consBytes an _ elem n rest, un, want, path, v, bs, evs, h => by
    simp only [specArm] at h
    split at h
    · split at h
      · simp at h
      · cases n with
        | none => simp [specListArm] at h
        | some k => exact Deep.mono (length_snoc_le _ _) (specPrimList_deep (by simpa [specListArm] using h))
    · exact specArm_deep rest un want path v bs evs h

theorem specFields_deep : (fs : Fields) → ∀ (path : Path) (vals fvs : List (String × Val)) (bs : List Byte) (evs : List SEv),
    specFields fs path vals fvs = some (bs, evs) → Deep path.length evs
  | .nil, path, vals, fvs, bs, evs, h => by
    simp only [specFields] at h
    split at h
    · simp only [Option.some.injEq, Prod.mk.injEq] at h
      obtain ⟨_, rfl⟩ := h
      exact Deep.nil _
    · simp at h
  | .cons fname kind t rest, path, vals, [], bs, evs, h => by simp [specFields] at h
  | .cons fname kind t rest, path, vals, (fn, v) :: fvs', bs, evs, h => by
    simp only [specFields] at h
    split at h
    · split at h
      · simp at h
      · rename_i b e hf
        split at h
        · simp at h
        · rename_i bs' es' hr
          simp only [Option.some.injEq, Prod.mk.injEq] at h
          obtain ⟨_, rfl⟩ := h
          exact Deep.append
            (Deep.mono (length_snoc_le _ _) (specFieldWith_deep _ (fun p sel v bs evs h => spec_deep t p sel v bs evs h) _ _ _ _ _ _ _ hf))
            (Deep.shift _ (specFields_deep rest path _ fvs' bs' es' hr))
    · simp at h
end
