import TpmProofs.TruncStreamPump
/-!
# A stream run that ends silently has shown exactly the bytes of its input (C02 for `CommandResponseStream`)

`c02_strict` is about outcome `.done`, which a stream run never has (a cleanly ending stream stops silently at the root event
of the next message); this is the corresponding statement for `.silent`.
-/

theorem any_split {α : Type} (q : α → Bool) : ∀ (l : List α), l.any q = true →
    ∃ pre a post, l = pre ++ a :: post ∧ q a = true ∧ l.takeWhile (fun x => !q x) = pre
  | [], h => by simp at h
  | a :: l, h => by
    by_cases ha : q a = true
    · exact ⟨[], a, l, rfl, ha, by simp [List.takeWhile_cons, ha]⟩
    · have ha' : q a = false := by simpa using ha
      simp only [List.any_cons, ha', Bool.false_or] at h
      obtain ⟨pre, b, post, hl, hb, ht⟩ := any_split q l h
      exact ⟨a :: pre, b, post, by rw [hl]; rfl, hb, by simp [List.takeWhile_cons, ha', ht]⟩

theorem pumpOutcome_ne_silent (x : List Byte) (pos : Nat) (res : Except Err Val) : pumpOutcome x pos res ≠ .silent := by
  unfold pumpOutcome
  split
  · split <;> simp
  · simp
  · simp
  · simp

/-- **C02 for streams**: whenever a strict stream decode ends silently — the only way a stream run ends without an error — the
events it has shown re-encode to exactly the input, byte for byte (every input) -/
theorem silent_facts (tb : MsgTables) (x : List Byte)
    (h : (marshalRun true tb .stream x).outcome = .silent) :
    evsBytes (marshalRun true tb .stream x).evs = x := by
  obtain ⟨new, off, a1, a2, a3, a4, a5⟩ := runWalker_acct tb .stream x
  have hT : traceOf tb .stream x = new := by simpa [initSt, traceOf] using a1
  simp only [initSt] at a2
  -- the pump stopped: the trace has a root event stamped with the input length
  have hflag : (traceOf tb .stream x).any (fun ke => ke.1 == x.length && isRootEllipsis ke.2) = true := by
    have := (pumpEvents_stream x.length (stOf (runWalker true tb .stream x)).out [] none).2
    by_cases hf : (pumpEvents true x.length (stOf (runWalker true tb .stream x)).out [] none).2.2 = true
    · rw [this] at hf; exact hf
    · exfalso
      simp only [marshalRun, pump, Top.isStream, hf, Bool.false_eq_true, if_false] at h
      exact pumpOutcome_ne_silent _ _ _ h
  obtain ⟨pre, ke, post, hsplit, hq, htw⟩ := any_split _ _ hflag
  obtain ⟨k, e⟩ := ke
  simp only [Bool.and_eq_true, beq_iff_eq] at hq
  -- the root event carries no bytes, so its stamp counts the bytes of the events before it
  have hst : Stamped 0 (pre ++ (k, e) :: post) := by rw [← hsplit, hT]; simpa [initSt] using a4
  rw [stamped_append] at hst
  have hk : k = (evBytes pre).length + e.bytes.length := by
    have := hst.2
    simp only [Stamped, Nat.zero_add] at this
    exact this.1
  have he : e.bytes = [] := by
    cases e with
    | warning w => simp [isRootEllipsis] at hq
    | marshal m =>
      simp only [isRootEllipsis, Bool.and_eq_true, Option.isNone_iff_eq_none] at hq
      simp [Event.bytes, MEvent.bytes, hq.2.2]
  have hlen : (evBytes pre).length = x.length := by rw [← hq.1, hk, he]; simp
  -- what was shown is `pre`
  rw [stream_evs]
  have hbs : beforeStop x.length (traceOf tb .stream x) = pre := by
    unfold beforeStop
    rw [← htw]
  rw [hbs, ← evBytes_eq]
  -- and `pre`'s bytes are a prefix of the input of the input's length
  have hx : x = evBytes pre ++ (evBytes ((k, e) :: post) ++ off ++ (stOf (runWalker true tb .stream x)).inp) := by
    conv => lhs; rw [a2, ← hT, hsplit, evBytes_append]
    simp [List.append_assoc]
  have := congrArg (List.take (evBytes pre).length) hx
  rw [List.take_left' rfl, hlen, List.take_length] at this
  exact this.symm
