import TpmProofs.BE
