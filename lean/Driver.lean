import TpmModel.Ser
import TpmModel.ValParse
import TpmModel.Spec
import TpmModel.Generated.Cmd
import TpmModel.Pinned.Cmd
/-! Line-protocol driver: one operation per input line, canonical observation lines + `END` per operation. -/

def findType (n : String) : Option Ty := (Generated.typeByName.find? (·.1 == n)).map (·.2)

def parseTop (ty cc enc : String) : Option Top :=
  match ty with
  | "Command" => some .command
  | "Stream" => some .stream
  | "Response" => some (.response (if cc == "-" then none else cc.toInt?) (enc == "1"))
  | n => (findType n).map .ty

def handle (line : String) : List String :=
  match line.splitOn " " with
  | ["DEC", mode, ty, cc, enc, hex] =>
    match parseTop ty cc enc, bytesOfHex hex with
    | some top, some bs => (marshalRun (mode == "S") Generated.msgTables top bs).lines (mode == "S")
    | none, _ => ["X unknown-type " ++ ty]
    | _, none => ["X bad-hex"]
  | ["SPECP", ty, sel, vs] =>
    match (Pinned.typeByName.find? (·.1 == ty)).map (·.2), parseValStr vs with
    | some t, some v =>
      match spec t rootPath (if sel == "-" then none else sel.toInt?) v with
      | none => ["X nonconforming"]
      | some (bs, evs) => ("B " ++ (if bs.isEmpty then "-" else hexOfBytes bs)) :: evs.map fun (o, e) => s!"E {o} {e.str}"
    | none, _ => ["X unknown-type " ++ ty]
    | _, none => ["X bad-val"]
  | ["SPEC", ty, sel, vs] =>
    match findType ty, parseValStr vs with
    | some t, some v =>
      match spec t rootPath (if sel == "-" then none else sel.toInt?) v with
      | none => ["X nonconforming"]
      | some (bs, evs) => ("B " ++ (if bs.isEmpty then "-" else hexOfBytes bs)) :: evs.map fun (o, e) => s!"E {o} {e.str}"
    | none, _ => ["X unknown-type " ++ ty]
    | _, none => ["X bad-val"]
  | _ => ["X bad-op"]

partial def loop (h : IO.FS.Stream) (out : IO.FS.Stream) : IO Unit := do
  let line ← h.getLine
  if line.isEmpty then return ()
  let l := line.trimAscii.toString
  if !l.isEmpty then
    for o in handle l do
      out.putStrLn o
    out.putStrLn "END"
  loop h out

def main : IO Unit := do
  let stdin ← IO.getStdin
  let stdout ← IO.getStdout
  loop stdin stdout
