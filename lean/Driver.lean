import TpmModel.Ser
import TpmModel.ValParse
import TpmModel.Spec
import TpmModel.MsgSpec
import TpmModel.E2O
import TpmModel.Generated.Cmd
import TpmModel.Pinned.Cmd
import TpmModel.Generated.Misc
import TpmModel.Pinned.Misc
import TpmModel.Pinned.Prims
import TpmModel.RcSpec
import TpmModel.Front
import TpmModel.Cache
import TpmModel.Print
import TpmModel.Relax
import TpmModel.Root
import TpmModel.Obj
import TpmModel.Cli
/-! Line-protocol driver: one operation per input line, canonical observation lines + `END` per operation. -/

def findType (n : String) : Option Ty := (Generated.typeByName.find? (·.1 == n)).map (·.2)

def parseTop (ty cc enc : String) : Option Top :=
  match ty with
  | "Command" => some .command
  | "Stream" => some .stream
  | "Response" => some (.response (if cc == "-" then none else cc.toInt?) (enc == "1"))
  | n => (findType n).map .ty


def rcFmt (v : Nat) : Option String := rcFormat Generated.rcTables "TPM_RC" v

def primLine (p : Prim) (x : Int) : String :=
  let w := p.wireOf x
  let bytes := if inRange w.1 w.2 x then hexOfBytes (p.toBytes x) else "OverflowError"
  s!"I valid={if p.isValid x then 1 else 0} bytes={bytes} fmt={p.format rcFmt x}"

def bitLines (p : Prim) (x : Nat) : List String :=
  let rows := match p.flavour with
    | .rc => rcRows Generated.rcTables x
    | _ => p.masks
  rows.map fun nm =>
    let f := match bitGet x nm.2 with | some k => toString k | none => "hang"
    s!"F {nm.1} {nm.2} {f} {bitsRow (8 * p.size) nm.2 x}"

def findPrim (n : String) : Option Prim := Generated.allPrims.find? (·.name == n)

/-- re-encoding of the emitted events (`Binary.unmarshal`) and the per-event slice check -/
def unmarshalLines (x : List Byte) (r : Run) : List String :=
  let chunks := r.events.map fun (_, e) => match e with
    | .marshal m => (match m.val, findPrim m.vclass with
        | some v, some p => (p.toBytes v, true)
        | _, _ => ([], false))
    | .warning _ => ([], false)
  let u := chunks.flatMap (·.1)
  let rec go : List (List Byte × Bool) → Nat → Nat → String
    | [], _, _ => "ok"
    | (ch, isPrim) :: rest, k, off =>
      if isPrim then
        if (x.drop off).take ch.length == ch then go rest (k+1) (off + ch.length) else s!"mismatch@{k}"
      else go rest (k+1) off
  [s!"U {if u.isEmpty then "-" else hexOfBytes u}", s!"S {go chunks 0 0}"]

def printEnv : PrintEnv :=
  { prim := findPrim, rc := rcFmt, rcRows := rcRows Generated.rcTables,
    rcDetails := fun v => (rcRowDetails Generated.rcTables v).getD [] }

def rowStr : Row → String
  | .field t d n h v => s!"P {if t.isEmpty then "-" else t} {d} {n} {if h.isEmpty then "-" else hexOfBytes h} {v}"
  | .info k => s!"P! {k}"

def erowStr : ERow → String
  | .field t p v => s!"E {t} {if p.isEmpty then "." else p} {v}"
  | .info k => s!"E! {k}"

/-! ### the allowed set a `ValueConstraintViolatedError` names: that of the declared type (a primitive type's declared set, or
the selector values of a union's members), as merged closed intervals -/

def mergeIvs : List (Int × Int) → List (Int × Int)
  | [] => []
  | [a] => [a]
  | a :: b :: rest =>
    if b.1 ≤ a.2 + 1 then mergeIvs ((a.1, max a.2 b.2) :: rest) else a :: mergeIvs (b :: rest)
termination_by l => l.length

def ivsStr (ivs : List (Int × Int)) : String :=
  let sorted := ivs.mergeSort (fun a b => a.1 ≤ b.1)
  ",".intercalate ((mergeIvs sorted).map fun (lo, hi) => if lo == hi then toString lo else s!"{lo}..{hi}")

def itemIv : VItem → List (Int × Int)
  | .range lo hi => if lo < hi then [(lo, hi - 1)] else []
  | .named _ _ lo hi _ _ _ => if lo < hi then [(lo, hi - 1)] else []
  | .member _ _ v _ _ => [(v, v)]
  | .int v => [(v, v)]
  | .unknown _ => []

def validOfName (n : String) : String :=
  match findPrim n with
  | some p => ivsStr (p.valid.flatMap itemIv)
  | none =>
    match Generated.allTypes.find? (fun t => t.name == n) with
    | some (.union _ arms) => ivsStr (arms.keys.filterMap fun k => match k.2 with | .int v => some (v, v) | _ => none)
    | _ => "?"

/-- append `valid=…` to the rendering of a value error (lines `W … ValueConstraintViolatedError …` and `R raised …`) -/
def withValid (l : String) : String :=
  match l.splitOn "ValueConstraintViolatedError path=" with
  | [pre, post] =>
    let toks := post.splitOn " "
    match toks.find? (fun t => t.startsWith "type=") with
    | some tt =>
      -- insert right after the `value=…` token
      let ty := (tt.drop 5).toString
      let out := toks.map fun t => if t.startsWith "value=" then t ++ " valid=" ++ validOfName ty else t
      pre ++ "ValueConstraintViolatedError path=" ++ " ".intercalate out
    | none => l
  | _ => l

def handleRaw (line : String) : List String :=
  match line.splitOn " " with
  | ["DEC", mode, ty, cc, enc, hex] =>
    match parseTop ty cc enc, bytesOfHex hex with
    | some top, some bs => (marshalRun (mode == "S") Generated.msgTables top bs).lines (mode == "S")
    | none, _ => ["X unknown-type " ++ ty]
    | _, none => ["X bad-hex"]
  | ["DECR", mode, ty, cc, enc, hex, root] =>
    -- the same decode below a caller-supplied root path (`root_path=` of Binary.marshal): root = "." ++ names joined by "."
    match parseTop ty cc enc, bytesOfHex hex with
    | some top, some bs =>
      let rt : Path := rootPath ++ ((root.splitOn ".").filter (· != "")).map fun n => (⟨n, none⟩ : PathNode)
      (marshalRunAt (mode == "S") Generated.msgTables top rt bs).lines (mode == "S")
    | none, _ => ["X unknown-type " ++ ty]
    | _, none => ["X bad-hex"]
  | ["DECL", ty, cc, enc, hex] =>
    -- the lenient interpretation: strict decoding under the relaxed tables
    match parseTop ty cc enc, bytesOfHex hex with
    | some top, some bs => (marshalRun true Generated.msgTables.relax top.relax bs).lines true
    | none, _ => ["X unknown-type " ++ ty]
    | _, none => ["X bad-hex"]
  | ["DECU", mode, ty, cc, enc, hex] =>
    match parseTop ty cc enc, bytesOfHex hex with
    | some top, some bs =>
      let r := marshalRun (mode == "S") Generated.msgTables top bs
      let ls := r.lines (mode == "S")
      ls.dropLast ++ unmarshalLines bs r ++ [ls.getLast!]
    | none, _ => ["X unknown-type " ++ ty]
    | _, none => ["X bad-hex"]
  | ["PRINT", mode, ty, cc, enc, hex] =>
    match parseTop ty cc enc, bytesOfHex hex with
    | some top, some bs =>
      let r := marshalRun (mode == "S") Generated.msgTables top bs
      match r.outcome with
      | .crash c _ => [s!"P decode-crash {c}"]
      | _ =>
      let evs := streamOf (mode == "S") r
      let pr := match prettyRows printEnv evs with
        | .ok rows => rows.map rowStr
        | .error e => [s!"P crash {e}"]
      let u := evs.flatMap fun e => match e with
        | .marshal m => (match eventBytes printEnv m with | .ok b => b | .error _ => [])
        | .warning _ => []
      pr ++ [s!"U {if u.isEmpty then "-" else hexOfBytes u} {evs.length}", s!"K {if shownB printEnv evs then 1 else 0}"] ++
        (eventsRows printEnv evs 0).map erowStr
    | none, _ => ["X unknown-type " ++ ty]
    | _, none => ["X bad-hex"]
  | ["O2E", ty, cc, vs] =>
    match parseValStr vs with
    | none => ["X bad-val"]
    | some v =>
      let evs := match ty with
        | "Command" => some (o2eMessage Generated.msgTables true ((objField v "commandCode").bind vInt) v rootPath)
        | "Response" => some (o2eMessage Generated.msgTables false (if cc == "-" then none else cc.toInt?) v rootPath)
        | n => (findType n).map fun t => o2e t v rootPath
      match evs with
      | none => ["X unknown-type " ++ ty]
      | some es => es.map fun e => s!"M 0 {e.str}"
  | ["TYPES", hex] =>
    match bytesOfHex hex with
    | none => ["X bad-hex"]
    | some bs =>
      (typeListing Generated.msgTables (Generated.structures.map fun t => (t.name, t)) Generated.ccMembers bs).map fun n => "T " ++ n
  | ["PLAN", fmtIn, ty, cmd] =>
    let plan := convertPlan ((Generated.structures.map fun t => (t.name, t))) Generated.ccMembers fmtIn
      (if ty == "-" then none else some ty) (if cmd == "-" then none else some cmd)
    [match plan with
     | .refused _ => "L refused"
     | .crashed c => "L crashed " ++ c
     | .run .stream => "L run Stream"
     | .run .command => "L run Command"
     | .run (.response cc _) => "L run Response " ++ optIntStr cc
     | .run (.ty t) => "L run " ++ t.name]
  | ["SPECP", ty, sel, vs] =>
    match (Pinned.typeByName.find? (·.1 == ty)).map (·.2), parseValStr vs with
    | some t, some v =>
      match spec t rootPath (if sel == "-" then none else sel.toInt?) v with
      | none => ["X nonconforming"]
      | some (bs, evs) => ("B " ++ (if bs.isEmpty then "-" else hexOfBytes bs)) :: evs.map fun (o, e) => s!"E {o} {e.str}"
    | none, _ => ["X unknown-type " ++ ty]
    | _, none => ["X bad-val"]
  | ["SPEC", ty, sel, vs] =>
    match findType ty, parseValStr vs with
    | some t, some v =>
      match spec t rootPath (if sel == "-" then none else sel.toInt?) v with
      | none => ["X nonconforming"]
      | some (bs, evs) => ("B " ++ (if bs.isEmpty then "-" else hexOfBytes bs)) :: evs.map fun (o, e) => s!"E {o} {e.str}"
    | none, _ => ["X unknown-type " ++ ty]
    | _, none => ["X bad-val"]
  | ["E2O", mode, ty, cc, enc, hex] =>
    -- events_to_obj over the (marshal) events of the model's own decode
    match parseTop ty cc enc, bytesOfHex hex with
    | some top, some inp =>
      let w := runWalker (mode == "S") Generated.msgTables top inp
      let evs := (stOf w).out.filterMap fun ke => match ke.2 with | .marshal m => some m | .warning _ => none
      [match e2oTop Generated.msgTables top evs with
       | some v => "B " ++ v.str
       | none => "B crash"]
    | _, _ => ["X bad-e2o-op"]
  | ["E2OS", mode, hex] =>
    -- events_to_objs over the events a stream decode shows (also the partial list of a decode that raises)
    match bytesOfHex hex with
    | some inp =>
      let run := marshalRun (mode == "S") Generated.msgTables .stream inp
      let r := e2oStream Generated.msgTables none (separateEvents (run.events.map (·.2)) [])
      r.1.map (fun v => "O " ++ v.str) ++ (if r.2 then ["O crash"] else [])
    | none => ["X bad-e2os-op"]
  | ["MSPEC", ty, cc, enc, hex] =>
    -- is this message well-formed in the sense of `specCommand` / `specResponse` / `specStream`, and do the bytes and
    -- events the specification dictates coincide with the input and with the strict decode of the model?
    match bytesOfHex hex with
    | none => ["X bad-hex"]
    | some inp =>
      let tb := Generated.msgTables
      let report := fun (r : Option (List Byte × List SEv)) (walk : R Val) (extra : Nat) =>
        match r with
        | none => ["MS nonconforming"]
        | some (bs, evs) =>
          let tr := (stOf walk).out
          let same := bs == inp && decide (evs.map (fun e => (e.1, Event.marshal e.2)) = tr.take (tr.length - extra))
          [s!"MS {if same then "ok" else "mismatch"} bytes={bs.length} events={evs.length}"]
      match ty with
      | "Command" =>
        let w := decodeCommand true tb rootPath (initSt inp)
        (match w with
         | .ok (v, _) => (match CmdParts.ofVal v with
            | some p => report (specCommand tb rootPath p) w 0
            | none => ["MS no-parts"])
         | .error _ => ["MS decode-error"])
      | "Response" =>
        let c := if cc == "-" then none else cc.toInt?
        let w := decodeResponse true tb c (enc == "1") rootPath (initSt inp)
        (match w with
         | .ok (v, _) => (match RspParts.ofVal v with
            | some p => report (specResponse tb c (enc == "1") rootPath p) w 0
            | none => ["MS no-parts"])
         | .error _ => ["MS decode-error"])
      | "Stream" =>
        (match streamParts tb (inp.length + 1) inp with
         | some (xs, last) => report (specStream tb rootPath last xs) (decodeStream true tb rootPath (inp.length + 1) (initSt inp)) 1
         | none => ["MS decode-error"])
      | _ => ["X bad-mspec"]
  | ["INT", pn, xs] =>
    match findPrim pn, xs.toInt? with
    | some p, some x => [primLine p x]
    | _, _ => ["X bad-int-op"]
  | ["INTP", pn, xs] =>
    -- the same question answered from the pinned tables, response codes by the bit-position spec
    match Pinned.allPrims.find? (·.name == pn), xs.toInt? with
    | some p, some x =>
      let w := p.wireOf x
      let bytes := if inRange w.1 w.2 x then hexOfBytes (intToBytes p.size x) else "OverflowError"
      let rc := fun v => rcRender Pinned.rcTables "TPM_RC" (C18.rcSpec v)
      [s!"I valid={if p.isValid x then 1 else 0} bytes={bytes} fmt={p.format rc x}"]
    | _, _ => ["X bad-int-op"]
  | ["FRONT", which, hex] =>
    match bytesOfHex hex with
    | none => ["X bad-hex"]
    | some s =>
      let show_ := fun (r : FrontRes) => match r with
        | .ok bs => s!"F ok {if bs.isEmpty then "-" else hexOfBytes bs}"
        | .valueError bs => s!"F ValueError {if bs.isEmpty then "-" else hexOfBytes bs}"
      match which with
      | "hex" => [show_ (hexParse s)]
      | "swtpm" => [show_ (swtpmParse Generated.swtpmConsts s)]
      | "auto" => [match autoDetect s with
          | none => "F IOError" | some .pcapng => "F pcapng" | some .hex => "F hex" | some .binary => "F binary"]
      | _ => ["X bad-front"]
  | ["TRIM", payloads] =>
    let ps := (payloads.splitOn ";").map fun h => if h == "-" then some [] else bytesOfHex h
    if ps.any Option.isNone then ["X bad-hex"] else
    let bs := pcapBytes (ps.filterMap id)
    [s!"F ok {if bs.isEmpty then "-" else hexOfBytes bs}"]
  | ["CACHE", names] =>
    (Cache.run (Cache.init Generated.cacheCapacity) (names.splitOn ",")).map fun p => s!"C {p.1} {p.2}"
  | ["RCD", xs] =>
    match xs.toNat? with
    | some x =>
      (match rcRowDetails Generated.rcTables x with
       | some ds => (ds.mergeSort (fun a b => a.1 ≤ b.1)).map fun d => s!"D {d.1} {d.2}"
       | none => ["D crash KeyError"])
    | none => ["X bad-rcd-op"]
  | ["BITS", pn, xs] =>
    match findPrim pn, xs.toNat? with
    | some p, some x => bitLines p x
    | _, _ => ["X bad-bits-op"]
  | _ => ["X bad-op"]

def handle (line : String) : List String := (handleRaw line).map withValid

partial def loop (h : IO.FS.Stream) (out : IO.FS.Stream) : IO Unit := do
  let line ← h.getLine
  if line.isEmpty then return ()
  let l := line.trimAscii.toString
  if !l.isEmpty then
    for o in handle l do
      out.putStrLn o
    out.putStrLn "END"
  loop h out

def main : IO Unit := do
  let stdin ← IO.getStdin
  let stdout ← IO.getStdout
  loop stdin stdout
