#!/venv/bin/python
"""./check <property> [--tier quick|thorough] [--replay <path>]

One run = translate /repo's tables -> build + audit the property's Lean theorems -> correspondence
(model vs implementation) + monitor (the property's executable predicate on the implementation's own
observations) -> verdict -> evidence/<id>.json.

exit 0: property held on everything explored (KNOWN-FINDING lines allowed)
exit 1: `VIOLATION property=<id> replay=<path>[ no-failing-input-found]`
exit 2: infrastructure problem / timeout (never a VIOLATION line)
"""
import argparse
import hashlib
import importlib
import json
import os
import re
import subprocess
import sys
import time
import traceback

HERE = os.path.dirname(os.path.abspath(__file__))
VERIF = os.path.dirname(HERE)
LEAN = os.path.join(VERIF, "lean")
sys.path.insert(0, HERE)
sys.path.insert(0, os.path.join(HERE, "harness"))

ALLOWED_AXIOMS = {"propext", "Quot.sound", "Classical.choice"}
FORBIDDEN = re.compile(r"\b(sorry|admit|native_decide|bv_decide|implemented_by|unsafe)\b|^\s*axiom\s|maxHeartbeats\s+0")

TRUSTED_BASE = [
    "Lean 4.33.0 kernel (thorough tier: re-checked by leanchecker)",
    "axioms: subset of {propext, Quot.sound, Classical.choice}, audited per theorem on every run; no sorry/admit/native_decide/bv_decide/user axioms",
    "tools/translate.py: the generated Lean tables say what /repo's class attributes say (validated by decoding generated inputs of every type through both)",
    "hand-written Lean model of the algorithms, tied to /repo by the correspondence run of this check (sampled, not proved)",
    "CPython semantics of generators, int.from_bytes/to_bytes, dict ordering, dataclasses",
]


class Ctx:
    def __init__(self, prop, tier, seed):
        self.prop = prop
        self.tier = tier
        self.seed = seed
        self.t0 = time.time()
        self.log = []
        self.translate = None
        self.layout_diff = []
        self.build_ok = None
        self.build_errors = []
        self.audit = {}
        self.audit_ok = None
        self.violations = []      # dicts: {"kind": "concrete"|"obligation", "what":…, "replay": {...}}
        self.known = []           # KNOWN-FINDING lines
        self.stats = {}

    def note(self, msg):
        self.log.append(f"[{time.time() - self.t0:6.1f}s] {msg}")
        print(f"[{time.time() - self.t0:6.1f}s] {msg}", flush=True)


def sh(cmd, cwd=None, timeout=3600, env=None):
    p = subprocess.run(cmd, cwd=cwd, capture_output=True, text=True, timeout=timeout, env=env)
    return p.returncode, p.stdout, p.stderr


def step_translate(ctx):
    rc, out, err = sh(["/venv/bin/python", os.path.join(HERE, "translate.py")], cwd=VERIF, timeout=600)
    if rc != 0:
        ctx.translate = {"ok": False, "error": (err or out)[-2000:]}
        ctx.note("translate FAILED")
        return False
    try:
        ctx.translate = json.loads(out.strip().split("\n")[-1])
        ctx.translate["ok"] = True
    except Exception:  # noqa
        ctx.translate = {"ok": False, "error": out[-2000:]}
        return False
    gen = json.load(open(os.path.join(VERIF, "generated", "layout.json")))
    pin = json.load(open(os.path.join(VERIF, "pinned", "layout.json")))
    ctx.layout_diff = layout_diff(pin, gen)
    ctx.note(f"translate ok; lean files changed: {ctx.translate.get('lean_changed')}; "
             f"entries differing from the pinned layout: {len(ctx.layout_diff)}")
    return True


def layout_diff(pin, gen):
    """list of (section, key) whose definition differs between the pinned and the generated layout"""
    out = []
    for sec in ("prims", "types"):
        keys = list(dict.fromkeys(list(pin[sec]) + list(gen[sec])))
        for k in keys:
            if pin[sec].get(k) != gen[sec].get(k):
                out.append((sec, k))
    for sec in ("maps",):
        for m in pin[sec]:
            if pin[sec][m] != gen[sec].get(m):
                out.append((sec, m))
    for sec in ("cc", "command_fields", "response_fields", "command_selectors", "consts", "prim_order", "order",
                "structures"):
        if pin.get(sec) != gen.get(sec):
            out.append((sec, sec))
    for k in pin.get("misc", {}):
        if pin["misc"][k] != gen.get("misc", {}).get(k):
            out.append(("misc", k))
    return out


def step_build(ctx, targets, clean=False):
    if clean:
        sh(["rm", "-rf", os.path.join(LEAN, ".lake", "build")])
    t = time.time()
    rc, out, err = sh(["lake", "build", "tpmdriver"], cwd=LEAN, timeout=3000)
    if rc != 0:
        ctx.build_ok = False
        ctx.build_errors = [("driver", (out + err)[-3000:])]
        ctx.note("driver build FAILED")
        return "driver"
    rc, out, err = sh(["lake", "build"] + targets, cwd=LEAN, timeout=3000)
    ctx.build_ok = rc == 0
    if rc != 0:
        errs = [l for l in (out + err).split("\n") if l.startswith("error:")]
        ctx.build_errors = [("proofs", l[:600]) for l in errs[:20]]
        ctx.note(f"proof build FAILED: {len(errs)} error lines, first: {errs[0][:200] if errs else '?'}")
    else:
        ctx.note(f"lake build ok ({time.time() - t:.1f}s): {' '.join(targets)}")
    return None


def step_audit(ctx, module, theorems):
    """#print axioms for every property theorem + grep for forbidden constructs"""
    os.makedirs(os.path.join(LEAN, ".lake", "audit"), exist_ok=True)
    f = os.path.join(LEAN, ".lake", "audit", f"{ctx.prop}.lean")
    with open(f, "w") as fh:
        mods = module if isinstance(module, (list, tuple)) else [module]
        fh.write("".join(f"import {m}\n" for m in mods) + "".join(f"#print axioms {t}\n" for t in theorems))
    rc, out, err = sh(["lake", "env", "lean", f], cwd=LEAN, timeout=1200)
    res = {}
    cur = None
    text = out + err
    for m in re.finditer(r"'([^']+)' (depends on axioms: \[([^\]]*)\]|does not depend on any axioms)", text.replace("\n", " ")):
        res[m.group(1)] = [a.strip() for a in m.group(3).split(",")] if m.group(3) else []
    ok = True
    for t in theorems:
        if t not in res:
            ok = False
            res[t] = ["<missing>"]
        elif not set(res[t]) <= ALLOWED_AXIOMS:
            ok = False
    # forbidden constructs anywhere in the library sources (comments stripped crudely)
    bad = []
    for root in ("TpmModel", "TpmProofs"):
        for dp, _, fns in os.walk(os.path.join(LEAN, root)):
            for fn in fns:
                if not fn.endswith(".lean"):
                    continue
                src = open(os.path.join(dp, fn)).read()
                src = re.sub(r"/-.*?-/", "", src, flags=re.S)
                for i, line in enumerate(src.split("\n")):
                    line = line.split("--")[0]
                    if FORBIDDEN.search(line):
                        bad.append(f"{fn}:{i + 1}: {line.strip()[:100]}")
    if bad:
        ok = False
    ctx.audit = {"axioms": res, "forbidden": bad}
    ctx.audit_ok = ok
    ctx.note(f"audit {'ok' if ok else 'FAILED'}: {len(theorems)} theorems, axioms used: "
             f"{sorted({a for v in res.values() for a in v})}" + (f"; forbidden: {bad[:3]}" if bad else ""))
    return ok


def step_leanchecker(ctx, modules):
    rc, out, err = sh(["lake", "env", "leanchecker"] + modules, cwd=LEAN, timeout=3000)
    ok = rc == 0
    ctx.stats["leanchecker"] = {"ok": ok, "modules": modules, "tail": (out + err)[-300:]}
    ctx.note(f"leanchecker {'ok' if ok else 'FAILED'} on {modules}")
    return ok


def step_corpus(ctx):
    """the decode inputs of every entry of known_findings.jsonl (repaired defects and findings, all properties) run first on
    every check: model == implementation on them in the recorded mode, and no internal error other than a listed finding"""
    sys.path.insert(0, os.path.join(HERE, "harness"))
    import canon
    import core
    entries = [k for k in load_known() if isinstance(k.get("replay"), dict) and "hex" in k["replay"] and "type" in k["replay"]]
    ops = []
    for k in entries:
        r = k["replay"]
        mode = "W" if r.get("mode") == "warn" else "S"
        try:
            data = bytes.fromhex(r["hex"])
            canon.resolve_type(r["type"])
        except Exception:  # noqa
            continue
        ops.append((k, ("DEC", mode, r["type"], r.get("command_code"), bool(r.get("parameter_encryption")), data)))
    if not ops:
        return
    impl = core.run_impl([o for _, o in ops])
    model = core.run_model([core.op_line(o) for _, o in ops])
    bad = 0
    for (k, o), a, b in zip(ops, impl, model):
        if a != b:
            bad += 1
            if bad == 1:
                ctx.violations.append({"kind": "correspondence",
                                       "what": "correspondence 'corpus of past failures' no longer checks: model and implementation disagree",
                                       "replay": {"correspondence": "corpus", "from": k.get("line", k.get("what", ""))[:160], "type": o[2],
                                                  "command_code": o[3], "parameter_encryption": o[4], "mode": "warn" if o[1] == "W" else "strict",
                                                  "hex": o[5].hex(), "model": b[-1][:200], "impl": a[-1][:200]}})
    # entries recorded with a caller-supplied root path: the implementation below that root == the implementation at the default root
    rooted = [(k, o) for k, o in ops if k["replay"].get("root_path")]
    if rooted:
        r1 = core.run_impl([("DECROOT",) + o[1:] + (k["replay"]["root_path"],) for k, o in rooted])
        r0 = core.run_impl([o for _, o in rooted])
        for (k, o), a, b in zip(rooted, r0, r1):
            if a != b:
                bad += 1
                ctx.violations.append({"kind": "concrete", "signature": f"corpus:root-path:{o[2]}",
                                       "what": "a repaired defect is back: decoding below a caller-supplied root path differs from decoding at the default root",
                                       "replay": {"from": k.get("line", "")[:160], "type": o[2], "root_path": k["replay"]["root_path"], "hex": o[5].hex(),
                                                  "expected": a[-1][:200], "observed": b[-1][:200]}})
    ctx.stats.setdefault("correspondence", {})
    if isinstance(ctx.stats["correspondence"], dict):
        ctx.stats["correspondence"]["corpus_of_past_failures"] = {"inputs": len(ops), "rooted": len(rooted), "disagreements": bad}


def load_known():
    p = os.path.join(VERIF, "known_findings.jsonl")
    out = []
    if os.path.exists(p):
        for line in open(p):
            line = line.strip()
            if line and not line.startswith("#"):
                out.append(json.loads(line))
    return out


def write_replay(ctx, payload):
    d = os.path.join(VERIF, "replays", ctx.prop)
    os.makedirs(d, exist_ok=True)
    s = json.dumps(payload, indent=1, sort_keys=True, default=str)
    h = hashlib.sha256(s.encode()).hexdigest()[:12]
    p = os.path.join(d, f"{h}.json")
    with open(p, "w") as f:
        f.write(s)
    return os.path.relpath(p, VERIF)


def main():
    ap = argparse.ArgumentParser()
    ap.add_argument("prop")
    ap.add_argument("--tier", default=os.environ.get("VERIF_TIER", "quick"), choices=["quick", "thorough"])
    ap.add_argument("--replay")
    args = ap.parse_args()
    seed = int(os.environ.get("VERIF_SEED", "1"))
    ctx = Ctx(args.prop, args.tier, seed)
    if not os.path.exists(os.path.join(HERE, "props", f"{args.prop}.py")):
        print(f"unknown property {args.prop}")
        sys.exit(2)
    try:
        mod = importlib.import_module(f"props.{args.prop}")
    except Exception:  # noqa  (the harness imports /repo's package: a tree whose package does not import ends here)
        tb = traceback.format_exc()
        print(tb)
        try:
            drift = source_drift()
        except Exception:  # noqa
            drift = []
        if drift:
            path = write_replay(ctx, {"property": ctx.prop, "kind": "obligation",
                                      "what": "the package of this tree, whose source differs from the pinned one, cannot be imported by the harness",
                                      "source_files_differing_from_pinned": drift, "exception": tb[-3000:]})
            print(f"VIOLATION property={ctx.prop} replay={path} no-failing-input-found")
            sys.exit(1)
        sys.exit(2)
    P = mod.PROP
    try:
        rc = run(ctx, P, args)
    except subprocess.TimeoutExpired as e:
        print(f"TIMEOUT: {e}")
        rc = 2
    except Exception:  # noqa
        tb = traceback.format_exc()
        print(tb)
        rc = 2
        # a monitor that cannot complete on the pinned tree is a defect of the harness (exit 2).  On a tree whose source is not the
        # pinned one it means the changed code behaves in a way the monitor did not expect: the property is no longer shown to
        # hold, which is reported as such (no failing input), with the harness exception as the replay.
        try:
            drift = source_drift()
        except Exception:  # noqa
            drift = []
        if drift:
            path = write_replay(ctx, {"property": ctx.prop, "kind": "obligation",
                                      "what": "the check could not complete on this tree, whose source differs from the pinned one: the "
                                              "correspondence run / monitor ended with an exception",
                                      "source_files_differing_from_pinned": drift, "exception": tb[-3000:]})
            print(f"VIOLATION property={ctx.prop} replay={path} no-failing-input-found")
            rc = 1
    sys.exit(rc)


def run(ctx, P, args):
    if not step_translate(ctx):
        print("infrastructure: translator failed:", ctx.translate.get("error", "")[-800:])
        drift = source_drift()
        if drift:
            # the tables of a changed tree cannot be translated: the theorems cannot be re-checked against what the code says now
            path = write_replay(ctx, {"property": ctx.prop, "kind": "obligation",
                                      "what": "tools/translate.py cannot translate the tables of this tree, whose source differs from the pinned one: "
                                              "the theorems cannot be re-checked against the code",
                                      "source_files_differing_from_pinned": drift, "translator_error": ctx.translate.get("error", "")[-3000:]})
            print(f"VIOLATION property={ctx.prop} replay={path} no-failing-input-found")
            return 1
        return 2
    bad = step_build(ctx, P["targets"], clean=(ctx.tier == "thorough" and os.environ.get("VERIF_NO_CLEAN") != "1"))
    if bad == "driver":
        print("infrastructure: model driver does not build:", ctx.build_errors[0][1][-800:])
        return 2
    if ctx.build_ok:
        step_audit(ctx, P["module"], P["theorems"])
        if ctx.tier == "thorough":
            step_leanchecker(ctx, P.get("checker_modules", P["module"] if isinstance(P["module"], list) else [P["module"]]))
    # correspondence + monitor (also runs when the proofs broke: that is the failing-input search)
    replay_case = None
    if args.replay:
        replay_case = json.load(open(args.replay if os.path.isabs(args.replay) else os.path.join(VERIF, args.replay)))
    P["run"](ctx, replay_case)
    step_corpus(ctx)
    # source drift: when the modelled source of /repo is not the pinned one (somebody changed the code), the quick tier samples a
    # second time under another seed - unless a failing input is already in hand.  On the pinned tree nothing changes.
    drift = source_drift()
    ctx.stats["source_files_differing_from_pinned"] = drift
    if drift and ctx.tier == "quick" and replay_case is None and not any(v["kind"] == "concrete" for v in ctx.violations) \
            and time.time() - ctx.t0 < 240:
        ctx.note(f"source differs from the pinned tree in {len(drift)} file(s) ({', '.join(drift[:3])}): second sampling pass")
        first = {k: ctx.stats.get(k) for k in ("evaluations", "distinct_nontrivial", "distribution")}
        seed0 = ctx.seed
        ctx.seed = seed0 + 7919
        try:
            P["run"](ctx, None)
        finally:
            ctx.seed = seed0
        ctx.stats["first_pass"] = first
        ctx.stats["evaluations"] = int(ctx.stats.get("evaluations", 0)) + int(first.get("evaluations") or 0)

    known = [k for k in load_known() if k.get("property") == ctx.prop and k.get("kind") == "finding"]
    new_viol = []
    for v in ctx.violations:
        sig = v.get("signature")
        hit = next((k for k in known if sig is not None and k.get("signature") == sig), None)
        if hit:
            line = f"KNOWN-FINDING: property={ctx.prop} {hit['what']}"
            if line not in ctx.known:
                ctx.known.append(line)
        else:
            new_viol.append(v)
    for line in ctx.known:
        print(line)

    proof_ok = bool(ctx.build_ok) and bool(ctx.audit_ok) and ctx.stats.get("leanchecker", {"ok": True})["ok"]
    rc = 0
    lines = []
    concrete = [v for v in new_viol if v["kind"] == "concrete"]
    broken = [v for v in new_viol if v["kind"] != "concrete"]
    if not proof_ok:
        broken.append({"kind": "obligation", "what": "proof obligations no longer check",
                       "replay": {"build_errors": ctx.build_errors, "audit": ctx.audit,
                                  "layout_entries_differing_from_pinned": ctx.layout_diff[:50]}})
    seen = set()
    uniq = {}
    for v in concrete:
        uniq.setdefault(v.get("signature") or v["what"], v)
    for v in list(uniq.values())[:3]:
        path = write_replay(ctx, {"property": ctx.prop, "kind": "concrete", "what": v["what"], **v["replay"]})
        if path not in seen:
            lines.append(f"VIOLATION property={ctx.prop} replay={path}")
            seen.add(path)
    if not concrete and broken:
        v = broken[0]
        path = write_replay(ctx, {"property": ctx.prop, "kind": v["kind"], "what": v["what"],
                                  "all": [b["what"] for b in broken], **v["replay"]})
        lines.append(f"VIOLATION property={ctx.prop} replay={path} no-failing-input-found")
    if lines:
        rc = 1
    write_evidence(ctx, P, proof_ok, len(concrete) + (1 if (broken and not concrete) else 0))
    for l in lines:
        print(l)
    ctx.note(f"done: exit {rc}")
    return rc


def source_drift():
    """files of /repo's package whose content differs from pinned/source_hashes.json (relative paths)"""
    repo = os.environ.get("VERIF_REPO", "/repo")
    root = os.path.join(repo, "src", "tpmstream")
    try:
        pinned = json.load(open(os.path.join(VERIF, "pinned", "source_hashes.json")))
    except Exception:  # noqa
        return []
    now = {}
    for d, _, fs in os.walk(root):
        for f in fs:
            if f.endswith(".py"):
                pth = os.path.join(d, f)
                now[os.path.relpath(pth, root)] = hashlib.sha256(open(pth, "rb").read()).hexdigest()
    return sorted(k for k in set(now) | set(pinned) if now.get(k) != pinned.get(k))


def write_evidence(ctx, P, proof_ok, nviol):
    n_ob = len(P["theorems"])
    discharged = 0
    if ctx.build_ok:
        ax = ctx.audit.get("axioms", {})
        discharged = sum(1 for t in P["theorems"] if t in ax and set(ax[t]) <= ALLOWED_AXIOMS)
    cov = {
        "obligations": n_ob,
        "discharged": discharged,
        "checker_cmd": f"cd lean && lake build {' '.join(P['targets'])} && lake env lean .lake/audit/{ctx.prop}.lean  # #print axioms"
                       + (" && lake env leanchecker " + " ".join(P.get("checker_modules", P["module"] if isinstance(P["module"], list) else [P["module"]])) if ctx.tier == "thorough" else ""),
        "trusted_base": TRUSTED_BASE + P.get("trusted_extra", []),
        "theorems": {t: ctx.audit.get("axioms", {}).get(t) for t in P["theorems"]},
        "layout_entries_differing_from_pinned": len(ctx.layout_diff),
        "source_files_differing_from_pinned": ctx.stats.get("source_files_differing_from_pinned", []),
        "evaluations": int(ctx.stats.get("evaluations", 0)),
        "distinct_nontrivial": int(ctx.stats.get("distinct_nontrivial", 0)),
        "rule": ctx.stats.get("rule", ""),
        "samples": ctx.stats.get("samples", [])[:8],
        "exhaustive": bool(ctx.stats.get("exhaustive", False)),
        "correspondence": ctx.stats.get("correspondence", {}),
        "distribution": ctx.stats.get("distribution", {}),
        "known_findings_reported": ctx.known,
    }
    if "leanchecker" in ctx.stats:
        cov["leanchecker"] = ctx.stats["leanchecker"]
    ev = {
        "property_id": ctx.prop,
        "tier": ctx.tier,
        "seed": ctx.seed,
        "level": "proof",
        "coverage": cov,
        "assumptions": P.get("assumptions", []),
        "wall_s": round(time.time() - ctx.t0, 2),
        "violations": nviol,
    }
    os.makedirs(os.path.join(VERIF, "evidence"), exist_ok=True)
    with open(os.path.join(VERIF, "evidence", f"{ctx.prop}.json"), "w") as f:
        json.dump(ev, f, indent=1, sort_keys=True, default=str)


if __name__ == "__main__":
    main()
