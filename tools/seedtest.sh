#!/bin/bash
# tools/seedtest.sh <Cnn> [other checks to run ...]: confirm a sub-agent's seeded change in its scratch worktree, then run our checks on it
# (applies the patch to /repo, runs the checks, and undoes it straight afterwards)
P=$1; shift
WT=${SEED_WT:-/tmp/wt_$P}
OUT=/verif/seeded/${SEED_ID:-$P}
mkdir -p $OUT
cd $WT || exit 2
git diff -- src > /tmp/seed_$P.diff
[ -s /tmp/seed_$P.diff ] || cp patch.diff /tmp/seed_$P.diff
cp /tmp/seed_$P.diff $OUT/patch.diff
cp demo_$P.py $OUT/demo.py
# demo with the change
git checkout -q -- src; git apply $OUT/patch.diff
PYTHONPATH=$WT/src /venv/bin/python demo_$P.py > /tmp/seed_${P}_with.log 2>&1; with=$?
# suite with the change
PYTHONPATH=$WT/src /venv/bin/python -m pytest -q -p no:cacheprovider --timeout=900 --continue-on-collection-errors test 2>&1 | tail -1 > /tmp/seed_${P}_suite.log
# demo without
git checkout -q -- src
PYTHONPATH=$WT/src /venv/bin/python demo_$P.py > /tmp/seed_${P}_without.log 2>&1; without=$?
git apply $OUT/patch.diff
echo "demo with=$with without=$without suite: $(cat /tmp/seed_${P}_suite.log)"
# our checks against it
cd /repo && git status --short | grep -q . && { echo "/repo not clean"; exit 2; }
git -C /repo apply $OUT/patch.diff || { echo "patch does not apply to /repo"; exit 2; }
res=""
for c in $P "$@"; do
  o=$(cd /verif && ./check $c --tier quick 2>&1); rc=$?
  nv=$(echo "$o" | grep -c '^VIOLATION')
  first=$(echo "$o" | grep '^VIOLATION' | head -1)
  echo "check $c rc=$rc violations=$nv $first"
  res="$res{\"check\":\"$c\",\"rc\":$rc,\"violations\":$nv,\"first\":\"$first\"},"
  rp=$(echo "$first" | sed -n 's/.*replay=\([^ ]*\).*/\1/p')
  [ -n "$rp" ] && [ -f /verif/$rp ] && python3 -c "
import json;d=json.load(open('/verif/$rp'));print('   ',d.get('what','')[:200])" 2>/dev/null
done
git -C /repo checkout -- .
echo "[${res%,}]" > /tmp/seed_${P}_checks.json
cd /verif && /venv/bin/python tools/translate.py > /dev/null   # regenerate tables for the clean tree
