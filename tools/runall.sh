#!/bin/bash
# run every registered quick (or $1=thorough) check on the current tree; summary at the end
cd "$(dirname "$0")/.."
tier=${1:-quick}
fail=0
for p in C01 C02 C03 C04 C05 C06 C07 C08 C09 C10 C11 C12 C13 C14 C15 C16 C17 C18 C19 C20; do
  s=$(date +%s)
  out=$(./check $p --tier $tier 2>&1); rc=$?
  e=$(( $(date +%s) - s ))
  echo "$p rc=$rc ${e}s $(echo "$out" | grep -c '^VIOLATION') violations $(echo "$out" | grep -c '^KNOWN-FINDING') known"
  [ $rc -ne 0 ] && { fail=1; echo "$out" | grep -v '^\[' | head -5; }
done
exit $fail
