#!/bin/bash
# tools/seedmatrix.sh: every kept seeded change x every quick check -> seeded/matrix.tsv  (rc per cell; 1 = reported)
# applies each patch to $VERIF_REPO (default /repo; use a scratch worktree to keep /repo free), runs the checks, undoes it straight afterwards; never commits to /repo
cd "$(dirname "$0")/.."
V=$(pwd)
R=${VERIF_REPO:-/repo}
out=seeded/matrix.tsv
ALL="C01 C02 C03 C04 C05 C06 C07 C08 C09 C10 C11 C12 C13 C14 C15 C16 C17 C18 C19 C20"
echo -e "seed\t$(echo $ALL | tr ' ' '\t')" > $out
for s in $ALL; do
  git -C $R status --short | grep -q . && { echo "/repo not clean"; exit 2; }
  git -C $R apply $V/seeded/$s/patch.diff || { echo "patch $s does not apply"; exit 2; }
  row="$s"
  for c in $ALL; do
    o=$(./check $c --tier quick 2>&1); rc=$?
    cell=$rc
    [ $rc -eq 1 ] && echo "$o" | grep -q 'no-failing-input-found' && ! echo "$o" | grep '^VIOLATION' | grep -qv 'no-failing-input-found' && cell="1n"
    row="$row\t$cell"
  done
  git -C $R checkout -- .
  echo -e "$row" >> $out
  echo -e "$row"
done
/venv/bin/python tools/translate.py > /dev/null
