"""Static inventory of places where joholl/tpmstream can keep state between two decodes (C12): mutable default arguments, memoising
decorators, `global` statements, and writes inside functions to objects that are not local to the call (module-level names, class
attributes).  Regenerated from the source on every run and compared with the pinned inventory: a difference is not a violation, it
tells the C12 check that its assumption "the only cross-call state is the cache around TPMS_PARAMS.encrypted" no longer stands and
makes it search histories harder."""
import ast
import os

MUTATORS = {"append", "add", "update", "setdefault", "pop", "clear", "extend", "insert", "remove", "popitem", "discard", "appendleft"}
CACHES = {"cache", "lru_cache", "cached_property", "memoize", "memoized"}


def _root(node):
    while isinstance(node, (ast.Attribute, ast.Subscript)):
        node = node.value
    return node.id if isinstance(node, ast.Name) else None


def _locals(fn):
    names = {a.arg for a in fn.args.args + fn.args.kwonlyargs + fn.args.posonlyargs}
    if fn.args.vararg:
        names.add(fn.args.vararg.arg)
    if fn.args.kwarg:
        names.add(fn.args.kwarg.arg)
    for n in ast.walk(fn):
        if isinstance(n, (ast.Assign, ast.AnnAssign, ast.AugAssign)):
            tg = n.targets if isinstance(n, ast.Assign) else [n.target]
            for t in tg:
                for m in ast.walk(t):
                    if isinstance(m, ast.Name) and isinstance(m.ctx, ast.Store):
                        names.add(m.id)
        elif isinstance(n, (ast.For, ast.AsyncFor, ast.comprehension)):
            for m in ast.walk(n.target):
                if isinstance(m, ast.Name):
                    names.add(m.id)
        elif isinstance(n, (ast.With, ast.AsyncWith)):
            for it in n.items:
                if it.optional_vars is not None:
                    for m in ast.walk(it.optional_vars):
                        if isinstance(m, ast.Name):
                            names.add(m.id)
        elif isinstance(n, ast.ExceptHandler) and n.name:
            names.add(n.name)
        elif isinstance(n, ast.NamedExpr):
            names.add(n.target.id)
    return names


def inventory(src_root):
    inv = []
    for d, _, fs in sorted(os.walk(src_root)):
        for f in sorted(fs):
            if not f.endswith(".py"):
                continue
            path = os.path.join(d, f)
            rel = os.path.relpath(path, src_root)
            try:
                tree = ast.parse(open(path).read())
            except SyntaxError:
                inv.append(f"{rel}: unparsable")
                continue
            for fn in ast.walk(tree):
                if not isinstance(fn, (ast.FunctionDef, ast.AsyncFunctionDef)):
                    continue
                for dflt in fn.args.defaults + [k for k in fn.args.kw_defaults if k is not None]:
                    if isinstance(dflt, (ast.Call, ast.List, ast.Dict, ast.Set, ast.ListComp, ast.DictComp, ast.SetComp)):
                        inv.append(f"{rel}:{fn.name}: mutable default argument ({ast.unparse(dflt)[:40]})")
                for dec in fn.decorator_list:
                    nm = dec.func if isinstance(dec, ast.Call) else dec
                    nm = nm.attr if isinstance(nm, ast.Attribute) else getattr(nm, "id", "")
                    if nm in CACHES:
                        inv.append(f"{rel}:{fn.name}: memoising decorator {nm}")
                loc = _locals(fn)
                # local names that are just another name for an attribute of the instance / class or for a non-local object
                alias = {}
                for n in ast.walk(fn):
                    if isinstance(n, ast.Assign) and len(n.targets) == 1 and isinstance(n.targets[0], ast.Name) \
                            and isinstance(n.value, (ast.Attribute, ast.Name)):
                        r = _root(n.value)
                        if r is not None and (r in ("self", "cls") and isinstance(n.value, ast.Attribute) or r not in loc):
                            alias[n.targets[0].id] = ast.unparse(n.value)[:50]
                for n in ast.walk(fn):
                    if isinstance(n, ast.Global):
                        inv.append(f"{rel}:{fn.name}: global {','.join(n.names)}")
                    tgt = None
                    if isinstance(n, ast.Call) and isinstance(n.func, ast.Attribute) and n.func.attr in MUTATORS:
                        tgt = n.func.value
                        how = "." + n.func.attr
                    elif isinstance(n, (ast.Assign, ast.AugAssign)):
                        for t in (n.targets if isinstance(n, ast.Assign) else [n.target]):
                            if isinstance(t, (ast.Subscript, ast.Attribute)):
                                r = _root(t)
                                if r is not None and r not in loc and r != "self":
                                    inv.append(f"{rel}:{fn.name}: writes {ast.unparse(t)[:50]}")
                                elif r in alias and isinstance(t, ast.Subscript):
                                    inv.append(f"{rel}:{fn.name}: writes into {alias[r]}[...] (through {r})")
                                elif r in ("self", "cls") and isinstance(t, ast.Subscript) and isinstance(t.value, ast.Attribute):
                                    # a container reachable from the instance / class: shared if it is a class attribute
                                    inv.append(f"{rel}:{fn.name}: writes into {ast.unparse(t.value)[:50]}[...]")
                    if tgt is not None:
                        r = _root(tgt)
                        if r is not None and r not in loc and r != "self":
                            inv.append(f"{rel}:{fn.name}: {ast.unparse(tgt)[:50]}{how}()")
                        elif r in ("self", "cls") and isinstance(tgt, ast.Attribute):
                            inv.append(f"{rel}:{fn.name}: {ast.unparse(tgt)[:50]}{how}()")
                        elif r in alias:
                            inv.append(f"{rel}:{fn.name}: {alias[r]}{how}() (through {r})")
    return sorted(set(inv))


if __name__ == "__main__":
    import json
    import sys
    print(json.dumps(inventory(sys.argv[1]), indent=1))
