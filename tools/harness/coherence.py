"""Independent (Python) evaluation of the C20 coherence clauses on a layout JSON: names the offending
table entry when a clause fails (the Lean side decides the same clauses with `decide +kernel`)."""


def norm(s):
    return s.replace("_", "").upper()


PREFIX = {"command_handles": "TPMS_COMMAND_HANDLES_", "command_parameters": "TPMS_COMMAND_PARAMS_",
          "response_handles": "TPMS_RESPONSE_HANDLES_", "response_parameters": "TPMS_RESPONSE_PARAMS_"}


def select_arm(arms, sel):
    hit = None
    if sel is not None:
        for a in arms:
            if a["key"]["k"] == "int" and a["key"]["v"] == sel:
                hit = a
    if hit is None:
        for a in arms:
            if a["key"]["k"] == "fallback":
                hit = a
    return hit


def check(L):
    """list of (clause, entry, detail)"""
    bad = []
    T, P = L["types"], L["prims"]
    ccv = {}
    for n, v in L["cc"]:
        if v in ccv:
            bad.append(("cc_distinct", n, f"value {v:#x} also used by {ccv[v]}"))
        ccv[v] = n
    for m, lst in L["maps"].items():
        keys = [k for k, _ in lst]
        for n, v in L["cc"]:
            if keys.count(v) != 1:
                bad.append(("maps", f"{m}[{n}]", f"{keys.count(v)} entries"))
        for k, t in lst:
            if k not in ccv:
                bad.append(("maps", f"{m}[{k:#x}]", "key is not a command code"))
                continue
            name = T[t]["name"]
            if not name.startswith(PREFIX[m]) or norm(name[len(PREFIX[m]):]) != norm(ccv[k]):
                bad.append(("maps", f"{m}[{ccv[k]}]", f"layout {name} is not named after the command"))
    for m in ("command_handles", "response_handles"):
        for k, t in L["maps"][m]:
            d = T[t]
            if d["kind"] != "struct" or len(d["fields"]) > 3 or any(
                    f["kind"] != "plain" or T[f["type"]]["kind"] != "prim" or P[T[f["type"]]["prim"]]["size"] != 4
                    for f in d["fields"]):
                bad.append(("handles", t, "handle area is not <= 3 four-byte primitives"))
    reachable_unions = set()
    for key, d in T.items():
        if d["kind"] == "bad":
            bad.append(("known", key, d.get("repr", "")))
        if d["kind"] == "union":
            for a in d["arms"]:
                if isinstance(a["t"], dict) and "bad" in a["t"]:
                    bad.append(("known", f"{key}.{a['name']}", a["t"]["bad"]))
        if d["kind"] != "struct":
            continue
        fs = d["fields"]
        for i, f in enumerate(fs):
            ft = T[f["type"]]
            if f["kind"] == "counted":
                pv = fs[i - 1] if i > 0 else None
                ok = pv is not None and pv["kind"] == "plain" and T[pv["type"]]["kind"] == "prim" and not P[T[pv["type"]]["prim"]]["signed"]
                if not ok:
                    bad.append(("counted", f"{key}.{f['name']}", "list does not directly follow an unsigned primitive"))
            if ft["kind"] == "union":
                reachable_unions.add(f["type"])
                if f["kind"] != "selected":
                    bad.append(("selectors", f"{key}.{f['name']}", "union member without selector"))
                    continue
                sf = next((g for g in fs[:i] if g["name"] == f["sel"] and g["kind"] == "plain" and T[g["type"]]["kind"] == "prim"), None)
                if sf is None:
                    bad.append(("selectors", f"{key}.{f['name']}", f"selector {f['sel']} is not an earlier primitive field"))
                    continue
                fb = select_arm(ft["arms"], None) is not None
                for it in P[T[sf["type"]]["prim"]]["valid"]:
                    if it["k"] in ("member", "int"):
                        vals = [it["v"]]
                    elif it["k"] in ("range", "named"):
                        if fb:
                            continue
                        if it["hi"] - it["lo"] > 4096:
                            bad.append(("selectors", f"{key}.{f['name']}", f"range {it['lo']}..{it['hi']} without fallback member"))
                            continue
                        vals = range(it["lo"], it["hi"])
                    else:
                        bad.append(("known", f"{T[sf['type']]['prim']}", it.get("repr", "")))
                        continue
                    for v in vals:
                        if select_arm(ft["arms"], v) is None:
                            bad.append(("selectors", f"{key}.{f['name']}", f"selector value {v:#x} selects no member of {f['type']}"))
    for u in sorted(reachable_unions):
        for a in T[u]["arms"]:
            if isinstance(a["t"], dict) and "list" in a["t"] and a["t"]["n"] is None:
                bad.append(("list_size", f"{u}.{a['name']}", "list member without _list_size"))
    for pn, p in P.items():
        for it in p["valid"] + p["members"]:
            if it["k"] == "unknown":
                bad.append(("known", pn, it.get("repr", "")))
    return bad
