"""Inputs and monitors for typed integers, attribute words and response codes (C16, C17, C18)."""
import operator
import random

import canon
import gen


def width_bounds(p):
    bits = 8 * p["size"]
    return (-(1 << (bits - 1)), 1 << (bits - 1)) if p["signed"] else (0, 1 << bits)


def int_values(L, pname, rnd, tier):
    """in-width integers: exhaustive for 1-byte types (2-byte: thorough), else interval end points +-2, width
    limits, seeded random"""
    p = L["prims"][pname]
    lo, hi = width_bounds(p)
    xs = {lo, lo + 1, hi - 1, hi - 2, 0, 1, -1}
    if p["size"] == 1 or (p["size"] == 2 and tier == "thorough"):
        xs |= set(range(lo, hi))
    for it in p["valid"] + p["members"]:
        if it["k"] in ("range", "named"):
            for d in (-2, -1, 0, 1):
                xs |= {it["lo"] + d, it["hi"] + d}
        elif it["k"] in ("member", "int"):
            xs |= {it["v"] - 1, it["v"], it["v"] + 1}
    n = 40 if tier == "quick" else 400
    xs |= {rnd.randrange(lo, hi) for _ in range(n)}
    if p["size"] == 2 and tier == "quick":
        xs |= {rnd.randrange(lo, hi) for _ in range(1500)}
    return sorted(x for x in xs if lo <= x < hi)


BINOPS = [("add", operator.add), ("sub", operator.sub), ("mul", operator.mul), ("truediv", operator.truediv),
          ("floordiv", operator.floordiv), ("mod", operator.mod), ("divmod", divmod), ("pow", pow),
          ("lshift", operator.lshift), ("rshift", operator.rshift), ("and", operator.and_), ("xor", operator.xor),
          ("or", operator.or_), ("lt", operator.lt), ("le", operator.le), ("eq", operator.eq), ("ne", operator.ne),
          ("gt", operator.gt), ("ge", operator.ge)]


def _try(f, *a):
    try:
        return ("ok", f(*a))
    except Exception as e:  # noqa
        return ("exc", type(e).__name__)


def int_emulation_failures(pname, xs, others):
    """int(), ==, hash, ordering, binary operators in both operand orders, against the plain integer"""
    T = canon.prim_class(pname)
    bad = []
    for x in xs:
        try:
            v = T(x)
        except Exception as e:  # noqa
            bad.append((x, "construct", type(e).__name__))
            continue
        if _try(int, v) != ("ok", x):
            bad.append((x, "int", repr(_try(int, v))))
        if _try(hash, v) != ("ok", hash(x)):
            bad.append((x, "hash", ""))
        if _try(lambda: (v == x, v != x)) != ("ok", (True, False)):
            bad.append((x, "eq", repr(_try(lambda: (v == x, v != x)))))
        if _try(operator.index, v) != ("ok", x):
            bad.append((x, "index", ""))
        for y in others:
            for name, f in BINOPS:
                if name in ("pow", "lshift") and (abs(y) > 64 or abs(x) > (1 << 16)):
                    continue
                if _try(f, v, y) != _try(f, x, y):
                    bad.append((x, f"{name}(T(x),{y})", repr((_try(f, v, y), _try(f, x, y)))[:120]))
                if name == "pow" and abs(x) > 64:
                    continue
                if name == "lshift" and not (0 <= x <= 64):
                    continue
                if _try(f, y, v) != _try(f, y, x):
                    bad.append((x, f"{name}({y},T(x))", repr((_try(f, y, v), _try(f, y, x)))[:120]))
        if len(bad) > 20:
            break
    return bad


def bit_values(p, rnd, tier):
    lo, hi = width_bounds(p)
    bits = 8 * p["size"]
    ys = {0, 1, hi - 1} | {1 << i for i in range(bits)} | {(hi - 1) ^ (1 << i) for i in range(bits)}
    for _, m in p["masks"]:
        ys |= {m, (hi - 1) ^ m}
    ys |= {rnd.randrange(0, hi) for _ in range(60 if tier == "quick" else 600)}
    if p["size"] == 1:
        ys |= set(range(256))
    return sorted(ys)
