"""G1: type-directed generator of conforming value trees + their encodings, read from a layout JSON
(the *pinned* layout by default, so inputs stay well-formed per the pinned TPM 2.0 layout even when the
tree's tables have been edited).

Value trees (Python):  ("I", cls, x) | ("N",) | ("L", [v…]) | ("O", name, enc, [(field, v)…])
"""
import json
import os

VERIF = os.path.dirname(os.path.dirname(os.path.dirname(os.path.abspath(__file__))))


def load_layout(which="pinned"):
    with open(os.path.join(VERIF, which, "layout.json")) as f:
        return json.load(f)


def val_str(v):
    k = v[0]
    if k == "I":
        return f"I({v[1]},{v[2]})"
    if k == "N":
        return "N"
    if k == "L":
        return "L(" + ";".join(val_str(x) for x in v[1]) + ")"
    return f"O({v[1]},{1 if v[2] else 0}," + ";".join(f"{f}={val_str(x)}" for f, x in v[3]) + ")"


def obj_str(v):
    """canonical object text (same as canon.obj_str / Val.str)"""
    k = v[0]
    if k == "I":
        return f"{v[1]}:{v[2]}"
    if k == "N":
        return "None"
    if k == "L":
        vs = v[1]
        if vs and all(x[0] == "I" and x[1] == vs[0][1] and 0 <= x[2] < 256 for x in vs):
            return f"b:{vs[0][1]}:{bytes(x[2] for x in vs).hex()}"
        return "[" + ",".join(obj_str(x) for x in vs) + "]"
    parts = [f"{f}={obj_str(x)}" for f, x in v[3] if x[0] != "N"]
    return f"{v[1]}{'~enc' if v[2] else ''}{{" + ",".join(parts) + "}"


class Gen:
    def __init__(self, layout, rnd):
        self.L = layout
        self.rnd = rnd
        self._cand = {}

    # ---- primitives
    def in_width(self, p, x):
        bits = 8 * p["size"]
        if p["signed"]:
            return -(1 << (bits - 1)) <= x < (1 << (bits - 1))
        return 0 <= x < (1 << bits)

    def is_valid(self, pname, x):
        for it in self.L["prims"][pname]["valid"]:
            k = it["k"]
            if k in ("range", "named") and it["lo"] <= x < it["hi"]:
                return True
            if k in ("member", "int") and it["v"] == x:
                return True
        return False

    def candidates(self, pname):
        """boundary values of every valid item (fixed list) — random interior points are added per draw"""
        if pname in self._cand:
            return self._cand[pname]
        p = self.L["prims"][pname]
        out = []
        for it in p["valid"]:
            k = it["k"]
            if k in ("range", "named"):
                if it["hi"] > it["lo"]:
                    out += [it["lo"], it["hi"] - 1]
            elif k in ("member", "int"):
                out.append(it["v"])
        out = [x for x in dict.fromkeys(out) if self.in_width(p, x)]
        self._cand[pname] = out
        return out

    def ranges(self, pname):
        return [(it["lo"], it["hi"]) for it in self.L["prims"][pname]["valid"]
                if it["k"] in ("range", "named") and it["hi"] > it["lo"]]

    def near_values(self, pname):
        """valid values whose minimal encoding is shorter than the field (sign fill / zero fill matters)"""
        rs = self.ranges(pname)
        near = [s * (256 ** k) + d for k in range(0, 8) for s in (1, -1) for d in (-1, 0, 1)] + [0, 10, -10, 127, -127, -129]
        return [x for x in dict.fromkeys(near)
                if any(lo <= x < hi for lo, hi in rs) and self.in_width(self.L["prims"][pname], x)]

    def sweep(self, pname):
        """fixed list of valid values of a primitive: every boundary of its valid items plus the short-encoding values"""
        return list(dict.fromkeys(self.candidates(pname) + self.near_values(pname)))

    def prim_value(self, pname, small=False):
        c = self.candidates(pname)
        rs = self.ranges(pname)
        r = self.rnd.random()
        if rs and not small and r > 0.88:
            # values whose minimal encoding is shorter than the field (sign fill / zero fill matters): 0, +-1, +-256^k +- 1
            near = self.near_values(pname)
            if near:
                return self.rnd.choice(near)
        if rs and (r < 0.35 or not c):
            lo, hi = self.rnd.choice(rs)
            if small:
                hi = min(hi, lo + 4)
            return self.rnd.randrange(lo, hi)
        return self.rnd.choice(c)

    def enc_int(self, pname, x):
        p = self.L["prims"][pname]
        return int(x).to_bytes(p["size"], "big", signed=p["signed"])

    def prim(self, pname, value=None):
        x = self.prim_value(pname) if value is None else value
        return ("I", pname, x), self.enc_int(pname, x)

    # ---- unions
    @staticmethod
    def select_arm(arms, sel):
        """`{v: k for k, v in _selected_by.items()}`: last arm with that key, else last fallback"""
        hit = None
        if sel is not None:
            for a in arms:
                if a["key"]["k"] == "int" and a["key"]["v"] == sel:
                    hit = a
        if hit is None:
            for a in arms:
                if a["key"]["k"] == "fallback":
                    hit = a
        return hit

    def byte_list(self, pname, n):
        vs, bs = [], b""
        for _ in range(n):
            v, b = self.prim(pname)
            vs.append(v)
            bs += b
        return ("L", vs), bs

    def union(self, key, sel):
        t = self.L["types"][key]
        a = self.select_arm(t["arms"], sel)
        if a is None:
            return None
        at = a["t"]
        if at is None:
            return ("N",), b""
        if isinstance(at, dict):
            if "list" not in at or at["n"] is None:
                return None
            v, b = self.byte_list(at["list"], at["n"])
        else:
            r = self.gen(at)
            if r is None:
                return None
            v, b = r
        return ("O", t["name"], False, [(a["name"], v)]), b

    # ---- everything
    def gen(self, key, sel=None, forced=None):
        """returns (val, bytes) or None if the type has no conforming value reachable by this generator"""
        t = self.L["types"][key]
        k = t["kind"]
        if k == "prim":
            return self.prim(t["prim"])
        if k == "tpm2b_bytes":
            n = self.rnd.choice([0, 0, 1, 2, 3, 8, 20, 32, 48, 64])
            if self.rnd.random() < 0.03:
                n = self.rnd.choice([255, 256, 1024])
            sp = self.L["prims"][t["size_prim"]]
            if not self.is_valid(t["size_prim"], n) or not self.in_width(sp, n):
                n = 0
            bv, bb = self.byte_list(t["elem"], n)
            nv, nb = self.prim(t["size_prim"], n)
            return ("O", t["name"], False, [(t["size_name"], nv), (t["buf_name"], bv)]), nb + bb
        if k == "tpm2b":
            if self.rnd.random() < 0.15:
                nv, nb = self.prim(t["size_prim"], 0)
                return ("O", t["name"], False, [(t["size_name"], nv), (t["buf_name"], ("N",))]), nb
            r = self.gen(t["body"])
            if r is None:
                return None
            bv, bb = r
            if len(bb) == 0 or not self.is_valid(t["size_prim"], len(bb)):
                nv, nb = self.prim(t["size_prim"], 0)
                return ("O", t["name"], False, [(t["size_name"], nv), (t["buf_name"], ("N",))]), nb
            nv, nb = self.prim(t["size_prim"], len(bb))
            return ("O", t["name"], False, [(t["size_name"], nv), (t["buf_name"], bv)]), nb + bb
        if k == "union":
            return self.union(key, sel)
        if k == "struct":
            return self.struct(key, t["name"], False, t["fields"], forced or {})
        return None

    def struct(self, key, name, enc, fields, forced):
        vals = []
        bs = b""
        selectors = {f["sel"] for f in fields if f["kind"] == "selected"}
        for i, f in enumerate(fields):
            ft = self.L["types"][f["type"]]
            if f["kind"] == "counted":
                # count = last non-list value so far: must be the primitive directly before
                if not vals or vals[-1][1][0] != "I":
                    return None
                cnt = vals[-1][1][2]
                es, eb = [], b""
                for _ in range(cnt):
                    r = self.gen(f["type"])
                    if r is None:
                        return None
                    es.append(r[0])
                    eb += r[1]
                v, b = ("L", es), eb
            elif f["kind"] == "selected":
                sv = dict(vals).get(f["sel"])
                if sv is None:
                    return None
                sel = sv[2] if sv[0] == "I" else None
                r = self.gen(f["type"], sel=sel)
                if r is None:
                    return None
                v, b = r
            else:
                nxt = fields[i + 1] if i + 1 < len(fields) else None
                if f["name"] in forced and ft["kind"] == "prim":
                    v, b = self.prim(ft["prim"], forced[f["name"]])
                elif nxt is not None and nxt["kind"] == "counted" and ft["kind"] == "prim":
                    cands = [c for c in [0, 1, 2, 3, 5] if self.is_valid(ft["prim"], c)]
                    if not cands:
                        return None
                    v, b = self.prim(ft["prim"], self.rnd.choice(cands))
                elif f["name"] in selectors and ft["kind"] == "prim":
                    # choose a selector value for which every dependent union has a member
                    v = None
                    for _ in range(20):
                        x = self.prim_value(ft["prim"])
                        ok = True
                        for g in fields:
                            if g["kind"] == "selected" and g["sel"] == f["name"]:
                                ut = self.L["types"][g["type"]]
                                if ut["kind"] == "union" and self.select_arm(ut["arms"], x) is None:
                                    ok = False
                        if ok:
                            v, b = self.prim(ft["prim"], x)
                            break
                    if v is None:
                        return None
                else:
                    r = self.gen(f["type"])
                    if r is None:
                        return None
                    v, b = r
            vals.append((f["name"], v))
            bs += b
        return ("O", name, enc, vals), bs

    def selector_values(self, key):
        """for a struct with union members: every (selector field, valid boundary value) to force"""
        t = self.L["types"][key]
        if t["kind"] != "struct":
            return []
        out = []
        for f in t["fields"]:
            if f["kind"] == "selected":
                sf = next((g for g in t["fields"] if g["name"] == f["sel"]), None)
                if sf is None:
                    continue
                st = self.L["types"][sf["type"]]
                if st["kind"] != "prim":
                    continue
                for x in self.candidates(st["prim"]):
                    out.append({f["sel"]: x})
        return out


def valid_norm_pinned(L, pname):
    """the declared set of a primitive type of the layout as merged closed intervals (same text form as canon.valid_norm)"""
    ivs = []
    bad = False
    for it in L["prims"][pname]["valid"]:
        k = it["k"]
        if k in ("range", "named"):
            if it["lo"] < it["hi"]:
                ivs.append((it["lo"], it["hi"] - 1))
        elif k in ("member", "int"):
            ivs.append((it["v"], it["v"]))
        else:
            bad = True
    ivs.sort()
    out = []
    for lo, hi in ivs:
        if out and lo <= out[-1][1] + 1:
            out[-1] = (out[-1][0], max(out[-1][1], hi))
        else:
            out.append((lo, hi))
    return ("?" if bad else "") + ",".join(str(lo) if lo == hi else f"{lo}..{hi}" for lo, hi in out)
