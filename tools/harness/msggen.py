"""Generators of well-formed messages (G1 for Command/Response/Stream), fault enumeration (G2) and
arbitrary bytes (G3), all driven by the *pinned* layout."""
import gen

TAG_NO = 0x8001
TAG_SESS = 0x8002


class MsgGen:
    def __init__(self, layout, rnd):
        self.L = layout
        self.rnd = rnd
        self.G = gen.Gen(layout, rnd)
        self.cmaps = {m: dict((k, v) for k, v in layout["maps"][m]) for m in layout["maps"]}
        self.ccs = [v for _, v in layout["cc"]]

    # ---- helpers
    def first_is_tpm2b(self, key):
        t = self.L["types"][key]
        return bool(t["kind"] == "struct" and t["params"] and t["fields"] and
                    self.L["types"][t["fields"][0]["type"]]["name"].startswith("TPM2B"))

    def can_encrypt(self, cc, response):
        return self.first_is_tpm2b(self.cmaps["response_parameters" if response else "command_parameters"][cc])

    def u32(self, cls, x):
        return ("I", cls, x), int(x).to_bytes(4, "big")

    def session(self, response, decrypt=False, encrypt=False):
        key = "TPMS_AUTH_RESPONSE" if response else "TPMS_AUTH_COMMAND"
        attrs = (self.rnd.choice([0, 1, 0x80, 0x81, 0x07])) | (0x20 if decrypt else 0) | (0x40 if encrypt else 0)
        for _ in range(30):
            r = self.G.gen(key, forced={"sessionAttributes": attrs})
            if r is not None:
                return r
        raise RuntimeError("cannot generate session")

    def enc_params(self, key):
        """the parameter area with its first parameter replaced by an opaque TPM2B_ENCRYPTED_PARAM"""
        t = self.L["types"][key]
        fields = list(t["fields"])
        if not self.first_is_tpm2b(key):
            return self.G.gen(key)      # areas without a leading TPM2B stay in the clear
        ekey = self.L["consts"]["TPM2B_ENCRYPTED_PARAM"]
        f0 = dict(fields[0])
        f0["type"] = ekey
        f0["kind"] = "plain"
        rest = [dict(f, kind=("plain" if f["kind"] == "selected" else f["kind"])) for f in fields[1:]]
        return self.G.struct(key, t["name"], True, [f0] + rest, {})

    # ---- messages
    def command(self, cc, nsess=0, decrypt=False, encrypt=False):
        """returns (val, bytes, info) ; decrypt/encrypt set the session attribute on the first session"""
        hk = self.cmaps["command_handles"][cc]
        pk = self.cmaps["command_parameters"][cc]
        h = self.G.gen(hk)
        if decrypt:
            p = self.enc_params(pk)
        else:
            p = self.G.gen(pk)
        if h is None or p is None:
            return None
        hv, hb = h
        pv, pb = p
        fields = []
        tagv = TAG_SESS if nsess else TAG_NO
        body = hb
        auth_fields = []
        if nsess:
            # nsess == -1: session tag with authSize 0 (an authorization area that is present and empty)
            # the session that requests decryption / response encryption is any of them, not necessarily the first, and the
            # two requests may sit on different sessions (`is_parameter_encryption` is an `any(...)` over the area)
            di = self.rnd.randrange(max(nsess, 1))
            ei = self.rnd.randrange(max(nsess, 1))
            ss = [self.session(False, decrypt=decrypt and i == di, encrypt=encrypt and i == ei) for i in range(max(nsess, 0))]
            sb = b"".join(b for _, b in ss)
            asz = self.u32("UINT32", len(sb))
            auth_fields = [("authSize", asz[0]), ("authorizationArea", ("L", [v for v, _ in ss]))]
            body += asz[1] + sb
        body += pb
        total = 10 + len(body)
        tag = ("I", "TPMI_ST_COMMAND_TAG", tagv)
        csz = ("I", "UINT32", total)
        ccv = ("I", "TPM_CC", cc)
        fields = [("tag", tag), ("commandSize", csz), ("commandCode", ccv), ("handles", hv)] + auth_fields + [("parameters", pv)]
        data = tagv.to_bytes(2, "big") + total.to_bytes(4, "big") + cc.to_bytes(4, "big") + body
        return ("O", "Command", False, fields), data, {"cc": cc, "nsess": max(nsess, 0), "decrypt": decrypt, "encrypt": encrypt, "empty_area": nsess < 0}

    def response(self, cc, nsess=0, encrypt=False, rc=0):
        if rc:
            tagv = 0x00C4 if rc == 0x1E else self.rnd.choice([TAG_NO, TAG_SESS])     # TPM_RC_BAD_TAG: the TPM 1.2-style reply, tag RSP_COMMAND
            fields = [("tag", ("I", "TPM_ST", tagv)), ("responseSize", ("I", "UINT32", 10)), ("responseCode", ("I", "TPM_RC", rc))]
            return ("O", "Response", False, fields), tagv.to_bytes(2, "big") + (10).to_bytes(4, "big") + rc.to_bytes(4, "big"), \
                {"cc": cc, "nsess": 0, "encrypt": False, "rc": rc}
        hk = self.cmaps["response_handles"][cc]
        pk = self.cmaps["response_parameters"][cc]
        h = self.G.gen(hk)
        p = self.enc_params(pk) if encrypt else self.G.gen(pk)
        if h is None or p is None:
            return None
        hv, hb = h
        pv, pb = p
        tagv = TAG_SESS if nsess else TAG_NO
        body = hb
        mid = []
        tail = []
        if nsess:
            psz = self.u32("UINT32", len(pb))
            mid = [("parameterSize", psz[0])]
            ei = self.rnd.randrange(max(nsess, 1))
            ss = [self.session(True, encrypt=encrypt and i == ei) for i in range(max(nsess, 0))]
            sb = b"".join(b for _, b in ss)
            body += psz[1] + pb + sb
            tail = [("authorizationArea", ("L", [v for v, _ in ss]))]
        else:
            body += pb
        total = 10 + len(body)
        fields = [("tag", ("I", "TPM_ST", tagv)), ("responseSize", ("I", "UINT32", total)), ("responseCode", ("I", "TPM_RC", 0)),
                  ("handles", hv)] + mid + [("parameters", pv)] + tail
        data = tagv.to_bytes(2, "big") + total.to_bytes(4, "big") + (0).to_bytes(4, "big") + body
        return ("O", "Response", False, fields), data, {"cc": cc, "nsess": max(nsess, 0), "encrypt": encrypt, "rc": 0, "empty_area": nsess < 0}

    def pair(self, cc=None, allow_enc=True):
        """a command and its response, consistent with each other (response encryption iff requested)"""
        cc = cc if cc is not None else self.rnd.choice(self.ccs)
        nsess = self.rnd.choice([0, 0, 1, 1, 2, 3, -1])
        decrypt = allow_enc and nsess > 0 and self.can_encrypt(cc, False) and self.rnd.random() < 0.35
        encrypt = allow_enc and nsess > 0 and self.can_encrypt(cc, True) and self.rnd.random() < 0.35
        c = self.command(cc, nsess, decrypt, encrypt)
        if self.rnd.random() < 0.2:
            r = self.response(cc, rc=self.rnd.choice([0x101, 0x1C4, 0x922, 0x9A2, 0x84, 0x18B, 0x1E, 0x1E]))
        else:
            # response encryption requires a session area in the response too
            rn = max(nsess, 1) if encrypt else self.rnd.choice([nsess, nsess, nsess, -1 if nsess else 0])
            r = self.response(cc, rn, encrypt)
        if c is None or r is None:
            return None
        return c, r


# --------------------------------------------------------------------------------------------- G2 faults
def prim_event_offsets(lines):
    """from canonical M lines of a strict decode: [(line index, path, type, value)] for primitive events"""
    out = []
    for i, l in enumerate(lines):
        if l.startswith("M "):
            p = l.split(" ")
            if p[4] != "...":
                out.append((i, p[2], p[3], int(p[4])))
    return out


def size_field_positions(lines, layout):
    """(offset, width, value, path) of every size field of a decoded message: commandSize, responseSize, authSize,
    parameterSize and every TPM2B size (a primitive directly after its TPM2B's structure event)"""
    out = []
    off = 0
    prev = None
    for l in lines:
        if not l.startswith("M "):
            continue
        p = l.split(" ")
        path, ty, val = p[2], p[3], p[4]
        if val != "...":
            w = layout["prims"][ty]["size"] if ty in layout["prims"] else None
            if w is None:
                return out
            last = path.rsplit(".", 1)[-1]
            if last in ("commandSize", "responseSize", "authSize", "parameterSize") and path.count(".") == 1:
                out.append((off, w, int(val), path))
            elif prev is not None and prev[1].startswith("TPM2B") and path.startswith(prev[0] if prev[0] != "." else "") \
                    and path.count(".") == (prev[0].count(".") if prev[0] != "." else 0) + 1:
                out.append((off, w, int(val), path))
            off += w
        prev = (path, ty) if val == "..." else None
    return out


def value_field_positions(lines, layout):
    """(offset, width, path, prim) of every primitive field, in wire order"""
    out = []
    off = 0
    for l in lines:
        if not l.startswith("M "):
            continue
        p = l.split(" ")
        if p[4] != "...":
            pr = layout["prims"].get(p[3])
            if pr is None:
                return out
            out.append((off, pr["size"], p[2], p[3]))
            off += pr["size"]
    return out


def invalid_values(layout, pname, rnd):
    """integers of the type's width just outside / far outside its declared set"""
    p = layout["prims"][pname]
    bits = 8 * p["size"]
    lo, hi = (-(1 << (bits - 1)), 1 << (bits - 1)) if p["signed"] else (0, 1 << bits)
    items = []
    for it in p["valid"]:
        if it["k"] in ("range", "named"):
            items.append((it["lo"], it["hi"]))
        elif it["k"] in ("member", "int"):
            items.append((it["v"], it["v"] + 1))

    def ok(x):
        return any(a <= x < b for a, b in items)
    cands = set()
    for a, b in items:
        cands |= {a - 1, b, a - 2, b + 1}
    cands |= {lo, hi - 1, rnd.randrange(lo, hi), rnd.randrange(lo, hi)}
    return sorted(x for x in cands if lo <= x < hi and not ok(x))


def put(data, off, width, value, signed=False):
    mask = (1 << (8 * width)) - 1
    return data[:off] + (value & mask).to_bytes(width, "big") + data[off + width:]
