"""Input corpus and helpers shared by the decoder properties (C02–C10, C13)."""
import collections
import random

import canon
import core
import gen
import msggen
import suites


class Case:
    __slots__ = ("tname", "cc", "enc", "data", "kind", "val", "meta")

    def __init__(self, tname, cc, enc, data, kind, val=None, meta=None):
        self.tname, self.cc, self.enc, self.data, self.kind, self.val, self.meta = tname, cc, enc, data, kind, val, meta or {}

    def op(self, mode, kind="DEC"):
        return (kind, mode, self.tname, self.cc, self.enc, self.data)

    def replay(self, mode):
        return {"type": self.tname, "command_code": self.cc, "parameter_encryption": self.enc,
                "hex": self.data.hex(), "mode": "strict" if mode == "S" else "warn", "input_kind": self.kind}


def wellformed(rnd, tier, structs=True, messages=True, streams=True, per_type=None, per_cc=None):
    """G1: structures, commands, responses, streams — all well-formed per the pinned layout"""
    L = gen.load_layout("pinned")
    cases = []
    if structs:
        n = per_type if per_type is not None else (2 if tier == "quick" else 10)
        _, sc, _ = suites.g1_cases(rnd, n, layout=L, forced=True)     # every selector boundary value in every tier
        for key, v, b in sc:
            cases.append(Case(key, None, False, b, "wf_struct", v))
    if structs:
        # every primitive type on its own: all boundaries of its valid items and all short-encoding values
        G = gen.Gen(L, rnd)
        for pname in sorted(L["prims"]):
            if pname in L["types"]:
                vals = G.sweep(pname)
                for x in (vals if tier != "quick" or len(vals) <= 24 else rnd.sample(vals, 24)):
                    cases.append(Case(pname, None, False, G.enc_int(pname, x), "wf_struct", ("I", pname, x)))
    M = msggen.MsgGen(L, rnd)
    if messages or streams:
        n = per_cc if per_cc is not None else (2 if tier == "quick" else 8)
        for cc in M.ccs:
            for _ in range(n):
                pr = M.pair(cc)
                if pr is None:
                    continue
                (cv, cb, ci), (rv, rb, ri) = pr
                if messages:
                    cases.append(Case("Command", None, False, cb, "wf_cmd", cv, ci))
                    cases.append(Case("Response", cc, bool(ri.get("encrypt")), rb, "wf_rsp", rv, ri))
                if streams:
                    cases.append(Case("Stream", None, False, cb + rb, "wf_stream", None,
                                      {"parts": [len(cb), len(rb)], "cc": cc}))
        if messages:
            # deterministic coverage of parameter encryption: for every command code one command whose sessions request
            # decryption (the first parameter is opaque iff the area starts with a TPM2B — otherwise the area stays in the
            # clear) and, where the response area starts with a TPM2B, one response with an encrypt session
            for cc in M.ccs:
                c = M.command(cc, nsess=rnd.choice([1, 2, 3]), decrypt=True, encrypt=rnd.random() < 0.3)
                if c is not None:
                    cases.append(Case("Command", None, False, c[1], "wf_cmd", c[0], c[2]))
                if M.can_encrypt(cc, True):
                    r = M.response(cc, nsess=rnd.choice([1, 2]), encrypt=True)
                    if r is not None:
                        cases.append(Case("Response", cc, True, r[1], "wf_rsp", r[0], r[2]))
        if messages:
            # failed responses are header-only whatever the command code is: decoded without a command code, under a reserved
            # code (no layouts), under some other command's code, and with the response-encryption flag set (seed C04e)
            for rc in ([0x101, 0x922] if tier == "quick" else [0x101, 0x1C4, 0x922, 0x9A2, 0x84, 0x18B, 0x1E]):
                for ccx, encx in [(None, False), (0x123, False), (0x20000123, False), (rnd.choice(M.ccs), True), (None, True)]:
                    r = M.response(rnd.choice(M.ccs), rc=rc)
                    cases.append(Case("Response", ccx, encx, r[1], "wf_rsp", r[0], {**r[2], "cc": ccx, "anycc": True}))
    return L, M, cases


def widths_ok(lines, L):
    return all(l.split(" ")[3] in L["prims"] for l in lines if l.startswith("M ") and l.split(" ")[4] != "...")


def event_offsets(lines, L):
    """for each event line (M/W) the number of input bytes consumed by the fields emitted up to and including it
    (sum of declared widths of the primitive events so far)"""
    out = []
    off = 0
    for l in lines:
        if l.startswith("M "):
            p = l.split(" ")
            if p[4] != "...":
                off += L["prims"][p[3]]["size"]
        out.append(off)
    return out


def strip_pulls(line):
    p = line.split(" ", 2)
    return p[0] + " " + p[2] if p[0] in ("M", "W") and len(p) == 3 else line


def pulls_of(line):
    return int(line.split(" ", 2)[1])


def events_of(block):
    return [l for l in block if l[0] in "MW"]


def result_of(block):
    return block[-1]


def outcome(block):
    return suites.outcome_class(block)


def size_faults(case, lines, L, rnd, tier):
    """every size field set to value-k / value+k / 0 / max"""
    out = []
    for off, w, val, path in msggen.size_field_positions(lines, L):
        mx = (1 << (8 * w)) - 1
        ks = [1, 2, 5] if tier == "quick" else [1, 2, 3, 5, 16, 200]
        vals = {val - k for k in ks} | {val + k for k in ks} | {0, mx}
        for nv in sorted(v for v in vals if 0 <= v <= mx and v != val):
            out.append(Case(case.tname, case.cc, case.enc, msggen.put(case.data, off, w, nv), "size_fault", None,
                            {"field": path, "offset": off, "width": w, "was": val, "now": nv, "base": case}))
    return out


def pad_faults(case, lines, L, rnd, tier):
    """k junk bytes inserted at the end of a sized region, with that size field and every enclosing one increased by k: all sizes
    stay mutually consistent, only the region holds more bytes than its layout uses (seed C02f: the session loop swallowed the
    overrun of its own region in strict mode and accepted 1-3 surplus bytes after the last session)"""
    out = []
    pos = msggen.size_field_positions(lines, L)
    regs = []
    for off, w, val, path in pos:
        outer = path.count(".") == 1 and path.rsplit(".", 1)[-1] in ("commandSize", "responseSize")
        regs.append((off, w, val, path, 0 if outer else off + w, val if outer else off + w + val))
    for off, w, val, path, start, end in regs:
        for k in ([1, 2, 3] if tier == "quick" else [1, 2, 3, 4, 7]):
            data = bytearray(case.data[:end] + bytes(rnd.choice([0, 2, 0xFF]) for _ in range(k)) + case.data[end:])
            ok = True
            for off2, w2, val2, path2, s2, e2 in regs:
                if s2 <= end <= e2 and off2 < end:
                    if val2 + k >= 1 << (8 * w2):
                        ok = False
                        break
                    data[off2:off2 + w2] = (val2 + k).to_bytes(w2, "big")
            if ok:
                out.append(Case(case.tname, case.cc, case.enc, bytes(data), "pad_fault", None,
                                {"field": path, "offset": off, "width": w, "was": val, "now": val + k, "padding": k, "base": case}))
    return out


def value_faults(case, lines, L, rnd, tier, limit=None):
    """every constrained leaf set to values just outside / far outside its declared set (and to valid boundaries)"""
    out = []
    pos = msggen.value_field_positions(lines, L)
    idx = list(range(len(pos)))
    if limit is not None and len(idx) > limit:
        idx = sorted(rnd.sample(idx, limit))
    for i in idx:
        off, w, path, pn = pos[i]
        bad = msggen.invalid_values(L, pn, rnd)
        if not bad:
            continue
        pick = bad if tier == "thorough" else rnd.sample(bad, min(2, len(bad)))
        for x in pick:
            out.append(Case(case.tname, case.cc, case.enc, msggen.put(case.data, off, w, x), "value_fault", None,
                            {"field": path, "prim": pn, "offset": off, "width": w, "value": x, "index": i, "base": case}))
    return out


def run_both(cases, modes="SW", kind="DEC"):
    """decode every case in the given modes on implementation and model; returns {mode: (impl, model)}"""
    res = {}
    for m in modes:
        ops = [c.op(m, kind) for c in cases]
        impl = core.run_impl(ops)
        model = core.run_model([core.op_line(o) for o in ops])
        res[m] = (impl, model)
    return res


def correspondence_violation(ctx, name, cases, mode, impl, model, project=None):
    """report the first disagreement between model and implementation (after projection)"""
    bad = []
    for i in range(len(cases)):
        a = impl[i] if project is None else project(impl[i])
        b = model[i] if project is None else project(model[i])
        if a != b:
            bad.append(i)
    if bad:
        i = min(bad, key=lambda j: len(cases[j].data))
        a = impl[i] if project is None else project(impl[i])
        b = model[i] if project is None else project(model[i])
        k, x, y = suites.first_diff(b, a)
        ctx.violations.append({"kind": "correspondence",
                               "what": f"correspondence '{name}' no longer checks: model and implementation disagree",
                               "replay": {"correspondence": name, **cases[i].replay(mode), "line": k, "model": x, "impl": y,
                                          "disagreements": len(bad), "of": len(cases)}})
    return bad


def kinds_distribution(cases):
    return dict(collections.Counter(c.kind for c in cases))


def usable(ctx, case, block, L, counter):
    """is this well-formed case decoded cleanly by the implementation (so that faults can be derived from its decode)?
    A pinned-well-formed input that strict decoding rejects is a violation in its own right (C01/C04's "only if" direction);
    it is reported here so that no check silently loses its inputs."""
    ok = block[-1].startswith("R done") and widths_ok(block, L)
    counter["wf_total"] = counter.get("wf_total", 0) + 1
    if not ok:
        counter["wf_unusable"] = counter.get("wf_unusable", 0) + 1
        if counter["wf_unusable"] <= 2:
            ctx.violations.append({"kind": "concrete", "signature": f"wf-rejected:{block[-1].split(' ')[1]}",
                                   "what": f"a well-formed {case.tname} (pinned layout) is not decoded cleanly by strict decoding: {block[-1][:160]}",
                                   "replay": case.replay("S")})
    return ok


SMALL_WORLD_TYPES = ["TPM2B_ECC_POINT", "TPM2B_SENSITIVE_CREATE", "TPML_DIGEST", "TPM2B_DIGEST", "TPML_PCR_SELECTION"]


def small_world(tier):
    """every byte string up to a length bound over a small alphabet, read as nested size-prefixed / counted types:
    all the ways sizes, counts and contents can disagree in a few bytes"""
    import itertools
    alpha = [0x00, 0x01, 0x02, 0x04, 0xFF]
    maxlen = 5 if tier == "quick" else 7
    out = []
    for t in SMALL_WORLD_TYPES:
        for n in range(maxlen + 1):
            for tup in itertools.product(alpha, repeat=n):
                out.append(Case(t, None, False, bytes(tup), "small_world"))
    return out
