"""Shared input suites and comparisons used by several properties."""
import collections
import random

import canon
import core
import gen


def g1_cases(rnd, per_type, keys=None, forced=True, layout=None):
    """conforming value trees + encodings for every non-union structure type of the pinned layout"""
    L = layout or gen.load_layout("pinned")
    G = gen.Gen(L, rnd)
    cases = []
    novalue = []
    for key in (keys if keys is not None else L["order"]):
        t = L["types"].get(key)
        if t is None or t["kind"] == "union":
            continue
        got = 0
        forced_list = [None] * per_type + (G.selector_values(key) if forced else [])
        for fo in forced_list:
            r = G.gen(key, forced=fo)
            if r is None:
                continue
            got += 1
            cases.append((key, r[0], r[1]))
        if not got:
            novalue.append(key)
    return L, cases, novalue


def expected_lines(spec_block, nbytes, val):
    """strict-mode observation the pinned layout dictates: events (with the look-ahead pull count) + done"""
    out = []
    for e in spec_block[1:]:
        parts = e.split(" ", 2)
        out.append(f"M {min(int(parts[1]) + 1, nbytes)} {parts[2]}")
    out.append(f"R done obj={gen.obj_str(val)}")
    return out


def first_diff(a, b):
    k = next((j for j in range(min(len(a), len(b))) if a[j] != b[j]), min(len(a), len(b)))
    return k, (a[k] if k < len(a) else "<end>"), (b[k] if k < len(b) else "<end>")


def run_g1(cases, with_model=True):
    """returns dict with spec blocks, impl blocks, model blocks and the three comparison lists"""
    spec = core.run_model([f"SPECP {k} - {gen.val_str(v)}" for k, v, b in cases])
    ops = [("DEC", "S", k, None, False, b) for k, v, b in cases]
    impl = core.run_impl(ops)
    model = core.run_model([core.op_line(o) for o in ops]) if with_model else None
    gen_spec_mismatch = []   # generator and pinned spec disagree on the encoding: harness bug
    monitor = []             # implementation differs from what the pinned layout dictates
    corr = []                # model (generated tables) differs from implementation
    for i, ((k, v, b), s, im) in enumerate(zip(cases, spec, impl)):
        if not s or s[0] != "B " + (b.hex() or "-"):
            gen_spec_mismatch.append(i)
            continue
        exp = expected_lines(s, len(b), v)
        if exp != im:
            monitor.append(i)
        if model is not None and model[i] != im:
            corr.append(i)
    return {"spec": spec, "ops": ops, "impl": impl, "model": model, "gen_spec_mismatch": gen_spec_mismatch,
            "monitor": monitor, "corr": corr}


def outcome_class(block):
    last = block[-1].split(" ")
    if last[1] in ("raised", "crash"):
        return f"{last[1]}:{last[2]}"
    return last[1]
