"""Canonical observation lines of the *implementation* (same text forms as lean/TpmModel/Ser.lean)."""
import os
import sys
from dataclasses import fields, is_dataclass

REPO = os.environ.get("VERIF_REPO", "/repo")
if os.path.join(REPO, "src") not in sys.path:
    sys.path.insert(0, os.path.join(REPO, "src"))

from tpmstream.common.error import (  # noqa: E402
    AnticipatedSizeConstraintExceededError,
    ConstraintViolatedError,
    InputStreamBytesDepletedError,
    InputStreamSuperfluousBytesError,
    SizeConstraintExceededError,
    SizeConstraintSubceededError,
    ValueConstraintViolatedError,
)
from tpmstream.common.event import MarshalEvent, WarningEvent  # noqa: E402
from tpmstream.common.util import is_list  # noqa: E402
from tpmstream.io.binary import Binary  # noqa: E402
from tpmstream.spec import all_types  # noqa: E402
from tpmstream.spec.commands import Command, CommandResponseStream, Response  # noqa: E402
from tpmstream.spec.commands.params_common import TPM2B_ENCRYPTED_PARAM  # noqa: E402
from tpmstream.spec.structures.constants import TPM_CC  # noqa: E402

import tpmstream  # noqa: E402
assert os.path.realpath(tpmstream.__file__).startswith(os.path.realpath(REPO)), tpmstream.__file__


class CountingIter:
    def __init__(self, data):
        self.it = iter(data)
        self.count = 0

    def __iter__(self):
        return self

    def __next__(self):
        b = next(self.it)
        self.count += 1
        return b


def path_str(p):
    s = str(p)
    return s if s else "."


def type_str(t):
    if t is None:
        return "None"
    if is_list(t):
        return f"list[{t.__args__[0].__name__}]"
    return t.__name__ + ("~enc" if getattr(t, "_encrypted", False) else "")


def valid_norm(vv):
    """the allowed set a value error names (a ValidValues object), as merged closed intervals 'lo..hi,v,…';
    a leading '?' marks anything unexpected in it"""
    from tpmstream.spec.common.values import NamedRange
    ivs = []
    bad = False
    for v in getattr(vv, "_values", None) or ():
        if isinstance(v, range):
            if v.step != 1:
                bad = True
            elif v.start < v.stop:
                ivs.append((v.start, v.stop - 1))
        elif isinstance(v, NamedRange):
            if v._start < v._end:
                ivs.append((v._start, v._end - 1))
        elif isinstance(v, type) and hasattr(v, "class_iter"):
            for m in v:
                if isinstance(m, NamedRange):
                    if m._start < m._end:
                        ivs.append((m._start, m._end - 1))
                elif hasattr(m, "_value"):
                    ivs.append((int(m._value), int(m._value)))
                else:
                    bad = True
        elif isinstance(v, type):
            continue                      # a class that is no enumeration: never equal to an integer
        elif isinstance(v, bool):
            bad = True
        elif isinstance(v, int) or hasattr(v, "_value"):
            x = int(v._value) if hasattr(v, "_value") else int(v)
            ivs.append((x, x))
        else:
            bad = True
    if not hasattr(vv, "_values"):
        bad = True
    ivs.sort()
    out = []
    for lo, hi in ivs:
        if out and lo <= out[-1][1] + 1:
            out[-1] = (out[-1][0], max(out[-1][1], hi))
        else:
            out.append((lo, hi))
    return ("?" if bad else "") + ",".join(str(lo) if lo == hi else f"{lo}..{hi}" for lo, hi in out)


def _msg_problem(e, fields):
    """does the error's message (what the printers show for a warning, what the command line prints for an error) state the
    same paths and numbers as the error's fields?  `fields`: the expected tokens in order of appearance.  Returns '' if so."""
    msg = str(e)
    toks = _re.findall(r"(?<![\w.])(\.[\w\[\].]*|-?\d+)(?![\w])", msg.split(" not in ")[0])
    want = [str(f) for f in fields]
    # every expected token must occur, in order (the message may contain more, e.g. the hexadecimal form of a value)
    i = 0
    for t in toks:
        if i < len(want) and t == want[i]:
            i += 1
    return "" if i == len(want) else f" msg=bad({msg[:120]})"


def err_str(e):
    s = _err_str(e)
    try:
        c = getattr(e, "constraint", None)
        if isinstance(e, ValueConstraintViolatedError):
            s += _msg_problem(e, [path_str(c.constraint_path)] + ([] if e.value is None else [int(e.value)])) if path_str(c.constraint_path) != "." else ""
        elif isinstance(e, SizeConstraintExceededError):
            s += _msg_problem(e, [path_str(c.constraint_path), int(c.size_max), int(c.size_already), path_str(e.violator_path), int(e.exceeded_by)])
        elif isinstance(e, SizeConstraintSubceededError):
            s += _msg_problem(e, [path_str(c.constraint_path), int(c.size_max), int(c.size_already)])
        elif isinstance(e, AnticipatedSizeConstraintExceededError):
            s += _msg_problem(e, [path_str(c.constraint_path), int(c.size_max), int(c.size_already), path_str(e.violator_path),
                                  int(e.violator_value), int(e.exceeded_by)])
    except Exception as x:  # noqa
        s += f" msg=bad(unreadable: {type(x).__name__})"
    return s


def _err_str(e):
    if isinstance(e, ValueConstraintViolatedError):
        c = e.constraint
        return (f"ValueConstraintViolatedError path={path_str(c.constraint_path)} type={c.tpm_type.__name__} "
                f"value={'None' if e.value is None else int(e.value)} valid={valid_norm(getattr(c, 'valid_values', None))}")
    if isinstance(e, SizeConstraintExceededError):
        c = e.constraint
        return (f"SizeConstraintExceededError cpath={path_str(c.constraint_path)} max={int(c.size_max)} "
                f"already={int(c.size_already)} violator={path_str(e.violator_path)} by={int(e.exceeded_by)}")
    if isinstance(e, SizeConstraintSubceededError):
        c = e.constraint
        return f"SizeConstraintSubceededError cpath={path_str(c.constraint_path)} max={int(c.size_max)} already={int(c.size_already)}"
    if isinstance(e, AnticipatedSizeConstraintExceededError):
        c = e.constraint
        return (f"AnticipatedSizeConstraintExceededError cpath={path_str(c.constraint_path)} max={int(c.size_max)} "
                f"already={int(c.size_already)} violator={path_str(e.violator_path)} value={int(e.violator_value)} by={int(e.exceeded_by)}")
    if isinstance(e, InputStreamBytesDepletedError):
        return "InputStreamBytesDepletedError"
    return f"crash {type(e).__name__}"


def obj_str(o):
    if o is None:
        return "None"
    if isinstance(o, list):
        if o and all(hasattr(x, "_int_size") for x in o):
            cls = type(o[0])
            if all(type(x) is cls and 0 <= int(x) < 256 for x in o):
                return f"b:{cls.__name__}:{bytes(int(x) for x in o).hex()}"
        return "[" + ",".join(obj_str(x) for x in o) + "]"
    if hasattr(o, "_int_size"):
        return f"{type(o).__name__}:{int(o)}"
    if is_dataclass(o):
        parts = []
        for f in fields(o):
            v = getattr(o, f.name)
            if v is None:
                continue
            parts.append(f"{f.name}={obj_str(v)}")
        enc = "~enc" if getattr(o, "_encrypted", False) else ""
        return f"{type(o).__name__}{enc}{{" + ",".join(parts) + "}"
    return f"?{type(o).__name__}"


def event_line(ev, pulls):
    if isinstance(ev, MarshalEvent):
        if ev.value is ...:
            v, c = "...", "-"
        else:
            v, c = str(int(ev.value)), type(ev.value).__name__
        return f"M {pulls} {path_str(ev.path)} {type_str(ev.type)} {v} {c}"
    # problems are delivered as WarningEvents; any other event class is shown as such
    kind = "W" if type(ev).__name__ == "WarningEvent" else f"W?{type(ev).__name__}"
    return f"{kind} {pulls} {err_str(ev.error) if hasattr(ev, 'error') else '?no-error-attribute'}"


def cc_str(cc):
    return "-" if cc is None else str(int(cc))


TYPES = None


def type_table():
    """definition key -> class, with exactly the keys the translator assigns (NAME, NAME__2, …)"""
    global TYPES
    if TYPES is None:
        sys.path.insert(0, os.path.dirname(os.path.dirname(os.path.abspath(__file__))))
        import translate
        translate.extract()
        TYPES = {k: c for c, k in translate.LAST_CLS_KEY.items()}
    return TYPES


def resolve_type(name):
    if name == "Command":
        return Command
    if name == "Response":
        return Response
    if name == "Stream":
        return CommandResponseStream
    try:
        return type_table()[name]
    except KeyError:
        raise NoSuchType(name) from None


class NoSuchType(Exception):
    """a layout named by the pinned tables is not among the layouts reachable from /repo's tables any more: an observation about
    /repo (`R no-such-type <name>`), not an infrastructure failure (seed C20k: a table row re-pointed, its layout orphaned)"""


def make_source(kind, data):
    if kind == "bytes":
        return bytes(data)
    if kind == "bytearray":
        return bytearray(data)
    if kind == "list":
        return list(data)
    if kind == "iterator":
        return iter(bytes(data))
    if kind == "generator":
        return (b for b in bytes(data))
    if kind == "tuple":
        return tuple(data)
    raise ValueError(kind)


def rest_str(e):
    """the surplus bytes an error carries - read, then read again after the error has been rendered as text (as a logging `except`
    clause does): an error is a value, what it carries must not depend on how often it is looked at (seed C05j)"""
    r1 = bytes(e.bytes_remaining).hex()
    try:
        str(e)
        r2 = bytes(e.bytes_remaining).hex()
    except Exception as e2:  # noqa
        r2 = "?" + type(e2).__name__
    return r1 if r1 == r2 else f"{r1}!second-read={r2}"


def impl_dec(mode, tname, cc, enc, data, source="counting", unmarshal=False, root=None, front=None):
    """Run Binary.marshal on the real code; return canonical lines (events, then one R line).
    source: "counting" (pull counts are real) or another iterable kind (pull counts printed as 0).
    unmarshal: additionally re-encode the emitted events with Binary.unmarshal (lines U and S before R)."""
    try:
        tp = resolve_type(tname)
    except NoSuchType:
        return [f"R no-such-type {tname}"]
    if source == "counting":
        it = CountingIter(data)
    else:
        class _Zero:
            count = 0
        it = _Zero()
        it_src = make_source(source, data)
    kwargs = dict(tpm_type=tp, buffer=(it if source == "counting" else it_src), abort_on_error=(mode == "S"))
    evs = []
    if cc is not None:
        kwargs["command_code"] = TPM_CC(cc)
    if enc:
        kwargs["parameter_encryption"] = True
    if root is not None:
        from tpmstream.common.path import Path as _Path
        kwargs["root_path"] = _Path.from_string(root)
    lines = []
    if front is None:
        gen = Binary.marshal(**kwargs)
    else:
        # the same decode through a text front-end; `data` is the text, the pull counts are characters of the text
        import importlib
        fm = importlib.import_module("tpmstream.io.hex.marshal" if front == "hex" else "tpmstream.io.swtpm_log.marshal")
        gen = fm.marshal(**kwargs)
    pending = None  # a trailing InputStream* warning in warn mode becomes the outcome
    try:
        while True:
            ev = next(gen)
            evs.append(ev)
            if pending is not None:
                lines.append(pending)
                pending = None
            if isinstance(ev, WarningEvent) and isinstance(
                    ev.error, (InputStreamBytesDepletedError, InputStreamSuperfluousBytesError)):
                pending = ev
                continue
            lines.append(event_line(ev, it.count))
    except StopIteration as stop:
        obj = stop.value
        if pending is not None:
            e = pending.error
            if isinstance(e, InputStreamBytesDepletedError):
                lines.append(f"R depleted cc={cc_str(e.command_code)}")
            else:
                lines.append(f"R superfluous rest={rest_str(e)} cc={cc_str(e.command_code)} obj={obj_str(obj)}")
        else:
            lines.append(f"R done obj={obj_str(obj)}")
    except InputStreamBytesDepletedError as e:
        lines.append(f"R depleted cc={cc_str(e.command_code)}")
    except InputStreamSuperfluousBytesError as e:
        lines.append(f"R superfluous rest={rest_str(e)} cc={cc_str(e.command_code)} obj=None")
    except ConstraintViolatedError as e:
        try:
            # rendering an error as text (as a logging `except` clause does) must not change what it carries: render first, read then
            # (seed C13l: a new __str__ drained the live input iterator the pump attaches on the byte-send path; that the attribute
            # is a one-shot iterator there is how the unchanged code is - it is read once)
            str(e)
            rem = e.bytes_remaining
            rem = bytes(rem).hex() if rem is not None else "None"
        except Exception as e2:  # noqa
            rem = "?" + type(e2).__name__
        lines.append(f"R raised {err_str(e)} rem={rem}")
    except Exception as e:  # noqa: internal error
        lines.append(f"R crash {type(e).__name__}")
    if unmarshal:
        try:
            chunks = list(Binary.unmarshal(evs))
            u = b"".join(chunks)
            off = 0
            verdict = "ok"
            for k, (ev, ch) in enumerate(zip(evs, chunks)):
                if isinstance(ev, MarshalEvent) and ev.value is not ...:
                    w = type(ev.value)._int_size
                    if len(ch) != w or bytes(data[off:off + w]) != ch:
                        verdict = f"mismatch@{k}"
                        break
                    off += w
                elif len(ch) != 0:
                    verdict = f"nonempty@{k}"
                    break
            extra = [f"U {u.hex() or '-'}", f"S {verdict}"]
        except Exception as e:  # noqa
            extra = [f"U crash {type(e).__name__}", "S -"]
        lines = lines[:-1] + extra + lines[-1:]
    return lines


def dec_op(mode, tname, cc, enc, data):
    return f"DEC {mode} {tname} {'-' if cc is None else cc} {1 if enc else 0} {data.hex() if data else '-'}"


# --------------------------------------------------------------------------- typed integers / bit fields
import re as _re

_ANSI = _re.compile(r"\x1b\[[0-9;]*m")


def prim_class(name):
    return type_table()[name]


def impl_int(pname, x):
    """canonical line for INT <prim> <x> on the real code"""
    T = prim_class(pname)
    try:
        v = T(x)
        valid = 1 if v.is_valid() else 0
        try:
            b = v.to_bytes().hex()
        except OverflowError:
            b = "OverflowError"
        fmt = format(v)
        return [f"I valid={valid} bytes={b} fmt={fmt}"]
    except Exception as e:  # noqa
        return [f"I crash {type(e).__name__}"]


def impl_rc_details(x):
    """the free-text details of the bit rows of a response code: `D <row name> <details>` per row that has any"""
    from tpmstream.spec.structures.constants import TPM_RC
    try:
        return sorted(f"D {a._name} {a._details.split(':')[0]}" for a in TPM_RC(x).attributes()
                      if getattr(a, "_details", None) is not None)
    except Exception as e:  # noqa
        return [f"D crash {type(e).__name__}"]


def impl_bits(pname, x):
    """canonical lines for BITS <prim> <x>: attributes(), accessors and the pretty printer's bit rows"""
    from tpmstream.common.event import MarshalEvent
    from tpmstream.common.path import Path, PathNode
    from tpmstream.io.pretty.unmarshal import pretty_attrs
    T = prim_class(pname)
    try:
        v = T(x)
        attrs = list(v.attributes())
        ev = MarshalEvent(Path(PathNode("")) / PathNode("w"), T, v)
        rows = [_ANSI.sub("", r) for r in pretty_attrs(ev)]
        out = []
        for a, r in zip(attrs, rows):
            if T.__name__ == "TPM_RC":
                m = a._value
                bits = x & m
                mm = m
                if mm == 0:
                    f = "hang"
                else:
                    while mm & 1 == 0:
                        bits >>= 1
                        mm >>= 1
                    f = str(bits)
            else:
                f = str(int(getattr(v, a._name)))
            toks = r.split()
            # row text: "<indent>.<name> <bits> [details…]"; the bits token is the first made of [01.] only
            bits_tok = next((t for t in toks if _re.fullmatch(r"[01.]+", t) and len(t) == 8 * T._int_size), "?")
            name_tok = next((t for t in toks if t.startswith(".") or "." + a._name in t), "")
            if a._name not in name_tok:
                bits_tok = "?name"
            out.append(f"F {a._name} {int(a._value)} {f} {bits_tok}")
        if len(rows) != len(attrs):
            out.append(f"F ?rows {len(rows)} {len(attrs)} -")
        return out
    except Exception as e:  # noqa
        return [f"F crash {type(e).__name__}"]


def crash_site(mode, tname, cc, enc, data):
    """re-run a decode that ended in an internal error; returns (exception class, innermost function in tpmstream)"""
    import traceback
    tp = resolve_type(tname)
    kwargs = dict(tpm_type=tp, buffer=bytes(data), abort_on_error=(mode == "S"))
    if cc is not None:
        kwargs["command_code"] = TPM_CC(cc)
    if enc:
        kwargs["parameter_encryption"] = True
    try:
        for _ in Binary.marshal(**kwargs):
            pass
    except (ConstraintViolatedError, InputStreamBytesDepletedError, InputStreamSuperfluousBytesError):
        return None
    except Exception as e:  # noqa
        frames = [f for f in traceback.extract_tb(e.__traceback__) if "tpmstream" in f.filename]
        f = frames[-1] if frames else None
        # the site: innermost function, plus the first words of the message (two asserts in one function are two sites)
        slug = _re.sub(r"[^A-Za-z0-9]+", "_", str(e))[:40].strip("_")
        return type(e).__name__, (f.name if f else "?") + (":" + slug if slug else "")
    return None


def impl_stream_objs(data):
    """events_to_objs over the events of a strict stream decode: one canonical object per message"""
    from tpmstream.common.object import events_to_objs
    from tpmstream.spec.commands import CommandResponseStream
    try:
        events = list(Binary.marshal(tpm_type=CommandResponseStream, buffer=bytes(data), abort_on_error=True))
        out = []
        for o in events_to_objs(events):
            cc = getattr(o, "commandCode", None) if type(o).__name__ == "Command" else getattr(o, "_command_code", None)
            out.append(f"O {type(o).__name__} cc={cc_str(cc)} {obj_str(o)}")
        return out
    except Exception as e:  # noqa
        return [f"O crash {type(e).__name__}"]


# --------------------------------------------------------------------------- front-ends
def impl_front(which, text):
    """byte stream a front-end extracts from `text` (bytes): 'F ok <hex>' | 'F ValueError <hex yielded before>'"""
    import importlib
    if which == "auto":
        am = importlib.import_module("tpmstream.io.auto.marshal")
        try:
            g = am.detect_format_and_yield_buffer(text, strict=False)
            return [f"F {next(g)}"]
        except IOError:
            return ["F IOError"]
        except Exception as e:  # noqa
            return [f"F crash {type(e).__name__}"]
    mod = importlib.import_module("tpmstream.io.hex.marshal" if which == "hex" else "tpmstream.io.swtpm_log.marshal")
    out = []
    try:
        for b in mod.parse_hex_string(text):
            out.append(b)
        return [f"F ok {bytes(out).hex() or '-'}"]
    except ValueError:
        try:
            return [f"F ValueError {bytes(out).hex() or '-'}"]
        except ValueError:
            return ["F ValueError ?negative-byte"]
    except Exception as e:  # noqa
        return [f"F crash {type(e).__name__}"]


def make_pcapng(payloads, link="ip", clock="uneven"):
    """a pcapng capture whose packets carry the given TPM payloads (IP/TCP like tpm2-tss tcti-pcap, or Ethernet).
    Timestamps: pcapng does not promise increasing ones (coarse clocks, clock steps, merged captures) - by default pairs of packets
    share a timestamp and the clock steps back every few packets; the payload order is the order in the file (seed C15j)"""
    import io
    import dpkt
    f = io.BytesIO()
    w = dpkt.pcapng.Writer(f, linktype=dpkt.pcap.DLT_RAW if link == "ip" else dpkt.pcap.DLT_EN10MB)
    for i, p in enumerate(payloads):
        tcp = dpkt.tcp.TCP(sport=2321, dport=40000 + (i % 100), seq=i, data=bytes(p))
        ip = dpkt.ip.IP(src=b"\x7f\x00\x00\x01", dst=b"\x7f\x00\x00\x01", p=dpkt.ip.IP_PROTO_TCP, data=tcp)
        ip.len = 20 + len(tcp)
        pkt = bytes(ip) if link == "ip" else bytes(dpkt.ethernet.Ethernet(data=ip))
        w.writepkt(pkt, ts=(1.0 + i) if clock == "increasing" else 1.0 + ((i // 2 * 7) % 5))
    return f.getvalue()


def impl_seq(data):
    """the messages of a stream decoded one by one (strict): a command where the previous message ended, then a response
    under the command code and the `encrypt` session attribute of the command as decoded — boundaries, code and flag all
    taken from the bytes themselves.  Returns the concatenated event lines (without pull counts) and the final result line
    ('R end' if the input ends at a message boundary)."""
    out = []
    off = 0
    cc = None
    enc = False
    turn = "Command"
    while off < len(data):
        block = impl_dec("S", turn, cc if turn == "Response" else None, enc if turn == "Response" else False, data[off:])
        evs = [l for l in block if l[0] in "MW"]
        out += [l.split(" ", 2)[0] + " " + l.split(" ", 2)[2] for l in evs]
        res = block[-1]
        if res.startswith("R done"):
            consumed = len(data) - off
        elif res.startswith("R superfluous"):
            rest = res.split(" ")[2][len("rest="):]
            consumed = len(data) - off - len(rest) // 2
        else:
            out.append(res)
            return out
        if turn == "Command":
            cc = None
            enc = False
            for l in evs:
                p = l.split(" ")
                if p[2] == ".commandCode" and p[4] != "...":
                    cc = int(p[4])
                if p[2].startswith(".authorizationArea[") and p[2].endswith(".sessionAttributes") and p[4] != "...":
                    enc = enc or bool(int(p[4]) & 0x40)
            turn = "Response"
        else:
            turn = "Command"
        off += consumed
    out.append("R end")
    return out


def impl_trim(payloads, link):
    """bytes the pcapng front-end extracts from a capture whose packets carry `payloads` (real dpkt container)"""
    import importlib
    import io
    pm = importlib.import_module("tpmstream.io.pcapng.marshal")
    try:
        out = bytes(pm.bytes_from_pcap_file(io.BytesIO(make_pcapng(payloads, link))))
        return [f"F ok {out.hex() or '-'}"]
    except Exception as e:  # noqa
        return [f"F crash {type(e).__name__}"]


def impl_events_via(front, data, tname="Stream", cc=None, mode="S"):
    """events (canonical, without pull counts) of decoding container bytes `data` through a front-end"""
    import importlib
    cls = {"hex": ("tpmstream.io.hex", "Hex"), "swtpm": ("tpmstream.io.swtpm_log", "SWTPMLog"),
           "pcapng": ("tpmstream.io.pcapng", "Pcapng"), "auto": ("tpmstream.io.auto", "Auto"),
           "binary": ("tpmstream.io.binary", "Binary")}[front]
    F = getattr(importlib.import_module(cls[0]), cls[1])
    tp = resolve_type(tname)
    kw = dict(tpm_type=tp, buffer=bytes(data), abort_on_error=(mode == "S"))
    if cc is not None:
        kw["command_code"] = TPM_CC(cc)
    lines = []
    try:
        for ev in F.marshal(**kw):
            lines.append(event_line(ev, 0) if isinstance(ev, MarshalEvent) else "W " + err_str(ev.error))
        lines.append("R end")
    except (ConstraintViolatedError, InputStreamBytesDepletedError, InputStreamSuperfluousBytesError) as e:
        lines.append(f"R {type(e).__name__}")
    except ValueError as e:
        lines.append("R ValueError")
    except IOError as e:
        lines.append("R IOError")
    except Exception as e:  # noqa
        lines.append(f"R crash {type(e).__name__}")
    return lines


# --------------------------------------------------------------------------- printers
_ROW = _re.compile(r"^\x1b\[34m(.*?)\x1b\[0m *\x1b\[30m((?:\|   )*)\x1b\[0m\x1b\[92m(.*?)\x1b\[0m *\x1b\[33m(.*?)\x1b\[0m ?(?:\x1b\[33m(.*)\x1b\[0m)?$", _re.S)
_INFO = _re.compile(r"^\x1b\[31m(.*)\x1b\[0m$", _re.S)
_EROW = _re.compile(r"^\x1b\[34m(.*?)\x1b\[0m *\x1b\[92m(.*?)\x1b\[0m\x1b\[33m = (.*)\x1b\[0m$", _re.S)


def stream_shaped(evs):
    """the hypotheses of the printers' theorems (Lean `shownB` = `shapedB` and `endsOk`), evaluated on the real events: every value
    is of a primitive class, the events that directly follow a `list[BYTE]` event as its children carry values, and no list's run
    is ended by a byte-buffer parent"""
    from tpmstream.common.util import is_list
    from tpmstream.spec.structures.base_types import BYTE
    for i, p in enumerate(evs):
        if not isinstance(p, MarshalEvent):
            continue
        if p.value is not ... and not hasattr(p.value, "to_bytes"):
            return False
        if is_list(p.type) and p.type.__args__[0] is BYTE:
            for c in evs[i + 1:]:
                if not isinstance(c, MarshalEvent):
                    continue
                if not (p.path[:-1] == c.path[:-1] and p.path[-1].name == c.path[-1].name):
                    break
                if c.value is ...:
                    return False
        if is_list(p.type) and p.value is ...:
            # Lean `endsOk`: the event that ends this list's run (the first marshal event after it that is not its child) is not
            # a byte-buffer parent - the printer shows that event as a plain row without examining it
            for c in evs[i + 1:]:
                if not isinstance(c, MarshalEvent):
                    continue
                if not (p.path[:-1] == c.path[:-1] and p.path[-1].name == c.path[-1].name):
                    if is_list(c.type) and c.type.__args__[0] is BYTE and c.value is ...:
                        return False
                    break
    return True


def impl_print(mode, tname, cc, enc, data):
    """rows of Pretty.unmarshal and Events.unmarshal over the events of a decode (real code), canonical"""
    from tpmstream.io.events import Events
    from tpmstream.io.pretty import Pretty
    tp = resolve_type(tname)
    kwargs = dict(tpm_type=tp, buffer=bytes(data), abort_on_error=(mode == "S"))
    if cc is not None:
        kwargs["command_code"] = TPM_CC(cc)
    if enc:
        kwargs["parameter_encryption"] = True
    evs = []
    try:
        for ev in Binary.marshal(**kwargs):
            evs.append(ev)
    except (ConstraintViolatedError, InputStreamBytesDepletedError, InputStreamSuperfluousBytesError):
        pass
    except Exception as e:  # noqa
        return [f"P decode-crash {type(e).__name__}"]
    infos = [f"Warning: {e.error}" for e in evs if not isinstance(e, MarshalEvent)]
    used = [False] * len(infos)
    try:
        reenc = b"".join(Binary.unmarshal(evs)).hex() or "-"
    except Exception as e:  # noqa
        reenc = "crash"

    def info_index(text):
        for k, t in enumerate(infos):
            if not used[k] and t == text:
                used[k] = True
                return k
        return "?"
    out = []
    try:
        for line in Pretty.unmarshal(iter(evs)):
            m = _INFO.match(line)
            if m:
                out.append(f"P! {info_index(m.group(1))}")
                continue
            m = _ROW.match(line)
            if not m:
                out.append("P ?unparsed " + _ANSI.sub("", line)[:60])
                continue
            t, indent, name, hx, val = m.groups()
            t = t.strip() or "-"
            val = val if val is not None else ""
            if t == "-":
                # attribute rows: the bits, and of the free-text details the part up to the colon (the code's name, the
                # severity, "Parameter No. n", …; the prose description after the colon is not part of any layout table)
                parts = val.split("  ", 1)
                val = parts[0] + ("  " + parts[1].split(":")[0] if len(parts) > 1 and parts[1].strip() else "")
            out.append(f"P {t} {len(indent) // 4} {name.strip()} {hx.strip() or '-'} {val}")
    except Exception as e:  # noqa
        out.append(f"P crash {type(e).__name__}")
    out.append(f"U {reenc} {len(evs)}")
    out.append(f"K {1 if stream_shaped(evs) else 0}")
    used = [False] * len(infos)
    try:
        for line in Events.unmarshal(iter(evs)):
            m = _INFO.match(line)
            if m:
                out.append(f"E! {info_index(m.group(1))}")
                continue
            m = _EROW.match(line)
            if not m:
                out.append("E ?unparsed " + _ANSI.sub("", line)[:60])
                continue
            t, path, val = m.groups()
            out.append(f"E {t.strip()} {path.strip() or '.'} {val}")
    except Exception as e:  # noqa
        out.append(f"E crash {type(e).__name__}")
    return out


# --------------------------------------------------------------------------- objects
def impl_e2o(mode, tname, cc, enc, data):
    """events_to_obj over the MarshalEvents a decode yields (also the partial list of a decode that raises)"""
    from tpmstream.common.object import events_to_obj
    tp = resolve_type(tname)
    kw = dict(tpm_type=tp, buffer=bytes(data), abort_on_error=(mode == "S"))
    ccobj = TPM_CC(cc) if cc is not None else None
    if ccobj is not None:
        kw["command_code"] = ccobj
    if enc:
        kw["parameter_encryption"] = True
    evs = []
    try:
        for e in Binary.marshal(**kw):
            evs.append(e)
    except Exception:  # noqa
        pass
    try:
        return [f"B {obj_str(events_to_obj(evs, command_code=ccobj))}"]
    except Exception as e:  # noqa
        return ["B crash"]


def impl_e2os(mode, data):
    """events_to_objs over the events a stream decode yields (also the partial list of a decode that raises):
       one `O <obj>` line per object the generator yields, `O crash` if it raises"""
    from tpmstream.common.object import events_to_objs
    from tpmstream.spec.commands import CommandResponseStream
    evs = []
    try:
        for e in Binary.marshal(tpm_type=CommandResponseStream, buffer=bytes(data), abort_on_error=(mode == "S")):
            evs.append(e)
    except Exception:  # noqa
        pass
    out = []
    try:
        for o in events_to_objs(evs):
            out.append(f"O {obj_str(o)}")
    except Exception:  # noqa
        out.append("O crash")
    return out


def impl_objects(mode, tname, cc, enc, data):
    """decoder object, events_to_obj(events), obj_to_events of both, re-encoding — canonical lines:
       D <obj>   the decoder's object          B <obj>   object rebuilt from the events
       Q <0|1>   D == B (Python ==)            then `M 0 …` lines: obj_to_events(decoder object)
       X <0|1>   obj_to_events(B) == obj_to_events(D)        Y <hex> bytes of re-encoding obj_to_events(D)
       C <0|1>   Canonical(bytes).object == D and Canonical(object).events == events"""
    from tpmstream.common.canonical import Canonical, Generator
    from tpmstream.common.object import events_to_obj, obj_to_events
    tp = resolve_type(tname)
    kw = dict(tpm_type=tp, buffer=bytes(data), abort_on_error=(mode == "S"))
    ccobj = TPM_CC(cc) if cc is not None else None
    if ccobj is not None:
        kw["command_code"] = ccobj
    if enc:
        kw["parameter_encryption"] = True
    try:
        g = Generator(Binary.marshal(**kw))
        evs = list(g)
        obj = g.value
    except Exception as e:  # noqa
        return [f"D undecodable {type(e).__name__}"]
    out = [f"D {obj_str(obj)}"]
    try:
        rebuilt = events_to_obj(evs, command_code=ccobj)
        out.append(f"B {obj_str(rebuilt)}")
        out.append(f"Q {1 if rebuilt == obj else 0}")
    except Exception as e:  # noqa
        rebuilt = None
        out += [f"B crash {type(e).__name__}", "Q 0"]
    try:
        e1 = list(obj_to_events(obj))
        out += [event_line(e, 0) for e in e1]
        e2 = list(obj_to_events(rebuilt)) if rebuilt is not None else None
        out.append(f"X {1 if e2 == e1 else 0}")
        out.append(f"Y {b''.join(Binary.unmarshal(e1)).hex() or '-'}")
        out.append(f"Z {1 if e1 == evs else 0}")
    except Exception as e:  # noqa
        out.append(f"X crash {type(e).__name__}")
    try:
        if tname not in ("Response",) and not enc:
            c1 = Canonical(bytes(data), format_in=Binary, tpm_type=tp, command_code=ccobj, lazy=False)
            c2 = Canonical(obj)
            ok = (c1.object == obj) and (list(c2.events) == evs)
            # the lazy facade (the default), in both access orders: what it shows does not depend on what was asked for first
            # (seed C11l: `.object` drained the decoder without keeping the events; `.events` was then empty)
            c3 = Canonical(bytes(data), format_in=Binary, tpm_type=tp, command_code=ccobj)
            o3 = c3.object
            ok = ok and (o3 == obj) and (list(c3.events) == evs)
            c4 = Canonical(bytes(data), format_in=Binary, tpm_type=tp, command_code=ccobj)
            e4 = list(c4.events)
            ok = ok and (e4 == evs) and (c4.object == obj)
            out.append(f"C {1 if ok else 0}")
    except Exception as e:  # noqa
        out.append(f"C crash {type(e).__name__}")
    return out


def impl_late(mode, msgs):
    """decode every message of `msgs` [(type, cc, enc, bytes)] first, keeping events and object; only then convert:
       events_to_obj(kept events) == kept object, obj_to_events(rebuilt) == kept events (the conversions are used on results that
       were produced earlier in the process, after any number of other decodes).  One line `L <i> ok|<what>` per message."""
    from tpmstream.common.canonical import Generator
    from tpmstream.common.object import events_to_obj, obj_to_events
    kept = []
    for tname, cc, enc, data in msgs:
        kw = dict(tpm_type=resolve_type(tname), buffer=bytes(data), abort_on_error=(mode == "S"))
        ccobj = TPM_CC(cc) if cc is not None else None
        if ccobj is not None:
            kw["command_code"] = ccobj
        if enc:
            kw["parameter_encryption"] = True
        try:
            g = Generator(Binary.marshal(**kw))
            evs = list(g)
            kept.append((ccobj, evs, g.value, None))
        except Exception as e:  # noqa
            kept.append((ccobj, None, None, type(e).__name__))
    out = []
    for i, (ccobj, evs, obj, err) in enumerate(kept):
        if err is not None:
            out.append(f"L {i} undecodable {err}")
            continue
        try:
            rebuilt = events_to_obj(evs, command_code=ccobj)
            if rebuilt != obj:
                out.append(f"L {i} rebuilt-object-differs same_text={1 if obj_str(rebuilt) == obj_str(obj) else 0}")
            elif list(obj_to_events(rebuilt)) != evs:
                out.append(f"L {i} events-of-rebuilt-object-differ")
            elif list(obj_to_events(obj)) != evs:
                out.append(f"L {i} events-of-decoder-object-differ")
            else:
                out.append(f"L {i} ok")
        except Exception as e:  # noqa
            out.append(f"L {i} crash {type(e).__name__}")
    return out


def impl_enum_derive():
    """the filtering machinery of `tpm_enum` at run time, after the parent enumeration has been used (iterated, looked up by value):
    every subset `TPM_ALG.by_type_exactly(S)` / `by_type_at_least(S)` for S of one or two algorithm kinds must hold exactly the
    members whose declared kinds say so (members and kinds read off the class attributes, not through the machinery under test),
    name them like the parent, and a second derivation must agree with the first.  One line per subset."""
    import itertools
    from tpmstream.spec.common.values import ValidValues
    from tpmstream.spec.structures.constants import TPM_ALG, AlgType
    # use the parent first, the way decoding does
    for x in (0x0001, 0x000B, 0x0010, 0x7FFF):
        try:
            str(TPM_ALG(x)); TPM_ALG(x).is_valid(); x in TPM_ALG
        except Exception:  # noqa
            pass
    list(TPM_ALG)
    members = {}
    for name, attr in vars(TPM_ALG).items():
        v = getattr(attr, "_value", None)
        if not name.startswith("_") and v is not None and hasattr(v, "_types"):
            members[name] = (int(v), set(v._types))
    out = []
    probe = sorted({x for x, _ in members.values()} | {0x0002, 0x7FFE, 0xFFFF})
    for k in (1, 2):
        for S in itertools.combinations(list(AlgType), k):
            for how in ("exactly", "at_least"):
                want = {}
                for n, (x, ts) in members.items():
                    if all(t in ts for t in S) and (how == "at_least" or len(ts) == len(S)):
                        want.setdefault(x, set()).add("TPM_ALG." + n)     # aliases (SHA / SHA1) share a value
                tag = f"{how}({'+'.join(t.name for t in S)})"
                try:
                    D1 = getattr(TPM_ALG, "by_type_" + how)(*S)
                    D2 = getattr(TPM_ALG, "by_type_" + how)(*S)
                    bad = None
                    for D in (D1, D2):
                        vv = ValidValues(D)
                        for x in probe:
                            got = vv.get(x)
                            if (got is not None) != (x in want):
                                bad = f"value {x}: valid={got is not None}, the declared kinds say {x in want}"
                                break
                            if got is not None and str(got) not in want[x]:
                                bad = f"value {x}: text form {got}, declared name {sorted(want[x])}"
                                break
                        if bad:
                            break
                    out.append(f"V {tag} {'ok ' + str(len(want)) if bad is None else 'bad ' + bad}")
                except Exception as e:  # noqa
                    out.append(f"V {tag} crash {type(e).__name__}")
    return out
