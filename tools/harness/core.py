"""Harness core: drive the Lean model through its line protocol, run the implementation, compare."""
import glob
import hashlib
import io
import json
import multiprocessing as mp
import os
import random
import subprocess
import sys
import time

HERE = os.path.dirname(os.path.abspath(__file__))
VERIF = os.path.dirname(os.path.dirname(HERE))
sys.path.insert(0, HERE)
import canon  # noqa: E402

DRIVER = os.path.join(VERIF, "lean", ".lake", "build", "bin", "tpmdriver")
NPROC = int(os.environ.get("VERIF_NPROC", "16"))


def run_model(op_lines, timeout=3600):
    """feed op lines to the Lean driver; returns one block (list of lines) per op"""
    if not op_lines:
        return []
    chunks = [op_lines[i::NPROC] for i in range(NPROC)] if len(op_lines) > 200 else [op_lines]
    procs = []
    for ch in chunks:
        if not ch:
            procs.append(None)
            continue
        p = subprocess.Popen([DRIVER], stdin=subprocess.PIPE, stdout=subprocess.PIPE, text=True)
        procs.append(p)
    import threading
    outs = [None] * len(chunks)

    def feed(i):
        p = procs[i]
        if p is None:
            outs[i] = ""
            return
        out, _ = p.communicate("\n".join(chunks[i]) + "\n", timeout=timeout)
        outs[i] = out

    ths = [threading.Thread(target=feed, args=(i,)) for i in range(len(chunks))]
    for t in ths:
        t.start()
    for t in ths:
        t.join()
    blocks_per_chunk = []
    for i, out in enumerate(outs):
        bl = []
        cur = []
        for line in out.split("\n"):
            if line == "END":
                bl.append(cur)
                cur = []
            elif line != "":
                cur.append(line)
        if len(bl) != len(chunks[i]):
            raise RuntimeError(f"model driver returned {len(bl)} blocks for {len(chunks[i])} ops "
                               f"(exit {procs[i].returncode if procs[i] else None})")
        blocks_per_chunk.append(bl)
    if len(chunks) == 1:
        return blocks_per_chunk[0]
    res = [None] * len(op_lines)
    for i, bl in enumerate(blocks_per_chunk):
        for j, b in enumerate(bl):
            res[i + j * NPROC] = b
    return res


class _Hang(Exception):
    pass


def _impl_one(op):
    """one operation on the real code, with a wall-clock limit: code that loops without consuming input (or never stops
    emitting) is an observation (`R hang`), not an infrastructure failure"""
    import signal
    limit = float(os.environ.get("VERIF_OP_TIMEOUT", "60"))

    def on_alarm(signum, frame):
        raise _Hang()
    try:
        old = signal.signal(signal.SIGALRM, on_alarm)
    except ValueError:          # not in the main thread: run unguarded
        try:
            return _impl_do(op)
        except canon.NoSuchType as e:
            return [f"R no-such-type {e}"]
    signal.setitimer(signal.ITIMER_REAL, limit)
    try:
        return _impl_do(op)
    except _Hang:
        return ["R hang"]
    except canon.NoSuchType as e:
        return [f"R no-such-type {e}"]
    finally:
        signal.setitimer(signal.ITIMER_REAL, 0)
        signal.signal(signal.SIGALRM, old)


def strip_root(line, root):
    import re
    line = re.sub(r"(?<=[ =])" + re.escape(root) + r"(?=[ ]|$)", ".", line)
    return re.sub(re.escape(root) + r"(?=[.\[])", "", line)


def _impl_do(op):
    kind = op[0]
    if kind == "DEC":
        _, mode, tname, cc, enc, data = op
        return canon.impl_dec(mode, tname, cc, enc, data)
    if kind == "DECU":
        _, mode, tname, cc, enc, data = op
        return canon.impl_dec(mode, tname, cc, enc, data, unmarshal=True)
    if kind == "DECSRC":
        _, mode, tname, cc, enc, data, src = op
        return canon.impl_dec(mode, tname, cc, enc, data, source=src)
    if kind == "ENUMDERIVE":
        return canon.impl_enum_derive()
    if kind == "LATE":
        return canon.impl_late(op[1], op[2])
    if kind == "DECFRONT":
        _, mode, tname, cc, enc, text, front = op
        return canon.impl_dec(mode, tname, cc, enc, text, front=front)
    if kind == "DECROOT":
        # the same decode below a caller-supplied root path; the prefix is stripped again so that the lines are comparable
        _, mode, tname, cc, enc, data, root = op
        return [strip_root(l, root) for l in canon.impl_dec(mode, tname, cc, enc, data, root=root)]
    if kind == "DECROOTRAW":
        _, mode, tname, cc, enc, data, root = op
        return canon.impl_dec(mode, tname, cc, enc, data, root=root)
    if kind == "OBJ":
        _, mode, tname, cc, enc, data = op
        return canon.impl_objects(mode, tname, cc, enc, data)
    if kind == "PRINT":
        _, mode, tname, cc, enc, data = op
        return canon.impl_print(mode, tname, cc, enc, data)
    if kind == "FRONT":
        return canon.impl_front(op[1], op[2])
    if kind == "E2O":
        _, mode, tname, cc, enc, data = op
        return canon.impl_e2o(mode, tname, cc, enc, data)
    if kind == "RCD":
        return canon.impl_rc_details(op[1])
    if kind == "E2OS":
        return canon.impl_e2os(op[1], op[2])
    if kind == "SEQ":
        return canon.impl_seq(op[1])
    if kind == "TRIM":
        return canon.impl_trim(op[1], op[2])
    if kind == "VIA":
        return canon.impl_events_via(op[1], op[2], op[3], op[4], op[5])
    if kind == "OBJS":
        return canon.impl_stream_objs(op[1])
    if kind == "INT":
        return canon.impl_int(op[1], op[2])
    if kind == "BITS":
        return canon.impl_bits(op[1], op[2])
    raise ValueError(kind)


def run_impl(ops):
    if len(ops) < 64:
        return [_impl_one(o) for o in ops]
    with mp.Pool(NPROC) as pool:
        return pool.map(_impl_one, ops, chunksize=max(1, len(ops) // (NPROC * 8)))


def run_impl_fresh(ops):
    """every op in a process of its own (for ops whose outcome depends on what the process did before)"""
    with mp.Pool(min(NPROC, max(1, len(ops))), maxtasksperchild=1) as pool:
        return pool.map(_impl_one, ops, chunksize=1)


def op_line(op):
    if op[0] == "DEC":
        _, mode, tname, cc, enc, data = op
        return canon.dec_op(mode, tname, cc, enc, data)
    if op[0] == "FRONT":
        return f"FRONT {op[1]} {op[2].hex() or '-'}"
    if op[0] == "TRIM":
        return "TRIM " + ";".join(bytes(p).hex() or "-" for p in op[1])
    if op[0] == "PRINT":
        return "PRINT" + canon.dec_op(*op[1:])[3:]
    if op[0] == "E2O":
        return "E2O" + canon.dec_op(*op[1:])[3:]
    if op[0] == "RCD":
        return f"RCD {op[1]}"
    if op[0] == "E2OS":
        return f"E2OS {op[1]} {op[2].hex() or '-'}"
    if op[0] == "DECU":
        return "DECU" + canon.dec_op(*op[1:])[3:]
    if op[0] in ("INT", "BITS", "INTP"):
        return f"{op[0]} {op[1]} {op[2]}"
    raise ValueError(op[0])


def corpus_messages():
    """(cmd_bytes, rsp_bytes) pairs from the bundled pcaps, via dpkt like the pcapng front-end"""
    import importlib
    pm = importlib.import_module("tpmstream.io.pcapng.marshal")
    files = sorted(glob.glob(os.path.join(canon.REPO, "src", "tpmstream", "data", "*.pcap")))
    out = []
    for f in files:
        with open(f, "rb") as fh:
            pk = list(pm.tpm_pkgs_from_pcap_file(fh))
        for i in range(0, len(pk) - 1, 2):
            out.append((os.path.basename(f), bytes(pk[i]), bytes(pk[i + 1])))
    return out


def diff_blocks(ops, impl, model):
    """indices where the observation blocks differ"""
    return [i for i in range(len(ops)) if impl[i] != model[i]]
