#!/venv/bin/python
"""Translator: /repo's layout tables (Python class attributes) -> layout JSON -> Lean definitions.

Run with /venv/bin/python.  `extract()` introspects the *working tree* of /repo (sys.path is forced to
/repo/src), `emit_lean()` turns a layout dict into Lean files in a namespace.

  translate.py            regenerate generated/layout.json + lean/TpmModel/Generated/*.lean
  translate.py --pin      additionally write pinned/layout.json + lean/TpmModel/Pinned/*.lean
                          (done once from the reviewed tree; never at check time)

Files are only rewritten when their content changes, so an unchanged tree leaves lake with nothing to do.
The translator refuses rather than guesses: anything of unknown shape becomes an explicit `unknown`/`bad`
item, which makes the well-formedness theorems false.
"""
import ast
import inspect
import json
import os
import typing
import sys

VERIF = os.path.dirname(os.path.dirname(os.path.abspath(__file__)))
REPO = os.environ.get("VERIF_REPO", "/repo")
sys.path.insert(0, os.path.join(REPO, "src"))


LAST_CLS_KEY = None


# --------------------------------------------------------------------------------------------- extract
def extract():
    from dataclasses import fields

    import tpmstream
    assert os.path.realpath(tpmstream.__file__).startswith(os.path.realpath(REPO)), tpmstream.__file__
    from tpmstream.common.util import is_list
    from tpmstream.spec.commands import Command, Response
    from tpmstream.spec.commands import params_common
    from tpmstream.spec.commands.params_common import TPMS_PARAMS
    from tpmstream.spec.common import base_type, tpm_rc
    from tpmstream.spec.common.base_type import _INT
    from tpmstream.spec.common.values import NamedRange
    from tpmstream.spec.structures import structures_types
    from tpmstream.spec.structures.constants import TPM_CC

    prims = {}
    prim_order = []

    def named_item(nr, owner=None):
        if nr._sep != ".":
            return {"k": "unknown", "repr": f"NamedRange sep {nr._sep!r}"}
        tp = nr._type
        return {"k": "named", "owner": owner or tp.__name__, "base": nr._basename, "lo": int(nr._start),
                "hi": int(nr._end), "nibbles": int(nr._index_nibbles),
                "osize": int(getattr(tp, "_int_size", -1)), "osigned": bool(getattr(tp, "_signed", False))}

    def member_item(m, owner=None, ocls=None):
        tp = ocls or type(m)
        try:
            v = int(m._value)
            name = m._name
        except Exception as e:  # noqa
            return {"k": "unknown", "repr": f"member {m!r}: {e}"}
        if not isinstance(name, str):
            return {"k": "unknown", "repr": f"member without name {v}"}
        return {"k": "member", "owner": owner or tp.__name__, "name": name, "v": v,
                "osize": int(getattr(tp, "_int_size", -1)), "osigned": bool(getattr(tp, "_signed", False))}

    def class_items(cls):
        out = []
        for m in cls:
            if isinstance(m, NamedRange):
                out.append(named_item(m, owner=cls.__name__))
            elif hasattr(m, "_name") and hasattr(m, "_value"):
                out.append(member_item(m, owner=cls.__name__, ocls=cls))
            else:
                out.append({"k": "unknown", "repr": f"class member {m!r}"})
        return out

    def valid_items(tp):
        out = []
        vv = getattr(tp, "_valid_values", None)
        if vv is None or not hasattr(vv, "_values"):
            return [{"k": "unknown", "repr": "no _valid_values"}]
        for v in vv._values:
            if isinstance(v, range):
                if v.step != 1:
                    out.append({"k": "unknown", "repr": repr(v)})
                else:
                    out.append({"k": "range", "lo": v.start, "hi": v.stop})
            elif isinstance(v, NamedRange):
                out.append(named_item(v))
            elif isinstance(v, type) and hasattr(v, "class_iter"):
                out.extend(class_items(v))
            elif isinstance(v, bool):
                out.append({"k": "unknown", "repr": repr(v)})
            elif isinstance(v, int):
                out.append({"k": "int", "v": int(v)})
            elif hasattr(v, "_name") and hasattr(v, "_value") and hasattr(type(v), "class_iter"):
                out.append(member_item(v))
            else:
                out.append({"k": "unknown", "repr": repr(v)})
        return out

    def flavour(tp):
        qn = getattr(tp.__init__, "__qualname__", "")
        if tp.__name__ == "TPM_RC" and "tpm_bitfield" in qn:
            return "rc"
        if "tpm_bitfield" in qn:
            return "bitfield"
        if "tpm_enum" in qn:
            return "enum"
        if tp.__init__ is _INT.__init__:
            return "int"
        return "unknown:" + qn

    def prim_def(tp):
        n = tp.__name__
        if n in prims:
            if prims[n]["_cls"] is not tp:
                prims[n]["valid"] = [{"k": "unknown", "repr": "two classes share the name " + n}]
            return n
        fl = flavour(tp)
        d = {"_cls": tp, "name": n, "size": int(tp._int_size), "signed": bool(tp._signed), "flavour": fl,
             "valid": valid_items(tp), "members": [], "masks": []}
        if fl.startswith("unknown"):
            d["flavour"] = "int"
            d["valid"] = [{"k": "unknown", "repr": fl}] + d["valid"]
        if fl == "enum":
            d["members"] = class_items(tp)
        if fl == "bitfield":
            try:
                d["masks"] = [[a._name, int(a._value)] for a in tp(0).attributes()]
            except Exception as e:  # noqa
                d["valid"] = [{"k": "unknown", "repr": f"attributes(): {e}"}] + d["valid"]
        prims[n] = d
        prim_order.append(n)
        return n

    types = {}
    order = []

    cls_key = {}
    global LAST_CLS_KEY
    LAST_CLS_KEY = cls_key

    def tref(tp):
        """key of the definition for class tp (structure types only); two classes that share a
        __name__ get distinct keys (NAME, NAME__2, ...) and keep their common name string"""
        if tp in cls_key:
            return cls_key[tp]
        n = tp.__name__
        key = n
        i = 1
        while key in types:
            i += 1
            key = f"{n}__{i}"
        cls_key[tp] = key
        types[key] = None
        d = tdef(tp)
        d["name"] = n
        types[key] = d
        order.append(key)
        return key

    def key_of(tp, fname):
        sb = tp._selected_by
        if fname not in sb:
            return {"k": "unmatchable", "why": "missing"}
        key = sb[fname]
        if key is None:
            return {"k": "fallback"}
        if isinstance(key, type):
            return {"k": "unmatchable", "why": "class " + key.__name__}
        try:
            return {"k": "int", "v": int(key)}
        except Exception:  # noqa
            return {"k": "unmatchable", "why": repr(key)}

    def tdef(tp):
        n = tp.__name__
        if hasattr(tp, "_int_size"):
            return {"kind": "prim", "prim": prim_def(tp)}
        try:
            fs = fields(tp)
        except TypeError:
            return {"kind": "bad", "repr": "not a dataclass: " + n}
        if n.startswith("TPM2B"):
            if len(fs) != 2 or not hasattr(fs[0].type, "_int_size"):
                return {"kind": "bad", "repr": "TPM2B shape: " + n}
            sf, bf = fs
            if is_list(bf.type):
                et = bf.type.__args__[0]
                if not hasattr(et, "_int_size"):
                    return {"kind": "bad", "repr": "TPM2B list of non-primitive: " + n}
                return {"kind": "tpm2b_bytes", "size_name": sf.name, "size_prim": prim_def(sf.type),
                        "buf_name": bf.name, "elem": prim_def(et)}
            if bf.type is None or hasattr(bf.type, "_int_size"):
                return {"kind": "bad", "repr": "TPM2B body: " + n}
            return {"kind": "tpm2b", "size_name": sf.name, "size_prim": prim_def(sf.type),
                    "buf_name": bf.name, "body": tref(bf.type)}
        if hasattr(tp, "_selected_by"):
            arms = []
            extra = [k for k in tp._selected_by if k not in [f.name for f in fs]]
            for f in fs:
                a = {"name": f.name, "key": key_of(tp, f.name)}
                if f.type is None:
                    a["t"] = None
                elif is_list(f.type):
                    et = f.type.__args__[0]
                    if not hasattr(et, "_int_size"):
                        a["t"] = {"bad": "list arm of non-primitive"}
                    else:
                        ls = getattr(tp, "_list_size", {})
                        nn = ls.get(f.name)
                        a["t"] = {"list": prim_def(et), "n": None if nn is None else int(nn)}
                else:
                    a["t"] = tref(f.type)
                arms.append(a)
            d = {"kind": "union", "arms": arms}
            if extra:
                d["extra_keys"] = extra
            return d
        sels = getattr(tp, "_selectors", {})
        out = []
        for f in fs:
            if f.type is None:
                return {"kind": "bad", "repr": f"field {f.name} of {n} has type None"}
            if is_list(f.type):
                et = f.type.__args__[0]
                out.append({"name": f.name, "kind": "counted", "type": tref(et)})
            elif f.name in sels:
                out.append({"name": f.name, "kind": "selected", "sel": sels[f.name], "type": tref(f.type)})
            elif isinstance(f.type, type):
                out.append({"name": f.name, "kind": "plain", "type": tref(f.type)})
            else:
                return {"kind": "bad", "repr": f"field {f.name} of {n}: {f.type!r}"}
        return {"kind": "struct", "params": bool(issubclass(tp, TPMS_PARAMS)), "fields": out}

    for t in structures_types:
        tref(t)
    structure_names = [tref(t) for t in structures_types]
    tref(params_common.TPM2B_ENCRYPTED_PARAM)

    maps = {}
    for side, cls in (("command", Command), ("response", Response)):
        for area in ("handles", "parameters"):
            m = cls._type_maps[area]
            maps[f"{side}_{area}"] = [[int(k), tref(v)] for k, v in m.items()]
    cc = [[m._name, int(m._value)] for m in TPM_CC]

    def msg_fields(cls):
        out = []
        for f in fields(cls):
            if f.type is typing.Any:
                out.append([f.name, "Any"])
            elif is_list(f.type):
                out.append([f.name, "list:" + tref(f.type.__args__[0])])
            elif isinstance(f.type, type):
                out.append([f.name, tref(f.type)])
            else:
                out.append([f.name, "Any" if "Any" in repr(f.type) else repr(f.type)])
        return out

    layout = {
        "prims": {n: {k: v for k, v in prims[n].items() if k != "_cls"} for n in prim_order},
        "prim_order": prim_order,
        "types": {n: dict(types[n]) for n in order},
        "order": order,
        "structures": structure_names,
        "maps": maps,
        "cc": cc,
        "command_fields": msg_fields(Command),
        "command_selectors": dict(getattr(Command, "_selectors", {})),
        "response_fields": msg_fields(Response),
    }
    from tpmstream.spec.structures.constants import TPM_RC, TPM_ST
    layout["consts"] = {"TPM_ST.SESSIONS": int(TPM_ST.SESSIONS), "TPM_RC.SUCCESS": int(TPM_RC.SUCCESS),
                        "TPM2B_ENCRYPTED_PARAM": tref(params_common.TPM2B_ENCRYPTED_PARAM)}
    layout["types"] = {n: dict(types[n]) for n in order}
    layout["order"] = order
    layout["misc"] = extract_misc()
    return layout


def _src(rel):
    with open(os.path.join(REPO, "src", "tpmstream", rel)) as f:
        return f.read()


def extract_misc():
    """facts that introspection cannot see: parsed from source text with ast"""
    misc = {}
    # --- cache capacity of TPMS_PARAMS.encrypted
    tree = ast.parse(_src("spec/commands/params_common.py"))
    cap = "absent"
    for node in ast.walk(tree):
        if isinstance(node, ast.ClassDef) and node.name == "TPMS_PARAMS":
            for fn in node.body:
                if isinstance(fn, ast.FunctionDef) and fn.name == "encrypted":
                    for dec in fn.decorator_list:
                        src = ast.unparse(dec)
                        if "lru_cache" in src or src in ("cache", "functools.cache"):
                            if isinstance(dec, ast.Call):
                                kw = {k.arg: k.value for k in dec.keywords}
                                arg = kw.get("maxsize", dec.args[0] if dec.args else None)
                                if arg is None:
                                    cap = 128
                                elif isinstance(arg, ast.Constant):
                                    cap = arg.value if arg.value is not None else "unbounded"
                                else:
                                    cap = "opaque:" + ast.unparse(arg)
                            else:
                                cap = "unbounded" if "lru_cache" not in src else 128
    misc["cache_capacity"] = cap
    # --- numeric(): operator table
    tree = ast.parse(_src("spec/common/base_type.py"))
    ops = []
    binop = {ast.Add: "add", ast.Sub: "sub", ast.Mult: "mul", ast.Div: "truediv", ast.FloorDiv: "floordiv",
             ast.Mod: "mod", ast.Pow: "pow", ast.LShift: "lshift", ast.RShift: "rshift", ast.BitAnd: "and",
             ast.BitXor: "xor", ast.BitOr: "or"}
    cmpop = {ast.Lt: "lt", ast.LtE: "le", ast.Eq: "eq", ast.NotEq: "ne", ast.Gt: "gt", ast.GtE: "ge"}

    def is_int_self(e):
        return ast.unparse(e) == "int(self)"

    def is_other(e):
        return isinstance(e, ast.Name) and e.id == "other"

    def classify(fn):
        body = [s for s in fn.body if not (isinstance(s, ast.Expr) and isinstance(s.value, ast.Constant))]
        if len(body) != 1 or not isinstance(body[0], ast.Return):
            return ["opaque", ast.unparse(fn)]
        e = body[0].value

        def one(e):
            if isinstance(e, ast.BinOp) and type(e.op) in binop:
                if is_int_self(e.left) and is_other(e.right):
                    return [binop[type(e.op)], "self_other"]
                if is_other(e.left) and is_int_self(e.right):
                    return [binop[type(e.op)], "other_self"]
            if isinstance(e, ast.Compare) and len(e.ops) == 1 and type(e.ops[0]) in cmpop:
                if is_int_self(e.left) and is_other(e.comparators[0]):
                    return [cmpop[type(e.ops[0])], "self_other"]
            return None

        r = one(e)
        if r:
            return r
        if isinstance(e, ast.Tuple) and len(e.elts) == 2:
            a, b = one(e.elts[0]), one(e.elts[1])
            if a and b and a[0] == "floordiv" and b[0] == "mod" and a[1] == b[1]:
                return ["divmod", a[1]]
        s = ast.unparse(e)
        if s == "hash(int(self))":
            return ["hash", "self"]
        if s == "str(int(self))":
            return ["str", "self"]
        if s == "int(self._value)":
            return ["int", "self"]
        if s == "f'{type(self).__name__}({str(self)})'":
            return ["repr", "self"]
        return ["opaque", s]

    for node in tree.body:
        if isinstance(node, ast.FunctionDef) and node.name == "numeric":
            installed = set()
            for s in ast.walk(node):
                if isinstance(s, ast.Call) and ast.unparse(s.func) == "setattr" and len(s.args) == 3:
                    if isinstance(s.args[1], ast.Constant):
                        installed.add(s.args[1].value)
            for fn in node.body:
                if isinstance(fn, ast.FunctionDef):
                    ops.append([fn.name] + classify(fn) + [fn.name in installed])
                elif isinstance(fn, ast.If):
                    for f2 in fn.body:
                        if isinstance(f2, ast.FunctionDef):
                            ops.append([f2.name] + classify(f2) + [f2.name in installed])
    misc["numeric_ops"] = ops
    # --- front-end constants
    import importlib
    sw = importlib.import_module('tpmstream.io.swtpm_log.marshal')
    misc["swtpm"] = {"CMD_MARKER": sw.CMD_MARKER.decode("latin1"), "CTRL_MARKER": sw.CTRL_MARKER.decode("latin1"),
                     "VALID_HEX": sw.VALID_HEX.decode("latin1"), "VALID_WS": sw.VALID_WS.decode("latin1"),
                     "states": [sw.STATE_WANT_CMD_MARKER, sw.STATE_WANT_CMD_START, sw.STATE_WANT_HIGH_NIBBLE,
                                sw.STATE_WANT_LOW_NIBBLE]}
    tree = ast.parse(_src("io/auto/marshal.py"))
    consts = [n.value for n in ast.walk(tree) if isinstance(n, ast.Constant) and isinstance(n.value, bytes)]
    misc["auto_bytes_constants"] = [c.decode("latin1") for c in consts]
    # --- skip lists hard-coded in functions
    def str_consts(rel, fname):
        tree = ast.parse(_src(rel))
        for node in ast.walk(tree):
            if isinstance(node, ast.FunctionDef) and node.name == fname:
                return sorted({n.value for n in ast.walk(node) if isinstance(n, ast.Constant)
                               and isinstance(n.value, str) and n.value.isidentifier()})
        return None
    misc["skips"] = {
        "obj_to_events": str_consts("common/object.py", "obj_to_events"),
        "process_command": str_consts("io/binary/marshal.py", "process_command"),
        "process_response": str_consts("io/binary/marshal.py", "process_response"),
    }
    # --- TPM_RC constants and name maps
    tpm_rc = importlib.import_module('tpmstream.spec.common.tpm_rc')
    rc = {k: int(getattr(tpm_rc, k)) for k in dir(tpm_rc) if k.startswith(("mask_", "shift_"))}
    rcmaps = {}
    for nm in ("TPM_RC_FMT0_ERROR_MAP", "TPM_RC_FMT1_MAP", "TPM_RC_FMT0_WARN_MAP"):
        m = getattr(tpm_rc, nm)
        default = m.default_factory() if getattr(m, "default_factory", None) else None
        rcmaps[nm] = {"entries": [[int(k), v[0]] for k, v in sorted(m.items())],
                      "default": default[0] if default else None}
    misc["rc"] = {"consts": rc, "maps": rcmaps}
    return misc


# --------------------------------------------------------------------------------------------- emit
def lstr(s):
    return json.dumps(s, ensure_ascii=False).replace("\\u", "\\u")  # Lean string literal syntax ~ JSON


def lint(i):
    return f"({i})" if i < 0 else str(i)


def lbool(b):
    return "true" if b else "false"


def ident(n):
    return "".join(c if c.isalnum() or c == "_" else "_" for c in n)


def item_lean(it):
    k = it["k"]
    if k == "range":
        return f".range {lint(it['lo'])} {lint(it['hi'])}"
    if k == "named":
        return (f".named {lstr(it['owner'])} {lstr(it['base'])} {lint(it['lo'])} {lint(it['hi'])} "
                f"{it['nibbles']} {max(it['osize'], 0)} {lbool(it['osigned'])}")
    if k == "member":
        return f".member {lstr(it['owner'])} {lstr(it['name'])} {lint(it['v'])} {max(it['osize'], 0)} {lbool(it['osigned'])}"
    if k == "int":
        return f".int {lint(it['v'])}"
    return f".unknown {lstr(it.get('repr', '?'))}"


def key_lean(k):
    if k["k"] == "int":
        return f"(.int {lint(k['v'])})"
    if k["k"] == "fallback":
        return ".fallback"
    return ".unmatchable"


def emit_lean(layout, ns, outdir):
    os.makedirs(outdir, exist_ok=True)
    files = {}
    # ---- Prims
    out = ["import TpmModel.Basic", f"/-! generated by tools/translate.py — do not edit -/", f"namespace {ns}", ""]
    for n in layout["prim_order"]:
        p = layout["prims"][n]
        items = ",\n    ".join(item_lean(i) for i in p["valid"])
        mem = ",\n    ".join(item_lean(i) for i in p["members"])
        masks = ", ".join(f"({lstr(a)}, {m})" for a, m in p["masks"])
        out.append(f"def P_{ident(n)} : Prim :=\n  {{ name := {lstr(n)}, size := {p['size']}, signed := {lbool(p['signed'])}, "
                   f"flavour := .{p['flavour']},\n    valid := [\n    {items}],\n    members := [\n    {mem}],\n    masks := [{masks}] }}")
    out.append("")
    out.append("def allPrims : List Prim := [" + ", ".join("P_" + ident(n) for n in layout["prim_order"]) + "]")
    out.append(f"end {ns}")
    files["Prims.lean"] = "\n".join(out) + "\n"

    # ---- Types
    out = [f"import TpmModel.{ns}.Prims", f"/-! generated by tools/translate.py — do not edit -/", f"namespace {ns}", ""]

    def pref(n):
        return "P_" + ident(n)

    for n in layout["order"]:
        t = layout["types"][n]
        k = t["kind"]
        dkey, n = n, t["name"]
        if k == "prim":
            body = f".prim {pref(t['prim'])}"
        elif k == "tpm2b_bytes":
            body = f".tpm2bBytes {lstr(n)} {lstr(t['size_name'])} {pref(t['size_prim'])} {lstr(t['buf_name'])} {pref(t['elem'])}"
        elif k == "tpm2b":
            body = f".tpm2b {lstr(n)} {lstr(t['size_name'])} {pref(t['size_prim'])} {lstr(t['buf_name'])} T_{ident(t['body'])}"
        elif k == "union":
            arms = ".nil"
            for a in reversed(t["arms"]):
                key = key_lean(a["key"])
                if a["t"] is None:
                    arms = f"(.consNone {lstr(a['name'])} {key}\n    {arms})"
                elif isinstance(a["t"], dict) and "list" in a["t"]:
                    nn = "none" if a["t"]["n"] is None else f"(some {a['t']['n']})"
                    arms = f"(.consBytes {lstr(a['name'])} {key} {pref(a['t']['list'])} {nn}\n    {arms})"
                elif isinstance(a["t"], dict):
                    arms = f"(.cons {lstr(a['name'])} {key} (.bad {lstr(a['t']['bad'])})\n    {arms})"
                else:
                    arms = f"(.cons {lstr(a['name'])} {key} T_{ident(a['t'])}\n    {arms})"
            body = f".union {lstr(n)}\n    {arms}"
        elif k == "struct":
            fs = ".nil"
            for f in reversed(t["fields"]):
                if f["kind"] == "counted":
                    kind = ".counted"
                elif f["kind"] == "selected":
                    kind = f"(.selected {lstr(f['sel'])})"
                else:
                    kind = ".plain"
                fs = f"(.cons {lstr(f['name'])} {kind} T_{ident(f['type'])}\n    {fs})"
            body = f".struct {lstr(n)} {lbool(t['params'])}\n    {fs}"
        else:
            body = f".bad {lstr(t.get('repr', n))}"
        out.append(f"def T_{ident(dkey)} : Ty :=\n  {body}")
    out.append("")
    out.append("def allTypes : List Ty := [" + ",\n  ".join("T_" + ident(n) for n in layout["order"]) + "]")
    out.append("")
    out.append("/-- the classes listed in `tpmstream.spec.structures.structures_types` -/")
    out.append("def structures : List Ty := [" + ",\n  ".join("T_" + ident(n) for n in layout["structures"]) + "]")
    out.append("")
    out.append("def typeByName : List (String × Ty) := [" + ",\n  ".join(f"({lstr(n)}, T_{ident(n)})" for n in layout["order"]) + "]")
    out.append(f"end {ns}")
    files["Types.lean"] = "\n".join(out) + "\n"

    # ---- Cmd
    out = [f"import TpmModel.{ns}.Types", "import TpmModel.Message", f"/-! generated by tools/translate.py — do not edit -/", f"namespace {ns}", ""]
    out.append("/-- `TPM_CC` members (name, value) in class-iteration order -/")
    out.append("def ccMembers : List (String × Int) := [" + ",\n  ".join(f"({lstr(n)}, {lint(v)})" for n, v in layout["cc"]) + "]")
    for nm, m in layout["maps"].items():
        out.append(f"def map_{nm} : List (Int × Ty) := [" + ",\n  ".join(f"({lint(k)}, T_{ident(v)})" for k, v in m) + "]")
    def codes(n):
        return "[" + ", ".join(str(ord(ch)) for ch in n) + "]"

    out.append("/-- `TPM_CC` member names as code points (for the kernel-checked naming rule), with their values -/")
    out.append("def ccCodes : List (List Nat × Int) := [" + ",\n  ".join(f"({codes(n)}, {lint(v)})" for n, v in layout["cc"]) + "]")
    for nm, m in layout["maps"].items():
        out.append(f"/-- keys of map_{nm} with the `__name__` of the mapped class as code points -/")
        out.append(f"def mapNames_{nm} : List (Int × List Nat) := [" +
                   ",\n  ".join(f"({lint(k)}, {codes(layout['types'][v]['name'])})" for k, v in m) + "]")
    for side in ("command", "response"):
        out.append(f"def {side}Fields : List (String × String) := [" +
                   ", ".join(f"({lstr(a)}, {lstr(b)})" for a, b in layout[f"{side}_fields"]) + "]")
    out.append("def commandSelectors : List (String × String) := [" +
               ", ".join(f"({lstr(a)}, {lstr(b)})" for a, b in layout["command_selectors"].items()) + "]")
    cf = dict(layout["command_fields"])
    rf = dict(layout["response_fields"])

    def fprim(d, f):
        t = d.get(f)
        if t in layout["types"] and layout["types"][t]["kind"] == "prim":
            return "P_" + ident(layout["types"][t]["prim"])
        return "default"

    def flist(d, f):
        t = d.get(f, "")
        if t.startswith("list:") and t[5:] in layout["types"]:
            return "T_" + ident(t[5:])
        return "(.bad \"authorizationArea\")"

    c = layout["consts"]
    out.append("def msgTables : MsgTables :=\n  { " + ",\n    ".join([
        f"tagCmd := {fprim(cf, 'tag')}", f"cmdSize := {fprim(cf, 'commandSize')}", f"cc := {fprim(cf, 'commandCode')}",
        f"authSize := {fprim(cf, 'authSize')}", f"authCmd := {flist(cf, 'authorizationArea')}",
        f"tagRsp := {fprim(rf, 'tag')}", f"rspSize := {fprim(rf, 'responseSize')}", f"rc := {fprim(rf, 'responseCode')}",
        f"paramSize := {fprim(rf, 'parameterSize')}", f"authRsp := {flist(rf, 'authorizationArea')}",
        "cmdHandles := map_command_handles", "cmdParams := map_command_parameters",
        "rspHandles := map_response_handles", "rspParams := map_response_parameters",
        f"encParam := T_{ident(c['TPM2B_ENCRYPTED_PARAM'])}",
        f"sessionsTag := {lint(c['TPM_ST.SESSIONS'])}", f"rcSuccess := {lint(c['TPM_RC.SUCCESS'])}"]) + " }")
    out.append(f"end {ns}")
    files["Cmd.lean"] = "\n".join(out) + "\n"

    # ---- Tables
    out = [f"import TpmModel.{ns}.Cmd", "import TpmModel.Coherence", f"/-! generated by tools/translate.py — do not edit -/", f"namespace {ns}", ""]
    out.append("def tables : Tables :=\n  { " + ",\n    ".join([
        "prims := allPrims", "types := allTypes", "structures := structures", "cc := ccMembers",
        "cmdHandles := map_command_handles", "cmdParams := map_command_parameters",
        "rspHandles := map_response_handles", "rspParams := map_response_parameters",
        "commandFields := commandFields", "responseFields := responseFields", "commandSelectors := commandSelectors",
        f"sessionsTag := {lint(c['TPM_ST.SESSIONS'])}", f"rcSuccess := {lint(c['TPM_RC.SUCCESS'])}"]) + " }")
    out.append(f"end {ns}")
    files["Tables.lean"] = "\n".join(out) + "\n"

    # ---- Misc
    misc = layout["misc"]
    out = ["import TpmModel.Prim", "import TpmModel.Front", f"/-! generated by tools/translate.py — do not edit -/", f"namespace {ns}", ""]
    cap = misc["cache_capacity"]
    if cap == "unbounded":
        capl = ".unbounded"
    elif cap == "absent":
        capl = ".absent"
    elif isinstance(cap, int) and not isinstance(cap, bool):
        capl = f"(.bounded {cap})"
    else:
        capl = f"(.opaque {lstr(str(cap))})"
    out.append(f"/-- decorator of `TPMS_PARAMS.encrypted` -/\ndef cacheCapacity : CacheCap := {capl}")
    out.append("/-- the dunder methods installed by `numeric()`: (name, operator, operand order, installed by setattr) -/")
    out.append("def numericOps : List (String × String × String × Bool) := [" +
               ",\n  ".join(f"({lstr(a)}, {lstr(b)}, {lstr(c)}, {lbool(d)})" for a, b, c, d in misc["numeric_ops"]) + "]")
    sw = misc["swtpm"]
    out.append(f"def swtpmCmdMarker : String := {lstr(sw['CMD_MARKER'])}")
    out.append(f"def swtpmCtrlMarker : String := {lstr(sw['CTRL_MARKER'])}")
    out.append(f"def swtpmValidHex : String := {lstr(sw['VALID_HEX'])}")
    out.append(f"def swtpmValidWs : String := {lstr(sw['VALID_WS'])}")
    def blist(t):
        return "[" + ", ".join(str(ord(ch)) for ch in t) + "]"
    out.append(f"def swtpmConsts : SwtpmConsts := ⟨{blist(sw['CMD_MARKER'])}, {blist(sw['CTRL_MARKER'])}, {blist(sw['VALID_HEX'])}, {blist(sw['VALID_WS'])}⟩")
    out.append("def swtpmStates : List Nat := [" + ", ".join(str(s) for s in sw["states"]) + "]")
    out.append("def autoBytesConstants : List String := [" + ", ".join(lstr(s) for s in misc["auto_bytes_constants"]) + "]")
    for k, v in misc["skips"].items():
        out.append(f"def skips_{k} : List String := [" + ", ".join(lstr(s) for s in (v or ["<function missing>"])) + "]")
    rc = misc["rc"]
    out.append("def rcConsts : List (String × Nat) := [" + ", ".join(f"({lstr(k)}, {v})" for k, v in sorted(rc["consts"].items())) + "]")
    for nm, m in rc["maps"].items():
        out.append(f"def {nm} : List (Nat × String) := [" + ", ".join(f"({k}, {lstr(v)})" for k, v in m["entries"]) + "]")
        out.append(f"def {nm}_default : Option String := " + ("none" if m["default"] is None else f"some {lstr(m['default'])}"))
    out.append("def rcTables : RcTables :=\n  { consts := rcConsts,\n    fmt0Err := TPM_RC_FMT0_ERROR_MAP, fmt0ErrDefault := TPM_RC_FMT0_ERROR_MAP_default,\n"
               "    fmt1 := TPM_RC_FMT1_MAP, fmt1Default := TPM_RC_FMT1_MAP_default,\n"
               "    fmt0Warn := TPM_RC_FMT0_WARN_MAP, fmt0WarnDefault := TPM_RC_FMT0_WARN_MAP_default }")
    out.append(f"end {ns}")
    files["Misc.lean"] = "\n".join(out) + "\n"

    changed = []
    for fn, content in files.items():
        p = os.path.join(outdir, fn)
        old = open(p).read() if os.path.exists(p) else None
        if old != content:
            with open(p, "w") as f:
                f.write(content)
            changed.append(fn)
    return changed


def write_json(path, layout):
    s = json.dumps(layout, indent=1, sort_keys=True)
    os.makedirs(os.path.dirname(path), exist_ok=True)
    old = open(path).read() if os.path.exists(path) else None
    if old != s:
        with open(path, "w") as f:
            f.write(s)
        return True
    return False


def main():
    layout = extract()
    ch = write_json(os.path.join(VERIF, "generated", "layout.json"), layout)
    changed = emit_lean(layout, "Generated", os.path.join(VERIF, "lean", "TpmModel", "Generated"))
    if "--pin" in sys.argv:
        write_json(os.path.join(VERIF, "pinned", "layout.json"), layout)
        emit_lean(layout, "Pinned", os.path.join(VERIF, "lean", "TpmModel", "Pinned"))
    print(json.dumps({"json_changed": ch, "lean_changed": changed, "prims": len(layout["prim_order"]),
                      "types": len(layout["order"])}))


if __name__ == "__main__":
    main()
