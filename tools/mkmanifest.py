#!/usr/bin/env python3
"""Writes MANIFEST.json from the registry below (kept here so that the file stays valid and consistent)."""
import json
import os

VERIF = os.path.dirname(os.path.dirname(os.path.abspath(__file__)))
ALL = [f"C{i:02d}" for i in range(1, 21)]

NOTE = ("Trusted: Lean 4.33.0 kernel; axioms subset of {propext, Quot.sound, Classical.choice} (audited by #print axioms on every run; "
        "no sorry/admit/native_decide/bv_decide/user axioms); tools/translate.py (tables regenerated from /repo on every run); the hand-written "
        "Lean model of the algorithms is tied to /repo by the correspondence run (sampled); CPython semantics.")

CHECKS = {
    "C01": {
        "text": "Theorem decode_ok / C01.c01_walker / C01.c01_top: for EVERY layout expressible in the table datatype, every conforming value tree, "
                "every continuation and every stack of enclosing regions with room, the strict walker model returns exactly the value, the dictated "
                "events (with byte offsets) and consumes exactly the encoding (structural induction, unbounded). Tables are regenerated from /repo "
                "each run; the walker/pump model is tied to the code by differential runs; the monitor compares the implementation's decode of "
                "generated well-formed encodings of every type with the Lean spec over the PINNED layout.",
        "technique": "Lean 4 proof (mutual structural induction over layouts) + regenerated tables + model/implementation correspondence",
        "design_ref": "DESIGN.md §8 C01",
    },
    "C02": {
        "text": "C02.c02_strict / c02_slices: for EVERY layout, command code, flag and EVERY input that strict decoding accepts, the concatenation of the "
                "re-encoded events equals the input and each event is the input slice at its offset (declared width; structural events re-encode to nothing). "
                "Proved from a byte-accounting invariant of the whole walker (Trace.lean: runWalker_acct, mutual induction over layouts + message framing) and the "
                "two-way codec lemma. The warn-mode clause (only value warnings) is monitored with Binary.unmarshal on the real code and tied by correspondence.",
        "technique": "Lean 4 proof (accounting invariant by mutual structural induction, for all inputs) + differential run incl. Binary.unmarshal",
        "design_ref": "DESIGN.md §8 C02",
    },
    "C03": {
        "text": "The three detection points are theorems about the constraint machinery for ANY stack of regions: c03_anticipated (a size that cannot fit in the outermost "
                "violated enclosing region is reported when read, naming that region's path/limit/count, the size field, its value and the excess), c03_exceeded (a field "
                "that would cross a region's end is reported before it is consumed; only the rest of that region is taken), c03_subceeded / c03_exact_ok (end check), and "
                "decode_ok gives the positive direction (exact sizes are accepted, for every layout). 'Accepts only if exact' and the error details over whole nested "
                "messages are enforced by the monitor on every size field of generated messages (value-k/+k/0/max): accepted => every size field equals the bytes it "
                "governs; rejected => limit, counted bytes, violator, excess and the preceding events are re-derived from the events and checked; model tied by correspondence. "
                "The refinement of the counter machine to an offset-based region spec over whole messages is not proved yet.",
        "technique": "Lean 4 proofs (constraint-stack lemmas by induction over the region list) + size-fault enumeration monitor",
        "design_ref": "DESIGN.md §8 C03",
    },
    "C04": {
        "text": "Per field: c04_prim_reject / c04_prim_accept (a primitive inside regions with room raises the value error naming path/type/integer with no event "
                "exactly when the integer is outside the declared set, otherwise emits one event) and C16.c16_valid_iff (validity = membership in the declared set for "
                "every integer); decode_ok covers the all-valid direction for whole values. 'First offending field in wire order with the earlier events emitted' over whole "
                "messages is enforced by the monitor: every constrained leaf of generated messages of every type/command code is replaced by out-of-range values computed "
                "from the PINNED declarations, and the error path/type/value and the exact event prefix are checked on the real code; model tied by correspondence.",
        "technique": "Lean 4 proofs (per-field rule, declared-set characterisation, decode_ok) + fault enumeration monitor against pinned declarations",
        "design_ref": "DESIGN.md §8 C04",
    },
    "C05": {
        "text": "Theorems for every layout and EVERY input in strict mode: superfluous reports exactly the unconsumed suffix and it is non-empty (c05_superfluous_exact), "
                "an accepted input is consumed entirely by emitted fields (c05_done_exact), depletion is only reported with the input exhausted (take_depleted), the "
                "carried command code is the last commandCode event (c05_cc); for conforming values any appended suffix is left untouched (c05_surplus_walker, from "
                "decode_ok). The truncation clause (events of every complete field, then depleted) is monitored at every cut point against the whole-input decode and tied "
                "by correspondence; the empty input is included (defect fixed: 48b77c1). Decoding below a caller-supplied root path (root_path=) is modelled (marshalRunAt) and proved to be the default-root observation re-rooted for every layout, message, mode, root and input (Reroot.lean, c05_root_path), tied by the DECR correspondence.",
        "technique": "Lean 4 proofs (accounting invariant + pump case analysis) + truncation/suffix enumeration",
        "design_ref": "DESIGN.md §8 C05",
    },
    "C06": {
        "text": "The model is a total function (structural recursion, fuel-bounded loops): every run ends in one constructor of Outcome (c06_pump_total) and never pulls "
                "more than the input (c06_pulls_le). Every Python operation that can raise an internal error is an explicit crash outcome of the model; that none is "
                "reachable is MONITORED on the real code over arbitrary/mutated/wrong-type bytes for all types, command codes and flags, with the model corresponding on "
                "every input. One known finding (response flag assert) is reported as KNOWN-FINDING; the encrypted() asserts were repaired (7c6a5a6).",
        "technique": "Lean 4 (totality by construction, pull bound) + differential fuzzing with explicit crash outcomes in the model",
        "design_ref": "DESIGN.md §8 C06",
    },
    "C07": {
        "text": "c07_prim: per field both modes agree (same value/event/state when valid; strict raises without the event, warn emits the event then the warning carrying the "
                "same error); c07_pump_events_mode_free: the pump treats both modes alike. The whole-run simulation up to the first problem is monitored: both modes of the "
                "real code on the same well-formed, fault-enumerated and arbitrary inputs, relation checked exactly as stated (events, first warning == strict error incl. "
                "details, accept <=> no warning); the model corresponds in both modes.",
        "technique": "Lean 4 proofs (per-field simulation) + two-mode differential monitor",
        "design_ref": "DESIGN.md §8 C07",
    },
    "C08": {
        "text": "Theorems about the model, for every layout of /repo, commands, responses (any command code, either flag), streams and EVERY input: "
                "(1) no size error ever leaves a warn-mode decode (Warn.lean: WI for every walker; c08_no_escape_msg/_type) - whatever is raised is one of the two value errors after which the layout is unknowable; "
                "(2) no internal error either, but for the known response-encryption assertion (WarnNC.lean: the regions a successful step leaves are the ones it found, each charged exactly the bytes consumed - "
                "across reported overruns, shortfalls and bad values - so assert_done finds its region, the session loop's bound is never hit and the stream loop terminates; "
                "c08_warn_no_crash_type/_command, c08_warn_crash_msg, c08_warn_outcomes); (3) tiling: the input consumed is, in order, one segment per event shown - a field's bytes at its declared width, "
                "the skipped tail (exactly max-already) of an overrun region, the padding of a short one (AcctW, c08_tiling); (4) the recovery steps c08_skip_exceeded / c08_pad_subceeded; "
                "(5) value-only runs re-encode to the input (C02.c02_warn_value_only), the first problem is the first warning (C07), and in every run every field with a disallowed value is shown and directly followed by exactly its warning, value warnings standing nowhere else (ValueWarn.lean: Annot; c08_value_warning_follows_its_field, c08_offending_field_is_warned); (6) the value-only clause itself: whenever the lenient interpretation (strict decoding under the tables with every declared set widened to the field's width, TpmModel/Relax.lean) accepts an input, warn mode returns the same object and its trace minus the value warnings is the lenient trace, with no other warnings (Lenient.lean: a simulation for every walker; c08_lenient_object/_events/_only_value_warnings; tied to the code by the DECL correspondence). Side conditions on the tables are kernel-decided over the tables regenerated from /repo. "
                "The model is tied to the code by warn-mode correspondence (fault-enumerated, double-fault, nested, mutated and arbitrary inputs) and the same clauses are monitored on the implementation's own observations. "
                "Nine genuine defects were repaired (known_findings.jsonl); one remains a KNOWN-FINDING.",
        "technique": "Lean 4 proofs by mutual structural induction over all layouts and walkers (invariants WI, WC, AcctW, PI) + kernel-decided table side conditions + warn-mode correspondence + monitors",
        "design_ref": "DESIGN.md \u00a78 C08",
    },
    "C09": {
        "text": "c09_stream_step / c09_stream_end: one round of the stream loop is exactly 'command where the previous message ended, then response under that command's "
                "code and the encrypt flag of its sessions', boundaries taken from the messages themselves, clean end only at a boundary; decodeStream_acct: byte accounting "
                "of whole streams. Equality with per-message decodes (incl. first failing message) and 'one object per message, in order' are monitored over generated streams "
                "of 1..n pairs covering all command codes with sessions/encryption/failed responses, and tied by correspondence. Session 3: the pairing is also a theorem for ARBITRARY messages in either mode (C09.c09_stream_of_arbitrary_messages, from the shift equation of TpmProofs/Shift.lean: a command / response decodes the same wherever in the input it starts and whatever follows it): whenever every message's own decode completes and consumes exactly its bytes, the stream decode is the chain of those decodes. And hypothesis-free (C09.c09_every_stream): for EVERY input, either mode, whatever the outcome, the stream decode equals the iteration of the messages' own decodes from fresh states on the remaining input (same outcome, position, events).",
        "technique": "Lean 4 proofs (loop step/termination) + stream-vs-messages differential monitor",
        "design_ref": "DESIGN.md §8 C09",
    },
    "C10": {
        "text": "c10_lookahead: for EVERY layout and EVERY input (stronger than stated), whenever strict decoding shows an event the bytes pulled are at most one more than the "
                "bytes of the fields shown so far (from the Stamped part of the accounting invariant); c10_pulls_bounded; source independence holds by construction of the "
                "model (c10_source). Prefix stability / complete fields before depleted are monitored at every cut point; six kinds of byte source are compared on the real code; "
                "pull counts are observed with a counting iterator.",
        "technique": "Lean 4 proof (stamped-trace invariant) + prefix enumeration + source-kind differential run",
        "design_ref": "DESIGN.md §8 C10",
    },
    "C11": {
        "text": "C11.c11_obj_to_events (mutual structural induction, every layout meeting table-checked side conditions c11_tables, every conforming value): turning the "
                "object back into events gives exactly the dictated event list (paths, declared types, values, value classes, widths), absent parts being their single "
                "marker event; with decode_ok (c11_roundtrip) this is the decoded event list, and by C02 re-encoding gives the bytes. obj_to_events is modelled (o2e) and "
                "tied by correspondence on objects of every type and command code; events_to_obj is not modelled: 'decoder object == object rebuilt from events' and the "
                "Canonical facade are enforced by the monitor on the real code (one defect repaired).",
        "technique": "Lean 4 proof (mutual induction over layouts) + differential run on obj_to_events + object-equality monitor",
        "design_ref": "DESIGN.md §8 C11",
    },
    "C12": {
        "text": "The only cross-call state is the cache around TPMS_PARAMS.encrypted(); its capacity is read from the source on every run (c12_capacity: unbounded). "
                "C12.c12: for EVERY history of requests - any number of decodes, sequential or interleaved in any schedule - two requests for the same class return the same "
                "type identity (invariant: the cache is a growing partial map; c12_stable, get_step); c12_bounded_counterexample shows why a bound breaks it; the rest of a "
                "decode is a function in the model (c12_function). The monitor replays sequential and step-wise interleaved histories (seeded schedules over live generators) "
                "of encrypted-parameter messages of all eligible command codes on the real code and compares events/objects with ==.",
        "technique": "Lean 4 proof (invariant over all operation histories) + capacity translated from source + interleaving monitor",
        "design_ref": "DESIGN.md §8 C12",
    },
    "C13": {
        "text": "C13.c13: for every layout and EVERY input on which strict decoding raises a constraint error, input = bytes of the shown events ++ bytes consumed without an event "
                "++ remaining bytes, and remaining = exactly the walker's unconsumed suffix (also when it is empty). From the accounting invariant + pump definition. The stale "
                "look-ahead defect was repaired (be5e617). The monitor re-derives the consumed offending bytes from the error's own details for every rejection of the fault "
                "enumeration (incl. the final field).",
        "technique": "Lean 4 proof (accounting invariant for all inputs) + fault enumeration monitor",
        "design_ref": "DESIGN.md §8 C13",
    },
    "C14": {
        "text": "For EVERY event list on which the pretty printer succeeds, the hex column concatenated over all rows equals the re-encoded events (c14_hex: every byte once, "
                "in order), each row's indentation/type/name/value columns are those of its event (c14_row_columns); for every shaped stream (value events resolve to known "
                "classes, byte-buffer children carry values) the printer returns rows (c14_total), and the events printer has one row per event (c14_events_rows). The model of "
                "both printers (incl. list folding and bit rows) is tied by a both-mode differential run over streams of well-formed, fault-enumerated and arbitrary inputs; row "
                "bijection and warning order are monitored. Shaped-ness of decoder streams (c14_decoder_shown) and 'every byte buffer of every decoder stream is one row' "
                "(c14_decoder_buffers, from runWalker_endsOk: no list's run in any decoder stream, either mode, any input, is ended by a byte-buffer parent; static table "
                "condition decided by the kernel) are theorems since session 3. Two printer defects repaired.",
        "technique": "Lean 4 proofs (induction over the list-folding state machine) + column-wise differential run of both printers",
        "design_ref": "DESIGN.md §8 C14",
    },
    "C15": {
        "text": "Hex: whitespace is irrelevant (c15_hex_whitespace), a text decodes to bs IFF its whitespace-free content is hex pairs spelling bs, otherwise ValueError (c15_hex_iff), "
                "every rendering decodes to its bytes (c15_hex_render). swtpm: for the documented layout (free text without 'S', control and SWTPM_IO sections of upper-case hex lines) "
                "the 4-state scanner yields exactly the SWTPM_IO payloads (c15_swtpm_render, invariant proof over sections; constants regenerated). pcapng: runts skipped, payloads cut "
                "to their own size field (c15_pcap_*); auto: the two-byte magic rule (c15_auto). Scanners are compared exhaustively on all short strings over small alphabets; rendered "
                "streams are decoded through every container incl. real pcapng files written with dpkt. One defect repaired (signed pairs).",
        "technique": "Lean 4 proofs (scanner invariants, iff-characterisation) + exhaustive small-world correspondence + container round trips",
        "design_ref": "DESIGN.md §8 C15",
    },
    "C16": {
        "text": "Theorems: the byte form is the big-endian two's-complement encoding of the declared width and round-trips in both directions for every "
                "width/signedness/integer (C16.c16_roundtrip, c16_roundtrip_bytes, c16_width); Python's delegation of to_bytes to looked-up enum instances "
                "cannot change the width (c16_owners_tables over all 102 types + c16_toBytes_declared); validity = membership in the declared set for every "
                "integer (c16_valid_iff); declared values never overflow (c16_declared_fit_tables, c16_valid_fits); the operator table read from numeric()'s "
                "source is exactly the plain-integer operators in the stated operand order (c16_ops). The naming/validity model is tied to the code by an "
                "exhaustive (1-byte types; 2-byte in thorough) / boundary+random differential run and the implementation is compared with the model over the PINNED tables.",
        "technique": "Lean 4 proofs (codec arithmetic, kernel-decided table theorems) + differential run over all 102 primitive types",
        "design_ref": "DESIGN.md §8 C16",
    },
    "C17": {
        "text": "c17_partition_tables: for every TPMA_* type regenerated from /repo the field masks are pairwise disjoint and cover the word (kernel-decided); "
                "c17_accessor: for every value and non-empty mask the accessor loop returns (v & mask) >> ctz(mask); c17_overlay: for every partitioning mask "
                "list, word and bit position exactly one row shows the value's bit and all others a dot. Accessors, attributes() and the pretty printer's rows "
                "of the real code are compared with the model on all 8-bit values and structured 32-bit patterns.",
        "technique": "Lean 4 proofs (bit arithmetic by induction, kernel-decided mask tables) + differential run on accessors and printer rows",
        "design_ref": "DESIGN.md §8 C17",
    },
    "C18": {
        "text": "c18_format: for EVERY natural number that is zero or has a non-zero low 12 bits, the mask arithmetic of TPM_RC.__format__ (constants regenerated "
                "from tpm_rc.py, c18_masks) yields the classification the TPM 2.0 bit layout dictates (rcSpec on bit positions) - proved by reduction to the low "
                "12 bits (and/testBit/mod lemmas) and a kernel-decided table of all 4096 residues; c18_rows_class + c18_rows_partition: the rows follow the "
                "classification and partition the 32-bit word; name maps equal the pinned ones. Text and rows of the real code are compared exhaustively "
                "(all qualifying 12-bit values x 5 high-bit patterns) with the spec and the model.",
        "technique": "Lean 4 proof (bit-level case reduction + kernel-decided finite table) + exhaustive differential run",
        "design_ref": "DESIGN.md §8 C18",
    },
    "C19": {
        "text": "Decision logic as theorems: an unknown type, an unknown command name or --type Response without --command is refused (c19_refuse, c19_refuse_response), the default "
                "is the stream (c19_default), `type` lists a structure type IFF strict decoding of the bytes under it completes (c19_type) and then every byte was consumed by emitted "
                "fields (c19_type_exact, from C02). The glue (argparse, files, print, difflib, colorama) is NOT modelled: the check runs the real command line as a subprocess over input "
                "formats x output formats x type/command choices (well-formed and corrupted files) and compares stdout (colour stripped), status and stderr class with the library "
                "in-process, --out binary with the decoded bytes, `type` with strict library decodes under every type/command code and the Lean listing, `example X` with the stated rule.",
        "technique": "Lean 4 proofs of the dispatch/listing logic + subprocess-vs-library differential run (glue tied by correspondence only)",
        "design_ref": "DESIGN.md §8 C19",
    },
    "C20": {
        "text": "Every clause is a theorem over the whole regenerated table, decided by the kernel (decide +kernel / rfl, no axioms beyond the standard "
                "three): one map entry per command code named after it, handle areas <= 3 four-byte primitives, counted lists follow unsigned counts, "
                "every valid selector value selects a union member, list members have fixed lengths, and Generated.tables = Pinned.tables. "
                "A table edit breaks a named theorem; the check then exhibits the table entry and a pinned-well-formed encoding that decodes differently.",
        "technique": "Lean 4 kernel-decided theorems over tables regenerated from /repo by a translator; pinned-layout equality by rfl",
        "design_ref": "DESIGN.md §8 C20",
    },
}

PENDING = "check not built yet in this round (planned: DESIGN.md §8); no claim is made until its Lean theorems and correspondence run exist"


def main():
    checks = []
    for pid in ALL:
        if pid not in CHECKS:
            continue
        c = CHECKS[pid]
        checks.append({
            "property_id": pid,
            "quick_cmd": f"./check {pid} --tier quick",
            "thorough_cmd": f"./check {pid} --tier thorough",
            "evidence_file": f"evidence/{pid}.json",
            "replay_cmd_template": f"./check {pid} --replay {{path}}",
            "engine": "lean",
            "level_claimed": {"category": "proof", "text": c["text"], "design_ref": c["design_ref"]},
            "level_note": NOTE + (" " + c["note"] if "note" in c else ""),
            "technique": c["technique"],
        })
    m = {
        "version": 1,
        "setup_cmd": "cd lean && lake build",
        "hooks": {
            "guard": "TPMSTREAM_VERIF",
            "enable": "none needed: the checks observe the unmodified code in-process (counting iterator as buffer, event snapshots at yield time)",
            "baseline_off_cmd": "cd /repo && /venv/bin/python -m pytest -ra -q -p no:cacheprovider --timeout=900 --continue-on-collection-errors",
            "source_commits": [],
            "add_only": True,
        },
        "engines": [{
            "name": "lean",
            "path": "lean/",
            "serves_properties": [c["property_id"] for c in checks],
            "kind_free_text": "Lean 4 model (TpmModel) + proofs (TpmProofs) + translator (tools/translate.py) + correspondence harness (tools/harness) + driver (lean_exe tpmdriver)",
        }],
        "checks": checks,
        "not_applicable": [{"property_id": p, "reason": PENDING} for p in ALL if p not in CHECKS],
        "notes": "All checks: cwd=/verif, `./check <id> --tier quick|thorough`, seed from VERIF_SEED. Repairs of genuine defects found are listed in known_findings.jsonl (fixed: entries) and DESIGN.md §10.",
    }
    with open(os.path.join(VERIF, "MANIFEST.json"), "w") as f:
        json.dump(m, f, indent=1)
    print(len(checks), "checks")


if __name__ == "__main__":
    main()
