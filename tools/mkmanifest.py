#!/usr/bin/env python3
"""Writes MANIFEST.json from the registry below (kept here so that the file stays valid and consistent)."""
import json
import os

VERIF = os.path.dirname(os.path.dirname(os.path.abspath(__file__)))
ALL = [f"C{i:02d}" for i in range(1, 21)]

NOTE = ("Trusted: Lean 4.33.0 kernel; axioms subset of {propext, Quot.sound, Classical.choice} (audited by #print axioms on every run; "
        "no sorry/admit/native_decide/bv_decide/user axioms); tools/translate.py (tables regenerated from /repo on every run); the hand-written "
        "Lean model of the algorithms is tied to /repo by the correspondence run (sampled); CPython semantics.")

CHECKS = {
    "C01": {
        "text": "Theorem decode_ok / C01.c01_walker / C01.c01_top: for EVERY layout expressible in the table datatype, every conforming value tree, "
                "every continuation and every stack of enclosing regions with room, the strict walker model returns exactly the value, the dictated "
                "events (with byte offsets) and consumes exactly the encoding (structural induction, unbounded). Tables are regenerated from /repo "
                "each run; the walker/pump model is tied to the code by differential runs; the monitor compares the implementation's decode of "
                "generated well-formed encodings of every type with the Lean spec over the PINNED layout.",
        "technique": "Lean 4 proof (mutual structural induction over layouts) + regenerated tables + model/implementation correspondence",
        "design_ref": "DESIGN.md §8 C01",
    },
    "C20": {
        "text": "Every clause is a theorem over the whole regenerated table, decided by the kernel (decide +kernel / rfl, no axioms beyond the standard "
                "three): one map entry per command code named after it, handle areas <= 3 four-byte primitives, counted lists follow unsigned counts, "
                "every valid selector value selects a union member, list members have fixed lengths, and Generated.tables = Pinned.tables. "
                "A table edit breaks a named theorem; the check then exhibits the table entry and a pinned-well-formed encoding that decodes differently.",
        "technique": "Lean 4 kernel-decided theorems over tables regenerated from /repo by a translator; pinned-layout equality by rfl",
        "design_ref": "DESIGN.md §8 C20",
    },
}

PENDING = "check not built yet in this round (planned: DESIGN.md §8); no claim is made until its Lean theorems and correspondence run exist"


def main():
    checks = []
    for pid in ALL:
        if pid not in CHECKS:
            continue
        c = CHECKS[pid]
        checks.append({
            "property_id": pid,
            "quick_cmd": f"./check {pid} --tier quick",
            "thorough_cmd": f"./check {pid} --tier thorough",
            "evidence_file": f"evidence/{pid}.json",
            "replay_cmd_template": f"./check {pid} --replay {{path}}",
            "engine": "lean",
            "level_claimed": {"category": "proof", "text": c["text"], "design_ref": c["design_ref"]},
            "level_note": NOTE + (" " + c["note"] if "note" in c else ""),
            "technique": c["technique"],
        })
    m = {
        "version": 1,
        "setup_cmd": "cd lean && lake build",
        "hooks": {
            "guard": "TPMSTREAM_VERIF",
            "enable": "none needed: the checks observe the unmodified code in-process (counting iterator as buffer, event snapshots at yield time)",
            "baseline_off_cmd": "cd /repo && /venv/bin/python -m pytest -ra -q -p no:cacheprovider --timeout=900 --continue-on-collection-errors",
            "source_commits": [],
            "add_only": True,
        },
        "engines": [{
            "name": "lean",
            "path": "lean/",
            "serves_properties": [c["property_id"] for c in checks],
            "kind_free_text": "Lean 4 model (TpmModel) + proofs (TpmProofs) + translator (tools/translate.py) + correspondence harness (tools/harness) + driver (lean_exe tpmdriver)",
        }],
        "checks": checks,
        "not_applicable": [{"property_id": p, "reason": PENDING} for p in ALL if p not in CHECKS],
        "notes": "All checks: cwd=/verif, `./check <id> --tier quick|thorough`, seed from VERIF_SEED. Repairs of genuine defects found are listed in known_findings.jsonl (fixed: entries) and DESIGN.md §10.",
    }
    with open(os.path.join(VERIF, "MANIFEST.json"), "w") as f:
        json.dump(m, f, indent=1)
    print(len(checks), "checks")


if __name__ == "__main__":
    main()
