#!/usr/bin/env python3
"""Writes MANIFEST.json from the registry below (kept here so that the file stays valid and consistent)."""
import json
import os

VERIF = os.path.dirname(os.path.dirname(os.path.abspath(__file__)))
ALL = [f"C{i:02d}" for i in range(1, 21)]

NOTE = ("Trusted: Lean 4.33.0 kernel; axioms subset of {propext, Quot.sound, Classical.choice} (audited by #print axioms on every run; "
        "no sorry/admit/native_decide/bv_decide/user axioms); tools/translate.py (tables regenerated from /repo on every run); the hand-written "
        "Lean model of the algorithms is tied to /repo by the correspondence run (sampled); CPython semantics.")

CHECKS = {
    "C01": {
        "text": "Theorem decode_ok / C01.c01_walker / C01.c01_top: for EVERY layout expressible in the table datatype, every conforming value tree, "
                "every continuation and every stack of enclosing regions with room, the strict walker model returns exactly the value, the dictated "
                "events (with byte offsets) and consumes exactly the encoding (structural induction, unbounded). Tables are regenerated from /repo "
                "each run; the walker/pump model is tied to the code by differential runs; the monitor compares the implementation's decode of "
                "generated well-formed encodings of every type with the Lean spec over the PINNED layout.",
        "technique": "Lean 4 proof (mutual structural induction over layouts) + regenerated tables + model/implementation correspondence",
        "design_ref": "DESIGN.md §8 C01",
    },
    "C16": {
        "text": "Theorems: the byte form is the big-endian two's-complement encoding of the declared width and round-trips in both directions for every "
                "width/signedness/integer (C16.c16_roundtrip, c16_roundtrip_bytes, c16_width); Python's delegation of to_bytes to looked-up enum instances "
                "cannot change the width (c16_owners_tables over all 102 types + c16_toBytes_declared); validity = membership in the declared set for every "
                "integer (c16_valid_iff); declared values never overflow (c16_declared_fit_tables, c16_valid_fits); the operator table read from numeric()'s "
                "source is exactly the plain-integer operators in the stated operand order (c16_ops). The naming/validity model is tied to the code by an "
                "exhaustive (1-byte types; 2-byte in thorough) / boundary+random differential run and the implementation is compared with the model over the PINNED tables.",
        "technique": "Lean 4 proofs (codec arithmetic, kernel-decided table theorems) + differential run over all 102 primitive types",
        "design_ref": "DESIGN.md §8 C16",
    },
    "C17": {
        "text": "c17_partition_tables: for every TPMA_* type regenerated from /repo the field masks are pairwise disjoint and cover the word (kernel-decided); "
                "c17_accessor: for every value and non-empty mask the accessor loop returns (v & mask) >> ctz(mask); c17_overlay: for every partitioning mask "
                "list, word and bit position exactly one row shows the value's bit and all others a dot. Accessors, attributes() and the pretty printer's rows "
                "of the real code are compared with the model on all 8-bit values and structured 32-bit patterns.",
        "technique": "Lean 4 proofs (bit arithmetic by induction, kernel-decided mask tables) + differential run on accessors and printer rows",
        "design_ref": "DESIGN.md §8 C17",
    },
    "C18": {
        "text": "c18_format: for EVERY natural number that is zero or has a non-zero low 12 bits, the mask arithmetic of TPM_RC.__format__ (constants regenerated "
                "from tpm_rc.py, c18_masks) yields the classification the TPM 2.0 bit layout dictates (rcSpec on bit positions) - proved by reduction to the low "
                "12 bits (and/testBit/mod lemmas) and a kernel-decided table of all 4096 residues; c18_rows_class + c18_rows_partition: the rows follow the "
                "classification and partition the 32-bit word; name maps equal the pinned ones. Text and rows of the real code are compared exhaustively "
                "(all qualifying 12-bit values x 5 high-bit patterns) with the spec and the model.",
        "technique": "Lean 4 proof (bit-level case reduction + kernel-decided finite table) + exhaustive differential run",
        "design_ref": "DESIGN.md §8 C18",
    },
    "C20": {
        "text": "Every clause is a theorem over the whole regenerated table, decided by the kernel (decide +kernel / rfl, no axioms beyond the standard "
                "three): one map entry per command code named after it, handle areas <= 3 four-byte primitives, counted lists follow unsigned counts, "
                "every valid selector value selects a union member, list members have fixed lengths, and Generated.tables = Pinned.tables. "
                "A table edit breaks a named theorem; the check then exhibits the table entry and a pinned-well-formed encoding that decodes differently.",
        "technique": "Lean 4 kernel-decided theorems over tables regenerated from /repo by a translator; pinned-layout equality by rfl",
        "design_ref": "DESIGN.md §8 C20",
    },
}

PENDING = "check not built yet in this round (planned: DESIGN.md §8); no claim is made until its Lean theorems and correspondence run exist"


def main():
    checks = []
    for pid in ALL:
        if pid not in CHECKS:
            continue
        c = CHECKS[pid]
        checks.append({
            "property_id": pid,
            "quick_cmd": f"./check {pid} --tier quick",
            "thorough_cmd": f"./check {pid} --tier thorough",
            "evidence_file": f"evidence/{pid}.json",
            "replay_cmd_template": f"./check {pid} --replay {{path}}",
            "engine": "lean",
            "level_claimed": {"category": "proof", "text": c["text"], "design_ref": c["design_ref"]},
            "level_note": NOTE + (" " + c["note"] if "note" in c else ""),
            "technique": c["technique"],
        })
    m = {
        "version": 1,
        "setup_cmd": "cd lean && lake build",
        "hooks": {
            "guard": "TPMSTREAM_VERIF",
            "enable": "none needed: the checks observe the unmodified code in-process (counting iterator as buffer, event snapshots at yield time)",
            "baseline_off_cmd": "cd /repo && /venv/bin/python -m pytest -ra -q -p no:cacheprovider --timeout=900 --continue-on-collection-errors",
            "source_commits": [],
            "add_only": True,
        },
        "engines": [{
            "name": "lean",
            "path": "lean/",
            "serves_properties": [c["property_id"] for c in checks],
            "kind_free_text": "Lean 4 model (TpmModel) + proofs (TpmProofs) + translator (tools/translate.py) + correspondence harness (tools/harness) + driver (lean_exe tpmdriver)",
        }],
        "checks": checks,
        "not_applicable": [{"property_id": p, "reason": PENDING} for p in ALL if p not in CHECKS],
        "notes": "All checks: cwd=/verif, `./check <id> --tier quick|thorough`, seed from VERIF_SEED. Repairs of genuine defects found are listed in known_findings.jsonl (fixed: entries) and DESIGN.md §10.",
    }
    with open(os.path.join(VERIF, "MANIFEST.json"), "w") as f:
        json.dump(m, f, indent=1)
    print(len(checks), "checks")


if __name__ == "__main__":
    main()
