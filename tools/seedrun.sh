#!/bin/bash
# tools/seedrun.sh <Cnn> [other checks ...]: apply the kept seeded change seeded/<Cnn>/patch.diff to /repo, run our checks
# (quick tier, or TIER=thorough), undo it straight afterwards.  Never commits anything to /repo.
P=$1; shift
OUT=/verif/seeded/$P
TIER=${TIER:-quick}
cd /repo && git status --short | grep -q . && { echo "/repo not clean"; exit 2; }
git -C /repo apply $OUT/patch.diff || { echo "patch does not apply to /repo"; exit 2; }
trap 'git -C /repo checkout -- .; cd /verif && /venv/bin/python tools/translate.py > /dev/null' EXIT
CHK=${P%[bcdefghijklm]}; [ $# -gt 0 ] && CHK=""
for c in $CHK "$@"; do
  o=$(cd /verif && ./check $c --tier $TIER 2>&1); rc=$?
  nv=$(echo "$o" | grep -c '^VIOLATION')
  first=$(echo "$o" | grep '^VIOLATION' | head -1)
  echo "seed $P check $c tier=$TIER rc=$rc violations=$nv $first"
  rp=$(echo "$first" | sed -n 's/.*replay=\([^ ]*\).*/\1/p')
  [ -n "$rp" ] && [ -f /verif/$rp ] && python3 -c "
import json;d=json.load(open('/verif/$rp'));print('   ',d.get('what','')[:300]);print('   all:',d.get('all'))" 2>/dev/null
done
