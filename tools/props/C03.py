"""C03 — strict mode accepts an input only if every size field is exact."""
import collections
import random

import core
import decsuite as ds
import msggen

THEOREMS = ["C03.c03_decided_by_consumed_prefix", "C03.c03_anticipated", "C03.c03_exceeded", "C03.c03_subceeded", "C03.c03_exact_ok", "C08.c08_skip_exceeded",
            "decode_ok", "runWalker_acct",
            "C03.c03_tables", "decode_sound", "C03.c03_accept_only_if", "C03.c03_accept_iff", "decodeCommand_sound", "decodeResponse_sound",
            "AcceptIff.tables_wf", "AcceptIff.type_accept_iff", "AcceptIff.command_accept_iff", "AcceptIff.response_accept_iff"]


def governed(lines, L, total_len):
    """for every size field of a decode: (path, declared value, byte length of the region it governs)"""
    prims = []
    off = 0
    for l in lines:
        p = l.split(" ")
        if p[0] == "M" and p[4] != "...":
            w = L["prims"][p[3]]["size"]
            prims.append((p[2], w))
    out = []
    for off, w, val, path in msggen.size_field_positions(lines, L):
        last = path.rsplit(".", 1)[-1]
        if path.count(".") == 1 and last in ("commandSize", "responseSize"):
            g = total_len
        elif path.count(".") == 1 and last == "authSize":
            g = sum(w2 for p2, w2 in prims if p2.startswith(".authorizationArea"))
        elif path.count(".") == 1 and last == "parameterSize":
            g = sum(w2 for p2, w2 in prims if p2.startswith(".parameters"))
        else:
            parent = path.rsplit(".", 1)[0]
            g = sum(w2 for p2, w2 in prims if p2 != path and (p2.startswith(parent + ".") or p2.startswith(parent + "[")))
        out.append((path, val, g))
    return out


def run(ctx, replay_case):
    rnd = random.Random(ctx.seed)
    L, M, wf = ds.wellformed(rnd, ctx.tier, per_type=1 if ctx.tier == "quick" else 4, per_cc=2 if ctx.tier == "quick" else 6,
                             streams=False)
    full = core.run_impl([c.op("S") for c in wf])
    faults = []
    nfields = 0
    for c, b in zip(wf, full):
        if not ds.usable(ctx, c, b, L, ctx.stats.setdefault("inputs", {})):
            continue
        fs = ds.size_faults(c, b, L, rnd, ctx.tier) + ds.pad_faults(c, b, L, rnd, ctx.tier)
        for f in fs:
            f.meta["full"] = b
        faults += fs
        nfields += len(msggen.size_field_positions(b, L))
        # exactness of the accepted well-formed input itself
        for path, val, g in governed(b, L, len(c.data)):
            if val != g:
                ctx.violations.append({"kind": "concrete", "signature": "accepted-inexact",
                                       "what": f"strict mode accepted an input whose size field {path}={val} governs {g} bytes",
                                       "replay": c.replay("S")})
    if ctx.tier == "quick" and len(faults) > 14000:
        faults = rnd.sample(faults, 14000)
    res = ds.run_both(faults, "S")
    impl, model = res["S"]
    ds.correspondence_violation(ctx, "DEC strict (size faults)", faults, "S", impl, model)
    stats = collections.Counter()
    for c, b in zip(faults, impl):
        o = ds.outcome(b)
        stats[o] += 1
        problem = None
        evs = ds.events_of(b)
        if o == "done":
            if not ds.widths_ok(b, L):
                continue
            for path, val, g in governed(b, L, len(c.data)):
                if val != g:
                    problem = f"accepted although size field {path}={val} governs {g} bytes"
        elif o.startswith("raised:") and "Size" in o:
            r = b[-1]
            kv = dict(t.split("=", 1) for t in r.split(" ")[3:] if "=" in t)
            seen = {l.split(" ")[2]: int(l.split(" ")[4]) for l in evs if l.split(" ")[4] not in ("...",)}
            cp = kv["cpath"]
            if cp not in seen:
                problem = f"error names size field {cp} which has not been decoded"
            elif seen[cp] != int(kv["max"]):
                problem = f"error reports limit {kv['max']} but {cp} was decoded as {seen[cp]}"
            else:
                # bytes counted so far = bytes of the fields emitted since the region started
                offs = ds.event_offsets(evs, L) if ds.widths_ok(b, L) else None
                if offs is not None:
                    idx = max(i for i, l in enumerate(evs) if l.split(" ")[2] == cp)
                    last = cp.rsplit(".", 1)[-1]
                    start = 0 if (cp.count(".") == 1 and last in ("commandSize", "responseSize")) else offs[idx]
                    counted = offs[-1] - start
                    if counted != int(kv["already"]):
                        problem = f"error says {kv['already']} bytes were counted in {cp}, the emitted fields since its start hold {counted}"
                    elif o.endswith("AnticipatedSizeConstraintExceededError"):
                        lastp = [l for l in evs if l.split(" ")[4] != "..."][-1].split(" ")
                        if kv["violator"] != lastp[2] or int(kv["value"]) != int(lastp[4]) or int(kv["already"]) + int(kv["value"]) <= int(kv["max"]) \
                                or int(kv["by"]) != int(kv["already"]) + int(kv["value"]) - int(kv["max"]):
                            problem = "anticipated error is not about the size field just read / its excess"
                    elif o.endswith("SizeConstraintSubceededError"):
                        if not int(kv["already"]) < int(kv["max"]):
                            problem = "subceeded reported although the region is not short"
                    else:
                        if int(kv["by"]) <= 0 or any(l.split(" ")[2] == kv["violator"] for l in evs):
                            problem = "exceeded error: the violator was already emitted or the excess is not positive"
                        else:
                            # earliest point: no TPM2B size field read inside the violated region had already promised more than the
                            # region allows - that is reported (anticipated) when the size is read, not bytes later (seed C03i: the
                            # encrypted first parameter was walked as a plain structure, without opening its region)
                            tps = {l.split(" ")[2]: l.split(" ")[3] for l in evs if l.split(" ")[4] == "..."}
                            for i in range(idx + 1, len(evs)):
                                pe = evs[i].split(" ")
                                par = pe[2].rsplit(".", 1)[0]
                                if pe[4] != "..." and pe[2].endswith(".size") and tps.get(par, "").startswith("TPM2B"):
                                    if offs[i] - start + int(pe[4]) > int(kv["max"]):
                                        problem = (f"exceeded error although the overrun was decidable when {pe[2]}={pe[4]} was read "
                                                   f"({offs[i] - start} bytes counted in {cp}, limit {kv['max']}): not reported at the earliest point")
                                        break
            # events before the error are a prefix of the lenient reading (the well-formed decode with the one size changed)
            if problem is None and c.kind != "pad_fault":      # (a pad fault changes several size fields: no single-field reading to compare with)
                base = [ds.strip_pulls(l) for l in ds.events_of(c.meta["full"])]
                got = [ds.strip_pulls(l) for l in evs]
                for i, (x, y) in enumerate(zip(got, base)):
                    if x != y:
                        px, py = x.split(" "), y.split(" ")
                        if not (px[1] == py[1] == c.meta["field"] and px[2] == py[2] and int(px[3]) == c.meta["now"]):
                            # after the faulted size field the structure may legitimately be read differently only if the
                            # changed size is a count-like selector; for size fields the fields before detection are unchanged
                            problem = f"event {i} before the error differs from the field-by-field reading: {x} vs {y}"
                        break
        if problem:
            stats["violation"] += 1
            ctx.violations.append({"kind": "concrete", "signature": "size:" + problem.split(" ")[0],
                                   "what": f"size fault {c.meta['field']} {c.meta['was']}->{c.meta['now']}: {problem}",
                                   "replay": {**c.replay("S"), "result": b[-1][:240]}})
    # exhaustive small world (the quantifier's "all byte strings up to a length bound over a small alphabet for nested types"):
    # model == implementation on every one of them, and whatever is accepted is exact
    sw = ds.small_world(ctx.tier)
    swres = ds.run_both(sw, "S")
    swimpl, swmodel = swres["S"]
    ds.correspondence_violation(ctx, "DEC strict (small world)", sw, "S", swimpl, swmodel)
    sw_out = collections.Counter()
    for c, b in zip(sw, swimpl):
        sw_out[ds.outcome(b)] += 1
        if b[-1].startswith("R done"):
            for path, val, g in governed(b, L, len(c.data)):
                if val != g:
                    ctx.violations.append({"kind": "concrete", "signature": "accepted-inexact",
                                           "what": f"strict mode accepted an input whose size field {path}={val} governs {g} bytes",
                                           "replay": c.replay("S")})
    ctx.stats.setdefault("small_world", {}).update({"strings": len(sw), "outcomes": dict(sw_out)})
    ctx.stats.update({
        "evaluations": len(faults) + len(wf), "distinct_nontrivial": len({(c.tname, c.cc, c.data) for c in faults}),
        "rule": "every size field (commandSize, responseSize, authSize, parameterSize, every TPM2B size at every nesting depth) of "
                "well-formed structures/commands/responses of every type and command code set to value-k/+k/0/max; accepted => every "
                "size field equals the bytes it governs (re-derived from the events); rejected with a size error => the error names a decoded "
                "size field, its decoded value as limit, the bytes of the fields emitted since the region start as counted bytes, the size "
                "field just read (anticipated) / an un-emitted field (exceeded) / a short region (subceeded), and the preceding events are "
                "the field-by-field reading",
        "samples": [{**c.replay("S"), "field": c.meta["field"], "now": c.meta["now"]} for c in faults[:: max(1, len(faults) // 5)]][:5],
        "correspondence": {"ops": len(faults)},
        "distribution": {"kinds": ds.kinds_distribution(faults), "size_fields_in_wellformed_inputs": nfields, "outcomes": dict(stats)},
    })


PROP = {"targets": ["TpmProofs.Props.AcceptIff", "TpmProofs.Props.C03D"], "module": ["TpmProofs.Props.AcceptIff", "TpmProofs.Props.C03D"],
        "checker_modules": ["TpmProofs.Props.AcceptIff", "TpmProofs.Props.C03D"], "theorems": THEOREMS, "run": run,
        "assumptions": ["'earliest decidable point': that the verdict (and every detail of the error) is decided by the consumed prefix alone is a theorem "
                        "(c03_decided_by_consumed_prefix); that no shorter prefix decides it is covered by the per-step theorems + the monitor's consistency "
                        "checks + correspondence with the model, not by a theorem"]}
