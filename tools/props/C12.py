"""C12 — decoding is a pure function of its arguments."""
import collections
import json
import os
import random

import canon
import core
import gen
import msggen

THEOREMS = ["C12.c12_capacity", "C12.c12", "C12.c12_stable", "C12.get_step", "C12.c12_bounded_counterexample", "C12.c12_function"]


def decode_events(case):
    from tpmstream.io.binary import Binary
    from tpmstream.spec.structures.constants import TPM_CC
    t, cc, enc, data = case[:4]
    kw = dict(tpm_type=canon.resolve_type(t), buffer=bytes(data), abort_on_error=(len(case) < 5 or case[4] != "W"))
    if cc is not None:
        kw["command_code"] = TPM_CC(cc)
    if enc:
        kw["parameter_encryption"] = True
    return Binary.marshal(**kw)


def drain(gen_):
    evs = []
    try:
        while True:
            evs.append(next(gen_))
    except StopIteration as stop:
        return evs, stop.value
    except Exception as e:  # noqa: a decode that raises is still a function of its arguments: same error every time
        return evs, ("raised", type(e).__name__, str(e))


def history_failure(history, schedule_rnd=None, only=None):
    """run the decodes of `history` (list of cases; equal cases = same arguments) sequentially, or step-wise interleaved
    under a seeded schedule; returns a description if two decodes of equal arguments give unequal events/objects"""
    from tpmstream.common.object import events_to_obj
    results = [None] * len(history)
    if schedule_rnd is None:
        for i, c in enumerate(history):
            results[i] = drain(decode_events(c))
    else:
        live = [(i, decode_events(c), []) for i, c in enumerate(history)]
        while live:
            k = schedule_rnd.randrange(len(live))
            i, g, evs = live[k]
            try:
                evs.append(next(g))
            except StopIteration as stop:
                results[i] = (evs, stop.value)
                live.pop(k)
            except Exception as e:  # noqa
                results[i] = (evs, ("raised", type(e).__name__, str(e)))
                live.pop(k)
    for i in range(len(history)):
        for j in range(i + 1, len(history)):
            if only is not None and (i, j) != only:
                continue
            if history[i] == history[j]:
                (e1, o1), (e2, o2) = results[i], results[j]
                if e1 != e2:
                    k = next((k for k, (a, b) in enumerate(zip(e1, e2)) if a != b), min(len(e1), len(e2)))
                    return f"decodes #{i} and #{j} of the same input give unequal events (first at {k}: {canon.event_line(e1[k], 0) if k < len(e1) else 'end'})"
                if o1 != o2:
                    return f"decodes #{i} and #{j} of the same input return objects that do not compare equal"
                # events -> object conversion comparable with the decoder's object types
                cc = history[i][1]
                try:
                    from tpmstream.spec.structures.constants import TPM_CC
                    eo = events_to_obj(e1, command_code=TPM_CC(cc) if cc is not None else None)
                    if type(getattr(eo, "parameters", None)) is not type(getattr(o2, "parameters", None)) and getattr(o2, "parameters", None) is not None:
                        return f"the parameter area type rebuilt from the events of decode #{i} is not the type decode #{j} used"
                except Exception as e:  # noqa
                    pass
    return None


def run(ctx, replay_case):
    rnd = random.Random(ctx.seed)
    L = gen.load_layout("pinned")
    M = msggen.MsgGen(L, rnd)
    # pool: commands/responses with encrypted parameter areas of different command codes, plus plain ones
    encc = [cc for cc in M.ccs if M.can_encrypt(cc, False)]
    encr = [cc for cc in M.ccs if M.can_encrypt(cc, True)]
    pool_enc, pool_plain = [], []
    for cc in encc:
        c = M.command(cc, nsess=1, decrypt=True)
        if c:
            pool_enc.append(("Command", None, False, c[1]))
    for cc in encr:
        r = M.response(cc, nsess=1, encrypt=True)
        if r:
            pool_enc.append(("Response", cc, True, r[1]))
    for cc in rnd.sample(M.ccs, 30):
        c = M.command(cc, nsess=rnd.choice([0, 1]))
        if c:
            pool_plain.append(("Command", None, False, c[1]))
    # every command / response of every command code under an encrypting session: each asks the cache for its own class
    # (also the ones whose layout stays as it is), so together they walk through any bounded cache
    pool_all = []
    for cc in M.ccs:
        c = M.command(cc, nsess=1, decrypt=True)
        if c:
            pool_all.append(("Command", None, False, c[1]))
        r = M.response(cc, nsess=1, encrypt=True)
        if r:
            pool_all.append(("Response", cc, True, r[1]))
    # structures (stand-alone decodes share no constraint list with anything) and inputs whose decode fails or is abandoned
    pool_struct = []
    for key in rnd.sample([x for x in L["structures"] if L["types"][x]["kind"] != "union"], 40):
        r = M.G.gen(key)
        if r and r[1]:
            pool_struct.append((key, None, False, r[1]))
    pool_bad = []
    for p in rnd.sample(pool_enc + pool_plain + pool_struct, 40):
        d = p[3]
        k = rnd.randrange(len(d))
        pool_bad.append((p[0], p[1], p[2], d[:k]))                                  # truncated, strict
        pool_bad.append((p[0], p[1], p[2], d[:k], "W"))                             # truncated, warn mode
        b = bytearray(d)
        b[k] ^= 1 << rnd.randrange(8)
        pool_bad.append((p[0], p[1], p[2], bytes(b)))                               # corrupted, strict
        pool_bad.append((p[0], p[1], p[2], bytes(b), "W"))                          # corrupted, warn mode
    nh = 300 if ctx.tier == "quick" else 3000
    # static tie for "decoding depends on no state but the cache around encrypted()": the places where the package can keep state
    # between two decodes (mutable default arguments, memoising decorators, globals, writes to containers that are not local to a
    # call) are listed from the source on every run and compared with the pinned inventory.  A difference is not a violation; it
    # says the assumption no longer stands, is reported as such if no history exhibits it, and makes the search below larger.
    import stateinv
    inv_now = stateinv.inventory(os.path.join(canon.REPO, "src", "tpmstream"))
    inv_pin = json.load(open(os.path.join(os.path.dirname(os.path.dirname(os.path.dirname(os.path.abspath(__file__)))), "pinned", "state_inventory.json")))
    inv_new = [e for e in inv_now if e not in inv_pin]
    inv_gone = [e for e in inv_pin if e not in inv_now]
    boost = 4 if (inv_new or inv_gone) else 1
    nh *= boost
    if inv_new or inv_gone:
        ctx.violations.append({"kind": "correspondence",
                               "what": "the static inventory of cross-call state of /repo differs from the pinned one (new: "
                                       + "; ".join(inv_new)[:300] + (" / gone: " + "; ".join(inv_gone)[:200] if inv_gone else "") + ")",
                               "replay": {"correspondence": "state inventory (tools/harness/stateinv.py vs pinned/state_inventory.json)",
                                          "new": inv_new, "gone": inv_gone}})
    failures = 0
    shapes = collections.Counter()
    samples = []
    for h in range(2 if ctx.tier == "quick" else 12):
        a = rnd.choice(pool_enc)
        others = [p for p in pool_all if p != a]
        rnd.shuffle(others)
        hist = [a] + others + [a]
        shapes["A,<every other class>,A"] += 1
        bad = history_failure(hist, None, only=(0, len(hist) - 1))
        if bad:
            failures += 1
            # shrink: shortest prefix of `others` that still separates the two decodes of A
            lo, hi = 0, len(others)
            while lo < hi:
                mid = (lo + hi) // 2
                if history_failure([a] + others[:mid] + [a], None, only=(0, mid + 1)):
                    hi = mid
                else:
                    lo = mid + 1
            hist = [a] + others[:lo] + [a]
            ctx.violations.append({"kind": "concrete", "signature": "history:eviction",
                                   "what": f"history A, {lo} decodes of other messages with encrypted parameter areas, A: {bad}",
                                   "replay": {"history": [(p[0], p[1], p[2], p[3].hex()) for p in hist], "shape": "A,others,A",
                                              "others_needed": lo,
                                              "how": "decode the listed inputs in order in one process and compare the first and the last"}})
    # rejected inputs are functions of their arguments too: the same malformed input must be reported the same way every time —
    # same events, same error / warnings with the same details — whatever was decoded (and is still alive) in between.  Probes: size
    # fields set to their maximum, so that one field overruns several open regions at once (seed C12g: the order in which the open
    # regions are examined came from a set of objects hashed by address, so the region named by the error varied from decode to decode)
    import decsuite as ds
    probes = []
    wfm = []
    for cc in rnd.sample(M.ccs, 24 if ctx.tier == "quick" else 117):
        c_ = M.command(cc, nsess=rnd.choice([1, 2]))
        if c_:
            wfm.append(ds.Case("Command", None, False, c_[1], "wf_cmd"))
        r_ = M.response(cc, nsess=rnd.choice([1, 2]))
        if r_:
            wfm.append(ds.Case("Response", cc, False, r_[1], "wf_rsp"))
    for c_ in wfm:
        b_ = canon.impl_dec("S", c_.tname, c_.cc, c_.enc, c_.data)
        if b_[-1].startswith("R done"):
            fs = [f for f in ds.size_faults(c_, b_, L, rnd, ctx.tier) if f.meta["now"] == (1 << (8 * f.meta["width"])) - 1 and f.meta["width"] == 2]
            probes += fs[:2]
    keep_alive = []
    nprobe = 0
    for pr in (probes if ctx.tier != "quick" else probes[:40]):
        for mode in "SW":
            first = None
            for rep in range(12 if ctx.tier == "quick" else 40):
                # perturb the allocator: decode something else and keep a varying amount of it alive
                o_ = rnd.choice(pool_enc + pool_plain)
                keep_alive.append(drain(decode_events(o_)))
                if len(keep_alive) > rnd.randrange(1, 40):
                    del keep_alive[: rnd.randrange(1, len(keep_alive) + 1)]
                lines = [l.split(" ", 2)[0] + " " + l.split(" ", 2)[2] if l[:2] in ("M ", "W ") else l
                         for l in canon.impl_dec(mode, pr.tname, pr.cc, pr.enc, pr.data)]
                nprobe += 1
                if first is None:
                    first = lines
                elif lines != first:
                    failures += 1
                    k_ = next((i for i, (x_, y_) in enumerate(zip(first, lines)) if x_ != y_), min(len(first), len(lines)))
                    ctx.violations.append({"kind": "concrete", "signature": "history:rejected-input-reported-differently",
                                           "what": f"decode #{rep + 1} of the same rejected input ({'strict' if mode == 'S' else 'warn'} mode) reports it differently from decode #1: "
                                                   f"'{(lines[k_] if k_ < len(lines) else 'end')[:160]}' vs '{(first[k_] if k_ < len(first) else 'end')[:160]}'",
                                           "replay": {**pr.replay(mode), "repetitions": rep + 1,
                                                      "how": "decode the input repeatedly in one process, decoding other messages and keeping their results alive in between"}})
                    break
            if failures > 3:
                break
    shapes["rejected input repeated (decodes)"] = nprobe
    # verdicts are functions of the arguments too: an integer that is in range for one field type and out of range for another of
    # the same width must be judged per type every time, whatever the process judged before (seeds C12i, C04i: a memo of validity
    # verdicts keyed by the bare integer and shared between types of one width / one family).  Probe: take the integers of a
    # well-formed message A, write one of them into a constrained field of another message B where it is out of range (B'), decode
    # A, B', A, B' in this process, both modes, and compare every decode with the model's (a pure function of the arguments).
    def _valid(pn, x):
        pr = L["prims"][pn]
        for it in pr["valid"]:
            if it["k"] in ("range", "named") and it["lo"] <= x < it["hi"]:
                return True
            if it["k"] in ("member", "int") and it["v"] == x:
                return True
        return not pr["valid"]
    npoison = 0
    poison_ops = []
    wf_lines = {}
    for _ in range((60 if ctx.tier == "quick" else 600) * boost):
        a_, b_ = rnd.sample(wfm, 2)
        for c_ in (a_, b_):
            if id(c_) not in wf_lines:
                wf_lines[id(c_)] = canon.impl_dec("S", c_.tname, c_.cc, c_.enc, c_.data)
        pa = msggen.value_field_positions(wf_lines[id(a_)], L)
        pb = msggen.value_field_positions(wf_lines[id(b_)], L)
        vals = {}
        for off, w, path, pn in pa:
            x = int.from_bytes(a_.data[off:off + w], "big", signed=L["prims"][pn]["signed"])
            if _valid(pn, x):
                vals.setdefault(w, []).append(x)
        cands = [(off, w, path, pn, x) for off, w, path, pn in pb if L["prims"][pn]["valid"] and not L["prims"][pn]["signed"]
                 for x in set(vals.get(w, [])) if x >= 0 and not _valid(pn, x)]
        if not cands:
            continue
        off, w, path, pn, x = rnd.choice(cands)
        bp = ds.Case(b_.tname, b_.cc, b_.enc, msggen.put(b_.data, off, w, x), "poisoned", None, {"field": path, "prim": pn, "value": x})
        for mode in "SW":
            poison_ops.append((mode, [a_, bp, a_, bp]))
    want = core.run_model([core.op_line(c_.op(mode, "DEC")) for mode, seq in poison_ops for c_ in seq[:2]])
    for k_, (mode, seq) in enumerate(poison_ops):
        if failures > 3:
            break
        exp = [want[2 * k_], want[2 * k_ + 1]] * 2
        for j_, c_ in enumerate(seq):
            got = canon.impl_dec(mode, c_.tname, c_.cc, c_.enc, c_.data)
            npoison += 1
            if got != exp[j_]:
                failures += 1
                d_ = next((i for i, (x_, y_) in enumerate(zip(got, exp[j_])) if x_ != y_), min(len(got), len(exp[j_])))
                ctx.violations.append({"kind": "concrete", "signature": "history:verdict-depends-on-earlier-decodes",
                                       "what": f"history A,B',A,B' ({'strict' if mode == 'S' else 'warn'} mode; B' carries in {seq[1].meta['field']} "
                                               f"({seq[1].meta['prim']}) the integer {seq[1].meta['value']} that is in range in a field of A): decode #{j_ + 1} "
                                               f"differs from the decode of the same arguments by the model: "
                                               f"'{(got[d_] if d_ < len(got) else 'end')[:140]}' vs '{(exp[j_][d_] if d_ < len(exp[j_]) else 'end')[:140]}'",
                                       "replay": {"history": [(c2.tname, c2.cc, c2.enc, c2.data.hex(), mode) for c2 in seq], "shape": "A,B',A,B'",
                                                  "how": "decode the four inputs in this order in one process"}})
                break
    shapes["verdict probes A,B',A,B' (decodes)"] = npoison
    # the result of a decode does not depend on the thread it runs on either: A on the main thread, A on a second thread - events,
    # object and the object rebuilt (on the main thread) from the other thread's events must compare equal (seed C12k: the memo of
    # synthesized layouts moved into a threading.local, one class per thread)
    import threading
    from tpmstream.common.object import events_to_obj as _e2o
    from tpmstream.spec.structures.constants import TPM_CC as _CC
    nthr = 0
    for a_ in rnd.sample(pool_enc, min(len(pool_enc), 12 if ctx.tier == "quick" else 60)) + rnd.sample(pool_plain, min(len(pool_plain), 4)):
        box = {}

        def work():
            try:
                box["r"] = drain(decode_events(a_))
            except Exception as e_:  # noqa
                box["r"] = ("crash", type(e_).__name__)
        r_main = drain(decode_events(a_))
        th = threading.Thread(target=work)
        th.start()
        th.join()
        nthr += 1
        bad = None
        if box.get("r") != r_main:
            bad = "the decode on a second thread does not compare equal to the decode on the main thread (" + \
                  ("events" if box.get("r", (None,))[0] != r_main[0] else "returned object") + ")"
        else:
            try:
                o_ = _e2o(box["r"][0], command_code=_CC(a_[1]) if a_[1] is not None else None)
                if type(getattr(o_, "parameters", None)) is not type(getattr(r_main[1], "parameters", None)) and getattr(r_main[1], "parameters", None) is not None:
                    bad = "the parameter area type rebuilt from the events decoded on a second thread is not the type the main thread's decode used"
            except Exception:  # noqa
                pass
        if bad:
            failures += 1
            ctx.violations.append({"kind": "concrete", "signature": "history:threads", "what": f"history A (main thread), A (second thread): {bad}",
                                   "replay": {"history": [(a_[0], a_[1], a_[2], a_[3].hex())] * 2, "shape": "A on the main thread, A on a second thread"}})
            break
    shapes["A on two threads (pairs)"] = nthr
    # ... nor on the root path an EARLIER decode was given: A below a caller-supplied root, then A with default arguments (and the
    # other way round) - the default decode must be the model's, the rooted one the same with the root in front (seed C12m: a memo
    # of the message fields' paths keyed by the field name only)
    nroot = 0
    msgs_ = [c_ for c_ in wfm if c_.tname in ("Command", "Response")]
    for a_ in rnd.sample(msgs_, min(len(msgs_), 6 if ctx.tier == "quick" else 40)):
        want_ = core.run_model([core.op_line(a_.op("S", "DEC"))])[0]
        for order in ("rooted-first", "default-first"):
            seq_ = [".hist.m0", None] if order == "rooted-first" else [None, ".hist.m0"]
            got_ = [canon.impl_dec("S", a_.tname, a_.cc, a_.enc, a_.data, root=r_) for r_ in seq_]
            nroot += 2
            bad = None
            for r_, g_ in zip(seq_, got_):
                g2_ = [core.strip_root(l_, r_) for l_ in g_] if r_ else g_
                off_root = [l_ for l_ in g_ if r_ and l_.startswith("M ") and not l_.split(" ")[2].startswith(r_)]
                if off_root:
                    bad = f"the decode below the root {r_} shows an event outside that root ('{off_root[0][:120]}')"
                    break
                if g2_ != want_:
                    d_ = next((i for i, (x_, y_) in enumerate(zip(g2_, want_)) if x_ != y_), min(len(g2_), len(want_)))
                    bad = (f"the decode {'below the root ' + r_ if r_ else 'with default arguments'} is not the model's "
                           f"('{(g_[d_] if d_ < len(g_) else 'end')[:120]}' vs '{(want_[d_] if d_ < len(want_) else 'end')[:120]}')")
                    break
            if bad:
                failures += 1
                ctx.violations.append({"kind": "concrete", "signature": "history:root-path",
                                       "what": f"history A below a caller-supplied root / A with default arguments ({order}): {bad}",
                                       "replay": {"history": [(a_.tname, a_.cc, a_.enc, a_.data.hex(), "S")] * 2, "root_paths": seq_, "shape": order}})
                break
        if bad:
            break
    shapes["A rooted / A default (decodes)"] = nroot
    for h in range(nh):
        kind = rnd.choice(["ABA", "ABA", "ABCA", "ABAB", "AxA", "interleaved2", "interleaved3", "stream",
                           "A,failed,A", "A,failed,A", "A,abandoned,A", "S,failed,S"])
        a, b, c = rnd.sample(pool_enc, 3)
        x = rnd.choice(pool_plain)
        sched = None
        if kind in ("A,failed,A", "S,failed,S", "A,abandoned,A"):
            # a decode that fails (rejected / truncated input, either mode) or is dropped half-way, between two decodes of A
            a1 = rnd.choice(pool_struct) if kind == "S,failed,S" else rnd.choice(pool_enc + pool_plain + pool_struct)
            bad_case = rnd.choice(pool_bad)
            shapes[kind] += 1
            r1 = drain(decode_events(a1))
            if kind == "A,abandoned,A":
                g = decode_events(rnd.choice(pool_enc + pool_struct))
                try:
                    for _ in range(rnd.randrange(1, 12)):
                        next(g)
                except Exception:  # noqa
                    pass
                del g
            else:
                drain(decode_events(bad_case))
            r2 = drain(decode_events(a1))
            if r1 != r2:
                failures += 1
                ctx.violations.append({"kind": "concrete", "signature": "history:after-failed",
                                       "what": f"history {kind}: the two decodes of the same input differ "
                                               f"({'events' if r1[0] != r2[0] else 'result'})",
                                       "replay": {"history": [(a1[0], a1[1], a1[2], a1[3].hex()),
                                                              (bad_case[0], bad_case[1], bad_case[2], bad_case[3].hex(), bad_case[4] if len(bad_case) > 4 else "S"),
                                                              (a1[0], a1[1], a1[2], a1[3].hex())], "shape": kind}})
            continue
        if kind == "ABA":
            hist = [a, b, a]
        elif kind == "ABCA":
            hist = [a, b, c, a]
        elif kind == "ABAB":
            hist = [a, b, a, b]
        elif kind == "AxA":
            hist = [a, x, a]
        elif kind == "interleaved2":
            hist = [a, b, a]
            sched = random.Random(rnd.randrange(1 << 30))
        elif kind == "interleaved3":
            hist = [a, b, c, a, b]
            sched = random.Random(rnd.randrange(1 << 30))
        else:
            # a stream containing two encrypted commands of different kinds, then the first again
            cmds = [p for p in (a, b, a) if p[0] == "Command"]
            hist = [("Stream", None, False, b"".join(p[3] for p in cmds))] * 2 if cmds else [a, b, a]
            if cmds:
                # stream decodes end with depleted after a command without response is fine: compare events only
                try:
                    e1 = list(_safe(decode_events(hist[0])))
                    e2 = list(_safe(decode_events(hist[1])))
                    bad = None if e1 == e2 else "two decodes of the same stream give unequal events"
                except Exception as e:  # noqa
                    bad = None
                shapes[kind] += 1
                if bad:
                    failures += 1
                    ctx.violations.append({"kind": "concrete", "signature": "history:stream", "what": bad,
                                           "replay": {"history": [(p[0], p[1], p[2], p[3].hex()) for p in hist]}})
                continue
        shapes[kind] += 1
        bad = history_failure(hist, sched)
        if len(samples) < 4:
            samples.append({"shape": kind, "history": [(p[0], p[1], p[2], p[3].hex()[:60]) for p in hist]})
        if bad:
            failures += 1
            ctx.violations.append({"kind": "concrete", "signature": "history:" + ("interleaved" if sched else "sequential"),
                                   "what": f"history {kind}: {bad}",
                                   "replay": {"history": [(p[0], p[1], p[2], p[3].hex()) for p in hist], "shape": kind,
                                              "how": "decode the listed inputs in order in one process and compare the event lists of equal inputs with =="}})
    # the cache capacity the translator read from the source
    genL = json.load(open(os.path.join(core.VERIF, "generated", "layout.json")))
    cap = genL["misc"]["cache_capacity"]
    ctx.stats.update({
        "evaluations": nh, "distinct_nontrivial": nh - shapes.get("AxA", 0),
        "rule": "histories over messages with encrypted parameter areas of different commands (all eligible command codes): sequential "
                "A,B,A / A,B,C,A / A,B,A,B / A,plain,A, step-wise interleaved live generators under seeded random schedules (2-3 decodes "
                "in flight), repeated stream decodes, a failing decode (rejected / truncated input, strict or warn mode) or a decode dropped "
                "half-way between two decodes of the same message or structure; decodes of equal arguments must yield == event lists and == objects, and the type "
                "rebuilt by events_to_obj must be the decoder's; non-trivial = at least two different encrypted areas in the history",
        "samples": samples,
        "correspondence": {"state_inventory": {"entries": inv_now, "new_vs_pinned": inv_new, "gone_vs_pinned": inv_gone}, "cache_capacity_read_from_source": cap, "model": "Cache.run over the class names of the history"},
        "distribution": {"shapes": dict(shapes), "encrypted_area_kinds": len(pool_enc), "classes_under_encryption": len(pool_all), "failures": failures},
    })


def _safe(g):
    try:
        for e in g:
            yield e
    except Exception:  # noqa
        return


PROP = {"targets": ["TpmProofs.Props.C12"], "module": "TpmProofs.Props.C12", "theorems": THEOREMS, "run": run,
        "assumptions": ["lru_cache/cache semantics of CPython; the only cross-call state of the package is the cache around TPMS_PARAMS.encrypted "
                        "(the monitor would also reveal any new global state through unequal repeated decodes)"]}
