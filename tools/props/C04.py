"""C04 — strict mode rejects exactly the inputs containing an out-of-range value."""
import collections
import random

import core
import gen
import decsuite as ds
import msggen

THEOREMS = ["C16.c16_valid_iff", "decode_ok", "C04.c04_prim_reject", "C04.c04_prim_accept",
            "decode_sound", "AcceptIff.type_accept_iff", "AcceptIff.command_accept_iff", "AcceptIff.response_accept_iff",
            "runWalker_gd", "C04.c04_tables", "C04.strict_link", "C04.c04_shown_fields_valid", "C04.c04_prim_error_is_invalid"]


def run(ctx, replay_case):
    rnd = random.Random(ctx.seed)
    L, M, wf = ds.wellformed(rnd, ctx.tier, per_type=1 if ctx.tier == "quick" else 4, per_cc=1 if ctx.tier == "quick" else 4,
                             streams=False)
    full = core.run_impl([c.op("S") for c in wf])
    faults, keeps = [], []
    for c, b in zip(wf, full):
        if not ds.usable(ctx, c, b, L, ctx.stats.setdefault("inputs", {})):
            continue
        for f in ds.value_faults(c, b, L, rnd, ctx.tier, limit=6 if ctx.tier == "quick" else None):
            f.meta["full"] = b
            faults.append(f)
        # valid boundary values kept valid
        pos = msggen.value_field_positions(b, L)
        for i in (rnd.sample(range(len(pos)), min(len(pos), 3)) if pos else []):
            off, w, path, pn = pos[i]
            G = M.G
            cands = [x for x in G.candidates(pn)]
            if cands:
                x = rnd.choice(cands)
                keeps.append(ds.Case(c.tname, c.cc, c.enc, msggen.put(c.data, off, w, x), "valid_boundary", None,
                                     {"field": path, "prim": pn, "value": x, "index": i, "full": b}))
    if ctx.tier == "quick" and len(faults) > 12000:
        faults = rnd.sample(faults, 12000)
    allc = faults + keeps
    res = ds.run_both(allc, "S")
    impl, model = res["S"]
    ds.correspondence_violation(ctx, "DEC strict (value faults)", allc, "S", impl, model)
    nbad = 0
    for c, b in zip(allc, impl):
        fullb = c.meta["full"]
        fe_lines = ds.events_of(fullb)
        # index of the faulted leaf among the whole decode's events
        prim_idx = [i for i, l in enumerate(fe_lines) if l.split(" ")[4] != "..."]
        leaf_line = prim_idx[c.meta["index"]]
        before = [ds.strip_pulls(l) for l in fe_lines[:leaf_line]]
        evs = [ds.strip_pulls(l) for l in ds.events_of(b)]
        if c.kind == "value_fault":
            exp = (f"R raised ValueConstraintViolatedError path={c.meta['field']} type={c.meta['prim']} value={c.meta['value']} "
                   f"valid={gen.valid_norm_pinned(L, c.meta['prim'])}")      # the allowed set: the type's declared set (pinned)
            if evs != before or not b[-1].startswith(exp + " "):
                nbad += 1
                ctx.violations.append({"kind": "concrete", "signature": f"value:{c.meta['prim']}",
                                       "what": f"out-of-range value {c.meta['value']} in {c.meta['field']} ({c.meta['prim']}): expected the events of "
                                               f"the {len(before)} earlier fields and '{exp}', observed {len(evs)} events and '{b[-1][:160]}'",
                                       "replay": c.replay("S")})
        else:
            if b[-1].startswith("R raised ValueConstraintViolatedError") and f"path={c.meta['field']} " in b[-1]:
                nbad += 1
                ctx.violations.append({"kind": "concrete", "signature": f"valid-rejected:{c.meta['prim']}",
                                       "what": f"valid value {c.meta['value']} of {c.meta['prim']} in {c.meta['field']} is rejected",
                                       "replay": c.replay("S")})
    # the same rejection whatever the input comes in: messages with an out-of-range value (also in the header: tag, command code)
    # carried as raw bytes, hex text and the packets of a pcapng capture, decoded strictly as a stream through every front-end, end
    # like the binary decode of the same bytes (seed C04k: the pcapng front-end dropped packets that do not start with a valid tag)
    import canon
    msgs_f = [c for c in faults if c.tname == "Command"]
    nfront = 0
    hdr_f = [c for c in msgs_f if c.meta["field"] in (".tag", ".commandCode", ".commandSize")]
    for c in hdr_f[:12] + rnd.sample(msgs_f, min(len(msgs_f), 40 if ctx.tier == "quick" else 400)):
        base = canon.impl_events_via("binary", c.data, "Stream")
        import re as _re
        # (raw bytes through `auto` only when auto takes them for binary: two leading bytes that are hex digits are read as hex
        # text, 0a 0d as a pcapng capture - c15_auto; a faulted tag such as 0x4443 = "DC" is such a start)
        raw_is_binary = len(c.data) >= 2 and c.data[:2] != b"\x0a\x0d" and not _re.match(b"[0-9a-fA-F]{2}", c.data[:2])
        for front, cont in (("hex", c.data.hex().encode()), ("pcapng", canon.make_pcapng([c.data])),
                            ("auto", c.data) if raw_is_binary else ("auto", c.data.hex().encode()),
                            ("auto", canon.make_pcapng([c.data]))):
            got = canon.impl_events_via(front, cont, "Stream")
            nfront += 1
            if got != base:
                nbad += 1
                k_ = next((i for i, (x_, y_) in enumerate(zip(got, base)) if x_ != y_), min(len(got), len(base)))
                ctx.violations.append({"kind": "concrete", "signature": f"front-end:{front}",
                                       "what": f"out-of-range value {c.meta['value']} in {c.meta['field']}: strict decoding through the {front} front-end "
                                               f"does not end like the decode of the carried bytes ('{(got[k_] if k_ < len(got) else 'end')[:100]}' vs "
                                               f"'{(base[k_] if k_ < len(base) else 'end')[:100]}')",
                                       "replay": {**c.replay("S"), "front_end": front, "container": cont.hex()[:4000]}})
                break
        if nbad > 3:
            break
    prims = collections.Counter(c.meta["prim"] for c in faults)
    ctx.stats.update({
        "evaluations": len(allc), "distinct_nontrivial": len({(c.tname, c.cc, c.data) for c in allc}),
        "rule": "every constrained leaf of well-formed structures/commands/responses (every type, every command code) replaced by "
                "values just outside / far outside its declared set (pinned layout): must raise ValueConstraintViolatedError naming "
                "that path, type and integer, with exactly the events of the earlier fields; valid boundary values substituted: "
                "must not be rejected at that field",
        "samples": [{**c.replay("S"), "field": c.meta["field"], "value": c.meta["value"]} for c in allc[:: max(1, len(allc) // 5)]][:5],
        "correspondence": {"ops": len(allc)},
        "distribution": {"kinds": ds.kinds_distribution(allc), "constrained_types_hit": len(prims), "monitor_failures": nbad, "front_end_decodes": nfront,
                         "outcomes": dict(collections.Counter(ds.outcome(b) for b in impl))},
    })


PROP = {"targets": ["TpmProofs.Props.AcceptIff"], "module": "TpmProofs.Props.AcceptIff", "theorems": THEOREMS, "run": run,
        "assumptions": ["the per-field accept/reject rule, validity = membership in the declared set, and 'every field a strict decode shows is valid for "
                        "the table's primitive type of its class' (first offender, every input) are theorems; the exact error text of whole malformed "
                        "messages is monitored + tied by correspondence"]}
