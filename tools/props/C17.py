"""C17 — attribute words decompose into fields that partition their bits."""
import collections
import random

import core
import gen
import intsuite

THEOREMS = ["C17.c17_partition_tables", "C17.c17_masks_nonzero", "C17.c17_accessor", "C17.c17_overlay", "C17.c17_row"]


def run(ctx, replay_case):
    rnd = random.Random(ctx.seed)
    L = gen.load_layout("generated")
    P = gen.load_layout("pinned")
    # the attribute types are the pinned ones: a type that vanished or is no longer a bit-field is reported, not skipped
    pinned_bitfields = [pn for pn in P["prim_order"] if P["prims"][pn]["flavour"] == "bitfield"]
    for pn in pinned_bitfields:
        if pn not in L["prims"] or L["prims"][pn]["flavour"] != "bitfield":
            ctx.violations.append({"kind": "concrete", "signature": f"attr-type:{pn}",
                                   "what": f"{pn} is an attribute (bit-field) type in the pinned layout but "
                                           + ("is missing from the code" if pn not in L["prims"] else f"is now of flavour {L['prims'][pn]['flavour']}"),
                                   "replay": {"type": pn}})
    ops = []
    for pn in L["prim_order"]:
        p = L["prims"][pn]
        if p["flavour"] != "bitfield":
            continue
        for y in intsuite.bit_values(p, rnd, ctx.tier):
            ops.append(("BITS", pn, y))
    impl = core.run_impl(ops)
    model = core.run_model([core.op_line(o) for o in ops])
    corr = [i for i in range(len(ops)) if impl[i] != model[i]]
    # monitor on the implementation's own rows: partition + accessor + overlay
    nviol = 0
    for i, (_, pn, y) in enumerate(ops):
        bits = 8 * L["prims"][pn]["size"]
        rows = [l.split(" ") for l in impl[i]]
        problem = None
        if any(r[0] != "F" or len(r) != 5 or r[1] in ("crash", "?rows") for r in rows):
            problem = f"rows malformed: {impl[i][:2]}"
        else:
            cover = [0] * bits
            for _, name, mask, fval, row in rows:
                mask = int(mask)
                if mask == 0:
                    problem = f"field {name} has an empty mask"
                    break
                tz = (mask & -mask).bit_length() - 1
                if fval != str((y & mask) >> tz):
                    problem = f"accessor {name} returns {fval}, field bits are {(y & mask) >> tz}"
                    break
                exp = "".join((("1" if (y >> b) & 1 else "0") if (mask >> b) & 1 else ".") for b in range(bits - 1, -1, -1))
                if row != exp:
                    problem = f"row of {name} is {row}, expected {exp}"
                    break
                for b in range(bits):
                    if (mask >> b) & 1:
                        cover[b] += 1
                if mask >> bits:
                    problem = f"mask of {name} exceeds the word"
                    break
            if problem is None and any(c != 1 for c in cover):
                b = next(b for b, c in enumerate(cover) if c != 1)
                problem = f"bit {b} is shown by {cover[b]} fields"
        if problem:
            nviol += 1
            if nviol <= 3:
                ctx.violations.append({"kind": "concrete", "signature": f"bits:{pn}:{problem.split(' ')[0]}",
                                       "what": f"{pn}({y:#x}): {problem}",
                                       "replay": {"type": pn, "value": y, "rows": impl[i]}})
    if corr and not nviol:
        i = corr[0]
        ctx.violations.append({"kind": "correspondence", "what": "bit-field model and implementation disagree",
                               "replay": {"correspondence": "BITS", "type": ops[i][1], "value": ops[i][2],
                                          "model": model[i], "impl": impl[i], "disagreements": len(corr)}})
    per = collections.Counter(o[1] for o in ops)
    ctx.stats.update({
        "evaluations": len(ops), "distinct_nontrivial": len({(o[1], o[2]) for o in ops if o[2] != 0}),
        "rule": "all 12 TPMA_* types: all 256 values of 8-bit types; walking ones/zeros, each single field, each field "
                "complemented, seeded random words for 32-bit types; accessors, attributes() and the pretty printer's bit "
                "rows are taken from the implementation and checked for partition/accessor/overlay, and compared with the model",
        "samples": [{"type": o[1], "value": o[2], "rows": impl[i][:3]} for i, o in list(enumerate(ops))[:: max(1, len(ops) // 5)]][:5],
        "exhaustive": False,
        "correspondence": {"ops": len(ops), "model_vs_impl_disagreements": len(corr), "monitor_failures": nviol},
        "distribution": {"values_per_type": dict(per)},
    })


PROP = {"targets": ["TpmProofs.Props.C17"], "module": "TpmProofs.Props.C17", "theorems": THEOREMS, "run": run,
        "assumptions": ["rows are recognised in the printer's output by their name and bit-string tokens (colour codes stripped)"]}
