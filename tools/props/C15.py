"""C15 — hex, swtpm-log, pcapng and auto inputs decode like the bytes they carry."""
import collections
import itertools
import random

import canon
import core
import gen
import msggen

THEOREMS = ["C15.c15_hex_whitespace", "C15.c15_hex_iff", "C15.c15_hex_render", "C15.c15_hex_total", "C15.c15_pcap_runt",
            "C15.c15_pcap_trim", "C15.c15_auto", "C15.c15_auto_binary", "C15.c15_swtpm_consts", "C15.c15_swtpm_render",
            "C15.scan", "C10.c10_source"]

WS = [b" ", b"\n", b"\r\n", b"\t", b"  ", b"\x0b", b"\x0c", b""]


def render_hex(data, rnd, noise=True):
    out = b""
    for byte in data:
        h = f"{byte:02x}"
        hi, lo = h[0], h[1]
        if rnd.random() < 0.5:
            hi = hi.upper()
        if rnd.random() < 0.5:
            lo = lo.upper()
        inside = rnd.choice(WS) if (noise and rnd.random() < 0.15) else b""
        between = rnd.choice(WS) if noise else b""
        out += hi.encode() + inside + lo.encode() + between
    return out


def render_swtpm(messages, rnd):
    """documented layout: free text, then Ctrl / SWTPM_IO sections of upper-case hex lines"""
    out = b"Starting vTPM manufacturing as tss:tss @ Thu 04 Jul 2024\nuccessfully created R A 2048 EK with handle 0x81010001.\n"
    # more free text before the first section: lines that swtpm prints at higher log levels and words that share a
    # prefix with the payload marker without being it (all of it is free text: it carries no bytes)
    for _ in range(rnd.choice([0, 0, 1, 2, 3])):
        out += rnd.choice([b"SWTPM_NVRAM_Init: directory /var/lib/swtpm\n", b"SWTPM_NVRAM_LoadData: From file tpm2-00.permall\n",
                           b"Data client connected\n", b" SWTPM_NVRAM_GetFilenameForName: For name permall\n 80 01 \n",
                           b"swtpm_io: 3 bytes\n", b" SWTPM_I\n", b"SWTPM\n", b" SW SWT SWTP SWTPM_ x\n", b"TPM_IO_Hash_Start\n",
                           b"main: Initializing TPM 2 at Thu Jul  4\n", b"Ctrl Cmd? no section yet\n", b"\n"])
    def hexlines(b):
        lines = b""
        for i in range(0, len(b), 16):
            lines += b" " + b" ".join(f"{x:02X}".encode() for x in b[i:i + 16]) + b" \n"
        return lines
    crlf = rnd.random() < 0.25          # a log written with CR LF line ends (the scanner's white space includes CR)
    if crlf:
        out = out.replace(b"\n", b"\r\n")
        _hexlines = hexlines

        def hexlines(b):               # noqa: F811
            return _hexlines(b).replace(b"\n", b"\r\n")
    for i, m in enumerate(messages):
        if rnd.random() < 0.5:
            ctrl = bytes(rnd.randrange(256) for _ in range(rnd.choice([4, 8])))
            out += b" Ctrl Cmd: length %d\n" % len(ctrl) + hexlines(ctrl) + b" Ctrl Rsp: length 4\n" + hexlines(b"\x00\x00\x00\x00")
        out += (b" SWTPM_IO_Read: length %d\n" if i % 2 == 0 else b" SWTPM_IO_Write: length %d\n") % len(m) + hexlines(m)
    if crlf:
        out = out.replace(b"\r\n", b"\n").replace(b"\n", b"\r\n")
    return out


def run(ctx, replay_case):
    rnd = random.Random(ctx.seed)
    L = gen.load_layout("pinned")
    M = msggen.MsgGen(L, rnd)
    # --- exhaustive small worlds for the two text scanners + auto-detection (model vs implementation)
    ops = []
    hex_alpha = [b"0", b"a", b"F", b" ", b"\n", b"g", b"+", b"-", b"\t", b"9"]
    hmax = 4 if ctx.tier == "quick" else 5
    for n in range(hmax + 1):
        for tup in itertools.product(hex_alpha, repeat=n):
            ops.append(("FRONT", "hex", b"".join(tup)))
    sw_alpha = [b"S", b"W", b"C", b"t", b"0", b"A", b" ", b"\n", b"x", b"\r"]
    smax = 5 if ctx.tier == "quick" else 6
    for n in range(smax + 1):
        for tup in itertools.product(sw_alpha, repeat=n):
            ops.append(("FRONT", "swtpm", b"".join(tup)))
    # marker-prefixed strings so that the payload states are reached
    for n in range(0, 5 if ctx.tier == "quick" else 6):
        for tup in itertools.product([b"0", b"F", b" ", b"\n", b"C", b"t", b"S", b"g", b"\r"], repeat=n):
            ops.append(("FRONT", "swtpm", b"SWTPM_IO_Read: length 1\n" + b"".join(tup)))
    for a in range(256):
        for b in (0x0d, 0x0a, 0x30, 0x46, 0x66, 0x67, 0x20, 0x80, 0x01, a):
            ops.append(("FRONT", "auto", bytes([a, b, 0x00])))
    ops += [("FRONT", "auto", b""), ("FRONT", "auto", b"8")]
    n_exh = len(ops)
    # --- rendered streams
    streams = []
    for i in range(60 if ctx.tier == "quick" else 600):
        msgs = []
        for _ in range(rnd.choice([1, 2, 3])):
            pr = M.pair()
            if pr:
                msgs += [pr[0][1], pr[1][1]]
        if msgs:
            streams.append(msgs)
    # a failure response whose code equals the command code of its parameterless command: two packets with identical bytes
    for ccv in (0x181, 0x17C, 0x144):
        twin = bytes.fromhex("80010000000a") + ccv.to_bytes(4, "big")
        streams.insert(rnd.randrange(len(streams) + 1), [twin, twin])
    for msgs in streams:
        data = b"".join(msgs)
        ops.append(("FRONT", "hex", render_hex(data, rnd)))
        ops.append(("FRONT", "swtpm", render_swtpm(msgs, rnd)))
    # --- pcapng payload handling: real captures written with dpkt vs the model of what happens after dpkt.
    # payload lengths around the runt bound, size fields below / at / above the payload length by any amount
    n_front = len(ops)
    def payload(n, size):
        b = bytearray(rnd.randrange(256) for _ in range(n))
        if n >= 6:
            b[2:6] = max(0, size).to_bytes(4, "big")
        return bytes(b)
    for n in range(1, 15):           # dpkt drops nothing here: empty TCP payloads are the b"" runt below
        for d in (-3, -1, 0, 1, 2, 3, 4, 5, 8):
            ops.append(("TRIM", [payload(n, n + d)], "ip"))
    for i in range(150 if ctx.tier == "quick" else 1500):
        ps = []
        for _ in range(rnd.choice([1, 2, 3, 5])):
            n = rnd.choice([0, 3, 4, 9, 10, 11, 12, 20, 33])
            ps.append(payload(n, n - rnd.choice([0, 0, 0, 1, 2, 3, 4, 4, 5, 7, 8, n]) if rnd.random() < 0.8 else n + rnd.randrange(1, 9)))
        if rnd.random() < 0.3:           # the same payload twice in a row (a repeated command, or a reply equal to its command)
            j = rnd.randrange(len(ps))
            ps.insert(j, ps[j])
        ops.append(("TRIM", ps, rnd.choice(["ip", "eth"])))
    impl = core.run_impl(ops)
    model = core.run_model([core.op_line(o) for o in ops])
    corr = [i for i in range(len(ops)) if impl[i] != model[i]]
    if corr:
        i = min(corr, key=lambda j: len(ops[j][2]) if ops[j][0] == "FRONT" else 10 ** 6)
        if ops[i][0] == "TRIM":
            i = min((j for j in corr if ops[j][0] == "TRIM"), key=lambda j: sum(len(p) for p in ops[j][1]))
            ctx.violations.append({"kind": "correspondence", "what": "pcapng payload model and implementation disagree",
                                   "replay": {"correspondence": "TRIM", "payloads": [p.hex() for p in ops[i][1]], "link": ops[i][2],
                                              "model": model[i], "impl": impl[i], "disagreements": len(corr)}})
        else:
            ctx.violations.append({"kind": "correspondence", "what": f"front-end model and implementation disagree ({ops[i][1]})",
                                   "replay": {"correspondence": "FRONT " + ops[i][1], "text_hex": ops[i][2].hex(), "text": repr(ops[i][2]),
                                              "model": model[i], "impl": impl[i], "disagreements": len(corr)}})
    # --- monitor 1: rendered containers yield exactly the carried bytes; non-hex text is rejected
    k = n_exh
    nbad = 0
    for msgs in streams:
        data = b"".join(msgs)
        for which in ("hex", "swtpm"):
            if impl[k] != [f"F ok {data.hex()}"]:
                nbad += 1
                ctx.violations.append({"kind": "concrete", "signature": f"render:{which}",
                                       "what": f"a {which} rendering of a message stream does not yield the carried bytes",
                                       "replay": {"front_end": which, "text_hex": ops[k][2].hex(), "carried": data.hex(), "observed": impl[k][0][:200]}})
            k += 1
    for i in range(n_exh):
        _, which, text = ops[i]
        if which == "hex":
            stripped = bytes(b for b in text if chr(b) not in " \t\n\r\x0b\x0c")
            is_pairs = len(stripped) % 2 == 0 and all(chr(b) in "0123456789abcdefABCDEF" for b in stripped)
            exp = f"F ok {bytes.fromhex(stripped.decode()).hex() or '-'}" if is_pairs else None
            if (exp is not None and impl[i] != [exp]) or (exp is None and not impl[i][0].startswith("F ValueError")):
                nbad += 1
                ctx.violations.append({"kind": "concrete", "signature": "hex:reject" if exp is None else "hex:accept",
                                       "what": f"hex text {text!r}: expected {'ValueError' if exp is None else exp}, observed {impl[i][0]}",
                                       "replay": {"front_end": "hex", "text": repr(text), "text_hex": text.hex()}})
        elif which == "auto":
            if len(text) < 2:
                exp = "F IOError"
            elif text[:2] == b"\x0a\x0d":
                exp = "F pcapng"
            elif all(chr(b) in "0123456789abcdefABCDEF" for b in text[:2]):
                exp = "F hex"
            else:
                exp = "F binary"
            if impl[i] != [exp]:
                nbad += 1
                ctx.violations.append({"kind": "concrete", "signature": "auto:magic",
                                       "what": f"auto-detection of {text[:2].hex()}: expected {exp}, observed {impl[i][0]}",
                                       "replay": {"front_end": "auto", "text_hex": text.hex()}})
    # --- monitor 1b: the pcapng payload rule as stated: runts (< 10 bytes) skipped, every other payload cut to its own size field
    for i in range(n_front, len(ops)):
        exp = b""
        for pl in ops[i][1]:
            if len(pl) >= 10:
                exp += pl[: int.from_bytes(pl[2:6], "big")]
        if impl[i] != [f"F ok {exp.hex() or '-'}"]:
            nbad += 1
            ctx.violations.append({"kind": "concrete", "signature": "pcap:trim",
                                   "what": "pcapng payloads are not taken in the order of the file, each cut to its own size field, with runt packets skipped",
                                   "replay": {"front_end": "pcapng", "payloads": [p.hex() for p in ops[i][1]], "link": ops[i][2],
                                              "expected": exp.hex(), "observed": impl[i][0][:200]}})
    # --- monitor 2: events through each container == events of the carried bytes
    via = []
    for msgs in streams[: (40 if ctx.tier == "quick" else 300)]:
        data = b"".join(msgs)
        runt = [b"\x00\x01\x02", b""]
        # mssim responses carry 4 extra bytes; the statement says "trimmed to their own size field", so any surplus
        extra = [m + bytes(rnd.randrange(256) for _ in range(rnd.choice([4, 4, 1, 2, 7, 16]))) if rnd.random() < 0.4 else m for m in msgs]
        with_runts = []
        for m in extra:
            with_runts.append(m)
            if rnd.random() < 0.2:
                with_runts.append(rnd.choice(runt))
        pcap = canon.make_pcapng([p for p in with_runts if p is not None], link=rnd.choice(["ip", "eth"]))
        via.append((data, [("binary", data), ("hex", render_hex(data, rnd)), ("swtpm", render_swtpm(msgs, rnd)), ("pcapng", pcap),
                           ("auto", data), ("auto", render_hex(data, rnd, noise=False)), ("auto", pcap)]))
    # the front-ends forward type, command code and mode: single commands / responses and faulted streams in warn mode
    for i in range(20 if ctx.tier == "quick" else 200):
        pr = M.pair()
        if not pr:
            continue
        (cv, cb, ci), (rv, rb, ri) = pr
        via.append((cb, [("binary", cb), ("hex", render_hex(cb, rnd)), ("swtpm", render_swtpm([cb], rnd)), ("auto", cb)], "Command", None, "S"))
        if not ri.get("encrypt"):
            via.append((rb, [("binary", rb), ("hex", render_hex(rb, rnd)), ("swtpm", render_swtpm([rb], rnd))], "Response", ci["cc"], "S"))
        bad = bytearray(cb + rb)
        bad[rnd.randrange(len(bad))] ^= 1 << rnd.randrange(8)
        bad = bytes(bad)
        via.append((bad, [("binary", bad), ("hex", render_hex(bad, rnd)), ("swtpm", render_swtpm([bad], rnd))], "Stream", None, "W"))
    vops = []
    for entry in via:
        data, conts = entry[0], entry[1]
        tn, ccv, md = (entry[2], entry[3], entry[4]) if len(entry) > 2 else ("Stream", None, "S")
        for front, cont in conts:
            vops.append(("VIA", front, cont, tn, ccv, md))
    vres = core.run_impl(vops)
    k = 0
    for entry in via:
        data, conts = entry[0], entry[1]
        ref = vres[k]
        for j, (front, cont) in enumerate(conts):
            if vres[k + j] != ref:
                nbad += 1
                k2, e, g = __import__("suites").first_diff(ref, vres[k + j])
                ctx.violations.append({"kind": "concrete", "signature": f"via:{front}",
                                       "what": f"decoding through the {front} front-end differs from decoding the carried bytes (line {k2})",
                                       "replay": {"front_end": front, "container_hex": cont.hex(), "carried": data.hex(), "expected": e, "observed": g}})
        k += len(conts)
    outc = collections.Counter(b[0].split(" ")[1] for b in impl)
    ctx.stats.update({
        "evaluations": len(ops) + len(vops), "distinct_nontrivial": len({(o[1], o[2]) for o in ops if o[0] == "FRONT" and len(o[2]) > 1}) + sum(1 for o in ops if o[0] == "TRIM"),
        "rule": f"exhaustive: all strings up to length {hmax} over {len(hex_alpha)} characters for the hex scanner, up to length {smax} over "
                f"{len(sw_alpha)} characters (and payload-state strings behind a marker) for the swtpm scanner, 2560 two-byte magics for "
                "auto-detection (model vs implementation, and against the stated rule); generated message streams rendered as hex text with "
                "random case/whitespace noise, as swtpm log in the documented layout with control sections, as pcapng (IP or Ethernet, mssim "
                "padding, runt packets) and through auto-detection: events must equal those of the carried bytes",
        "samples": [{"front": str(o[1])[:80], "text": repr(o[2])[:80], "impl": impl[i][0][:60]} for i, o in list(enumerate(ops))[:: max(1, len(ops) // 6)]][:6],
        "exhaustive": True,
        "correspondence": {"ops": len(ops), "model_vs_impl_disagreements": len(corr)},
        "distribution": {"scanner_outcomes": dict(outc), "pcap_payload_lists": len(ops) - n_front, "rendered_streams": len(streams), "via_container_decodes": len(vops), "monitor_failures": nbad},
    })


PROP = {"targets": ["TpmProofs.Props.C15"], "module": "TpmProofs.Props.C15", "theorems": THEOREMS, "run": run,
        "assumptions": ["the pcapng *container* is parsed by dpkt (not modelled): the check writes real pcapng files with dpkt and decodes them; "
                        "only the payload trimming after dpkt is modelled and proved",
                        "auto-detection looks at the first two bytes only (as the statement says): hex text that starts with whitespace is not covered"]}
