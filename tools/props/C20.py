"""C20 — the layout tables are coherent and match the pinned TPM 2.0 layout."""
import collections
import json
import os
import random

import coherence
import core
import gen
import suites

THEOREMS = ["C20.c20_known", "C20.c20_framing", "C20.c20_cc_distinct", "C20.c20_maps", "C20.c20_maps_keys",
            "C20.c20_handles", "C20.c20_counted", "C20.c20_selectors", "C20.c20_list_size", "C20.c20_pinned",
            "C20.c20_pinned_msg", "C20.c20_pinned_names"]


def run(ctx, replay_case):
    VERIF = core.VERIF
    genL = json.load(open(os.path.join(VERIF, "generated", "layout.json")))
    # 1. the coherence clauses, evaluated independently in Python on the regenerated tables
    bad = coherence.check(genL)
    for clause, entry, detail in bad[:10]:
        ctx.violations.append({"kind": "concrete", "signature": f"coherence:{clause}:{entry}",
                               "what": f"coherence clause '{clause}' fails at table entry {entry}: {detail}",
                               "replay": {"clause": clause, "entry": entry, "detail": detail,
                                          "how": "import tpmstream.spec; inspect the named class attribute"}})
    # 2. behavioural stability: encodings that are well-formed per the *pinned* layout must decode to
    #    exactly the events the pinned layout dictates
    rnd = random.Random(ctx.seed)
    per_type = 3 if ctx.tier == "quick" else 12
    L, cases, novalue = suites.g1_cases(rnd, per_type)
    # directed: more cases for entries that differ from the pinned layout
    diff_types = [k for sec, k in ctx.layout_diff if sec == "types"]
    diff_prims = {k for sec, k in ctx.layout_diff if sec == "prims"}
    if diff_prims:
        for key, t in L["types"].items():
            if json.dumps(t).find('"') >= 0 and any(f'"{p}"' in json.dumps(t) for p in diff_prims):
                diff_types.append(key)
    if diff_types:
        _, more, _ = suites.g1_cases(rnd, 40, keys=[k for k in dict.fromkeys(diff_types) if k in L["types"]])
        cases += more
    if replay_case and "hex" in replay_case and "type" in replay_case:
        pass
    res = suites.run_g1(cases)
    if res["gen_spec_mismatch"]:
        raise RuntimeError(f"harness bug: generator and pinned spec disagree on {len(res['gen_spec_mismatch'])} encodings, "
                           f"e.g. {cases[res['gen_spec_mismatch'][0]][0]}")
    for i in sorted(res["monitor"], key=lambda i: len(cases[i][2]))[:5]:
        key, v, b = cases[i]
        exp = suites.expected_lines(res["spec"][i], len(b), v)
        k, e, g = suites.first_diff(exp, res["impl"][i])
        ctx.violations.append({"kind": "concrete", "signature": f"decode:{key}",
                               "what": f"a pinned-well-formed encoding of {key} no longer decodes as the pinned layout dictates",
                               "replay": {"type": key, "hex": b.hex(), "mode": "strict", "line": k,
                                          "expected": e, "observed": g}})
    if res["corr"] and not res["monitor"]:
        i = res["corr"][0]
        k, e, g = suites.first_diff(res["model"][i], res["impl"][i])
        ctx.violations.append({"kind": "correspondence", "what": "model (generated tables) and implementation disagree",
                               "replay": {"type": cases[i][0], "hex": cases[i][2].hex(), "model": e, "impl": g}})
    # 2b. whole messages: for every command code a command and a response as the pinned layout dictates them — handle and
    #     parameter areas picked by the code, and (where a session asks for parameter encryption) the synthesized layout:
    #     only the leading TPM2B opaque, every later parameter as tabled (seed C20e: `encrypted()` replaced every parameter
    #     of the leading parameter's type)
    import decsuite as ds
    _, _M, mcases = ds.wellformed(rnd, ctx.tier, structs=False, messages=True, streams=False, per_cc=1 if ctx.tier == "quick" else 4)
    mimpl = core.run_impl([c.op("S") for c in mcases])
    msg_bad = 0
    for c, im in zip(mcases, mimpl):
        want_r = f"R done obj={gen.obj_str(c.val)}"
        if im[-1] != want_r or any(l.startswith("W ") for l in im):
            msg_bad += 1
            if msg_bad <= 3:
                ctx.violations.append({"kind": "concrete", "signature": f"decode-msg:{c.tname}:{c.cc}:{int(bool(c.enc))}",
                                       "what": f"a pinned-well-formed {c.tname} (command code {c.meta.get('cc')}, parameter encryption "
                                               f"{bool(c.meta.get('decrypt') or c.meta.get('encrypt'))}) no longer decodes as the pinned layout dictates",
                                       "replay": {**c.replay("S"), "expected": want_r[:600], "observed": im[-1][:600]}})
    # 3. the pinned and regenerated JSON differ -> named entries (the proof c20_pinned breaks on these)
    if ctx.layout_diff and not ctx.violations:
        sec, key = ctx.layout_diff[0]
        pinL = json.load(open(os.path.join(VERIF, "pinned", "layout.json")))
        old = pinL.get(sec, {}).get(key) if isinstance(pinL.get(sec), dict) else pinL.get(sec)
        new = genL.get(sec, {}).get(key) if isinstance(genL.get(sec), dict) else genL.get(sec)
        ctx.violations.append({"kind": "concrete", "signature": f"pinned:{sec}:{key}",
                               "what": f"layout entry {sec}/{key} differs from the pinned layout",
                               "replay": {"section": sec, "entry": key, "pinned": old, "now": new,
                                          "all_differing": ctx.layout_diff[:40]}})
    kinds = collections.Counter(L["types"][k]["kind"] for k, _, _ in cases)
    ctx.stats.update({
        "evaluations": len(cases) + len(mcases) + 1,
        "distinct_nontrivial": len({(k, b) for k, _, b in cases if len(b) > 0}),
        "rule": "G1: conforming value trees per the pinned layout for every non-union type (random + every selector "
                "boundary value), encoded by the Lean spec over Pinned, decoded by the implementation; distinct = "
                "distinct (type, encoding) with a non-empty encoding; plus one full evaluation of the coherence clauses in Python",
        "samples": [{"type": k, "hex": b.hex()[:80]} for k, _, b in cases[:: max(1, len(cases) // 6)]][:6],
        "exhaustive": True,
        "correspondence": {"ops": len(cases), "message_ops": len(mcases), "message_monitor_failures": msg_bad, "model_vs_impl_disagreements": len(res["corr"]),
                           "impl_vs_pinned_spec_disagreements": len(res["monitor"])},
        "distribution": {"types_covered": len({k for k, _, _ in cases}), "types_without_value": novalue,
                         "by_kind": dict(kinds), "coherence_failures": len(bad),
                         "table_entries": {"types": len(genL["order"]), "prims": len(genL["prim_order"]),
                                           "command_codes": len(genL["cc"])}},
    })


PROP = {
    "targets": ["TpmProofs.Props.C20"],
    "module": "TpmProofs.Props.C20",
    "theorems": THEOREMS,
    "run": run,
    "assumptions": ["the pinned layout (pinned/layout.json, lean/TpmModel/Pinned) is the reviewed TPM 2.0 layout",
                    "class names are compared through their code points as emitted by the translator"],
}
