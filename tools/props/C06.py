"""C06 — decoding arbitrary bytes terminates with a documented outcome."""
import collections
import random

import canon
import core
import decsuite as ds

THEOREMS = ["runWalker_acct", "C10.c10_pulls_bounded", "C06.c06_pump_total", "C06.c06_pulls_le",
            "decode_nc", "decodeCommand_nc", "decodeResponse_ncx", "decodeStream_ncx", "C06.c06_tables", "C06.c06_msg_tables",
            "C06.c06_no_crash_type", "C06.c06_no_crash_command", "C06.c06_response", "C06.c06_stream"]
DOCUMENTED = {"done", "depleted", "superfluous", "raised:ValueConstraintViolatedError", "raised:SizeConstraintExceededError",
              "raised:SizeConstraintSubceededError", "raised:AnticipatedSizeConstraintExceededError"}


def build(ctx, rnd, L, M):
    import gen as gen_mod
    cases = []
    n_types = [k for k in L["order"] if L["types"][k]["kind"] != "union"]
    msgs = core.corpus_messages()
    pool = [c for _, c, _ in msgs] + [r for _, _, r in msgs]
    per = 6 if ctx.tier == "quick" else 40
    for key in n_types:
        for _ in range(per):
            m = rnd.random()
            if m < 0.35:
                data = bytes(rnd.choice([0, 0, 1, 2, 4, 0x0b, 0x10, 0x20, 0x80, 0xff, rnd.randrange(256)])
                             for _ in range(rnd.choice([0, 1, 2, 3, 4, 6, 8, 12, 20, 40, 100])))
            elif m < 0.7:
                b = rnd.choice(pool)
                i = rnd.randrange(len(b))
                data = b[i:i + rnd.choice([2, 4, 8, 16, 40, 100, 400])]
            else:
                r = M.G.gen(key)
                data = bytearray(r[1]) if r else bytearray()
                for _ in range(rnd.choice([1, 1, 2, 3])):
                    if data:
                        data[rnd.randrange(len(data))] = rnd.choice([0, 1, 0xff, rnd.randrange(256)])
                data = bytes(data)
            cases.append(ds.Case(key, None, False, data, "struct_random"))
    ccs = M.ccs
    nmsg = 1500 if ctx.tier == "quick" else 20000

    def mutate(b):
        b = bytearray(b)
        for _ in range(rnd.choice([1, 1, 1, 2, 3])):
            m = rnd.random()
            if m < 0.5 and b:
                i = rnd.randrange(len(b))
                b[i] = rnd.choice([0, 1, 2, 0xff, rnd.randrange(256), (b[i] + 1) % 256, (b[i] - 1) % 256, b[i] ^ (1 << rnd.randrange(8))])
            elif m < 0.7 and b:
                del b[rnd.randrange(len(b)):]
            elif m < 0.85:
                b += bytes(rnd.randrange(256) for _ in range(rnd.choice([1, 2, 5])))
            elif b:
                del b[rnd.randrange(len(b))]
        return bytes(b)
    for _ in range(nmsg):
        f, c, r = rnd.choice(msgs)
        cc = int.from_bytes(c[6:10], "big")
        k = rnd.random()
        if k < 0.3:
            cases.append(ds.Case("Command", None, False, mutate(c), "cmd_mutated"))
        elif k < 0.55:
            cases.append(ds.Case("Response", cc, rnd.random() < 0.2, mutate(r), "rsp_mutated"))
        elif k < 0.7:
            cases.append(ds.Case("Response", rnd.choice(ccs), rnd.random() < 0.3, r, "rsp_wrong_cc"))
        elif k < 0.8:
            cases.append(ds.Case("Stream", None, False, mutate(c + r), "stream_mutated"))
        elif k < 0.9:
            pr = M.pair()
            if pr:
                (cv, cb, ci), (rv, rb, ri) = pr
                cases.append(ds.Case("Command", None, False, mutate(cb), "gen_cmd_mutated"))
                cases.append(ds.Case("Response", ci["cc"], bool(ri.get("encrypt")), mutate(rb), "gen_rsp_mutated"))
        else:
            data = bytes(rnd.randrange(256) for _ in range(rnd.choice([0, 1, 5, 10, 12, 30, 100])))
            cases.append(ds.Case(rnd.choice(["Command", "Response", "Stream"]), rnd.choice(ccs), False, data, "msg_random"))
    # every command code x flag for responses, on structured near-valid bytes
    for cc in ccs:
        for enc in (False, True):
            r = M.response(cc, nsess=rnd.choice([0, 1, 2]), encrypt=False)
            if r:
                cases.append(ds.Case("Response", cc, enc, r[1] if rnd.random() < 0.5 else mutate(r[1]), "rsp_flag"))
        # sessions requesting decryption / response encryption regardless of the command's parameters (also for commands whose
        # parameter area does not start with a TPM2B), unmutated and mutated
        c = M.command(cc, nsess=rnd.choice([1, 2]), decrypt=rnd.random() < 0.6, encrypt=rnd.random() < 0.4)
        if c:
            cases.append(ds.Case("Command", None, False, c[1] if rnd.random() < 0.4 else mutate(c[1]), "cmd_gen_mutated"))
    # layout drift (the failing-input search when the tables no longer are the pinned ones and a table obligation breaks): every
    # integer whose validity for a primitive type changed against the pinned layout is written into every field of that type of a
    # generated encoding of every structure (seed C06i: an algorithm added to the value tables without its `_list_size` entry)
    import canon
    import msggen as _mg
    try:
        G = gen_mod.load_layout("generated")
    except Exception:  # noqa
        G = L

    def _vals(pr):
        out = set()
        for it in pr["valid"]:
            if it["k"] in ("range", "named"):
                out |= set(range(it["lo"], min(it["hi"], it["lo"] + 64))) | {it["hi"] - 1}
            elif it["k"] in ("member", "int"):
                out.add(it["v"])
        return out
    drift = {}
    for pn, pr in G["prims"].items():
        old = L["prims"].get(pn)
        if old is None or old["valid"] != pr["valid"]:
            d = (_vals(pr) ^ _vals(old)) if old else _vals(pr)
            if d:
                drift[pn] = sorted(d)[:40]
    if drift:
        for key in n_types:
            r = M.G.gen(key)
            if not r or not r[1]:
                continue
            lines = canon.impl_dec("S", key, None, False, r[1])
            for off, w, path, pn in _mg.value_field_positions(lines, L):
                for x in drift.get(pn, []):
                    cases.append(ds.Case(key, None, False, _mg.put(r[1], off, w, x), "layout_drift"))
    for c in cases:
        # (one response in seven keeps NO command code - the default of Binary.marshal: seed C06m turned the missing-layout error of
        # a successful response without command code into a TypeError)
        if c.tname == "Response" and c.cc is None and rnd.random() > 1 / 7:
            c.cc = rnd.choice(ccs)
    # the shortest successful / failed responses, with and without sessions, without command code
    for hx in ("80010000000a00000000", "80020000000a00000000", "80010000000a00000101", "80010000000e0000000000000000", "8001000000090000000000"):
        cases.append(ds.Case("Response", None, False, bytes.fromhex(hx), "rsp_no_cc"))
    return cases


def run(ctx, replay_case):
    import gen
    import msggen
    rnd = random.Random(ctx.seed)
    L = gen.load_layout("pinned")
    M = msggen.MsgGen(L, rnd)
    cases = build(ctx, rnd, L, M)
    res = ds.run_both(cases, "S")
    impl, model = res["S"]
    ds.correspondence_violation(ctx, "DEC strict (arbitrary bytes)", cases, "S", impl, model)
    outs = collections.Counter()
    nbad = 0
    for c, b in zip(cases, impl):
        o = ds.outcome(b)
        outs[o] += 1
        pulls_ok = all(ds.pulls_of(l) <= len(c.data) for l in ds.events_of(b))
        if o not in DOCUMENTED or not pulls_ok:
            nbad += 1
            site = canon.crash_site("S", c.tname, c.cc, c.enc, c.data) if o.startswith("crash") else None
            sig = f"crash:{site[0]}:{site[1]}" if site else f"outcome:{o}"
            if len([v for v in ctx.violations if v.get("signature") == sig]) >= 2:
                continue
            ctx.violations.append({"kind": "concrete", "signature": sig,
                                   "what": f"strict decoding of {c.tname} ended with an undocumented outcome: {o}" + (f" in {site[1]}" if site else ""),
                                   "replay": {**c.replay("S"), "outcome": b[-1], "site": site}})
    # keep the shortest replay per signature
    ctx.stats.update({
        "evaluations": len(cases), "distinct_nontrivial": len({(c.tname, c.cc, c.enc, c.data) for c in cases if c.data}),
        "rule": "arbitrary bytes: small-alphabet random strings, slices of corpus packets decoded as the wrong type, mutated "
                "well-formed encodings for every non-union type; mutated corpus and generated commands/responses/streams, responses "
                "under every command code and both encryption flags; outcome class must be done / depleted / superfluous / one of the "
                "four constraint errors and pulls <= input length",
        "samples": [c.replay("S") for c in cases[:: max(1, len(cases) // 5)]][:5],
        "correspondence": {"ops": len(cases)},
        "distribution": {"kinds": ds.kinds_distribution(cases), "outcomes": dict(outs), "undocumented": nbad},
    })


PROP = {"targets": ["TpmProofs.Props.C06"], "module": "TpmProofs.Props.C06", "theorems": THEOREMS, "run": run,
        "assumptions": ["absence of internal errors is monitored on the implementation and tied to the model (whose crash outcomes are explicit) by "
                        "correspondence; termination and the pull bound are by construction / theorem"]}
