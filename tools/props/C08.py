"""C08 — warn mode reports problems as warnings and keeps decoding."""
import collections
import random

import canon
import core
import decsuite as ds
import gen
import msggen

THEOREMS = ["C07.c07_prim", "C06.c06_pump_total", "C08.c08_skip_exceeded", "C08.c08_pad_subceeded",
            "WI.bind", "owner_wi", "bytes_no_own", "decode_wi", "sizedLoop_wi", "decodeCommand_wm", "decodeResponse_wm", "decodeStream_wm",
            "runWalker_wm", "C08.c08_no_escape_msg", "C08.c08_no_escape_type", "runWalker_mrel",
            "runWalker_acctw", "ownCatch_acctw", "assertDoneSC_acctw", "C08.c08_tiling",
            # warn mode never ends in an internal error (WarnNC.lean, Props/C08N.lean)
            "WC.bind", "owner_wc", "decode_wa", "sizedLoop_wc", "decodeCommand_cm", "decodeResponse_rm", "decodeStream_ncxw",
            "runWalker_ncxw", "decode_pi", "decodeCommand_pi", "decodeResponse_pi",
            "C08.c08_warn_no_crash_type", "C08.c08_warn_no_crash_command", "C08.c08_warn_crash_msg", "C08.c08_warn_outcomes",
            # every out-of-range value is shown, then reported, directly and exactly once (ValueWarn.lean, Props/C08V.lean)
            "Annot.append", "readPrim_vw", "decode_vw", "decodeCommand_vw", "decodeResponse_vw", "decodeStream_vw", "runWalker_vw",
            "Annot.warning_follows", "Annot.offender_warned", "C08.c08_value_tables", "C08.c08_annotated",
            "C08.c08_value_warning_follows_its_field", "C08.c08_offending_field_is_warned",
            # warn mode = the lenient field-by-field interpretation + the value warnings (Lenient.lean, Props/C08L.lean)
            "Sim.bind", "readPrim_sim", "decode_sim", "decodeCommand_sim", "decodeResponse_sim", "decodeStream_sim", "runWalker_sim",
            "C08.c08_lenient", "C08.c08_lenient_object", "C08.c08_lenient_events", "C08.c08_lenient_only_value_warnings",
            "C08.relaxed_tables_wf", "C08.c08_lenient_command_iff", "C08.c08_lenient_response_iff"]


def allowed_escape(block):
    """the two exceptions the statement allows: unknown command code, union selector that selects no member"""
    r = block[-1]
    if not r.startswith("R raised ValueConstraintViolatedError"):
        return False
    kv = dict(t.split("=", 1) for t in r.split(" ")[3:] if "=" in t)
    # (a) the message's own command code has no layouts: raised at `.commandCode` of the message, not at an ordinary TPM_CC field
    # (b) a union selector that selects no member
    return kv.get("path") == ".commandCode" or kv.get("type", "").startswith("TPMU")


def tiling_problem(case, block, L):
    """walk the warn-mode events over the input: every field's bytes must be the next input bytes, except that after
    a reported overrun/shortfall of a sized region decoding resumes at the end that region's size field declares"""
    data = case.data
    pos = 0
    msg_start = 0
    region_start = {}       # path of size field -> offset where its region starts
    pending_tpm2b = None
    evs = ds.events_of(block)
    for i, l in enumerate(evs):
        p = l.split(" ")
        if p[0] == "M":
            path, ty, val = p[2], p[3], p[4]
            if val == "...":
                if path == "." and ty in ("Command", "Response"):
                    msg_start = pos
                pending_tpm2b = path if ty.startswith("TPM2B") else None
                continue
            if ty not in L["prims"]:
                return f"event {path} carries a value of type {ty}, which is no primitive type of the pinned layout"
            w = L["prims"][ty]["size"]
            chunk = data[pos:pos + w]
            if len(chunk) < w:
                return f"field {path} is shown although only {len(chunk)} of its {w} bytes exist at offset {pos}"
            signed = L["prims"][ty]["signed"]
            if int.from_bytes(chunk, "big", signed=signed) != int(val):
                return f"field {path}={val} is not the next input bytes at offset {pos} ({chunk.hex()})"
            pos += w
            last = path.rsplit(".", 1)[-1]
            if path.count(".") == 1 and last in ("commandSize", "responseSize"):
                region_start[path] = msg_start
            elif path.count(".") == 1 and last in ("authSize", "parameterSize"):
                region_start[path] = pos
            elif pending_tpm2b is not None and path.rsplit(".", 1)[0] == (pending_tpm2b if pending_tpm2b != "." else ""):
                region_start[path] = pos
            pending_tpm2b = None
        else:
            cls = p[2]
            kv = dict(t.split("=", 1) for t in p[3:] if "=" in t)
            if cls in ("SizeConstraintExceededError", "SizeConstraintSubceededError"):
                cp = kv["cpath"]
                if cp not in region_start:
                    return f"{cls} names size field {cp} which was not seen before"
                end = region_start[cp] + int(kv["max"])
                nxt = evs[i + 1].split(" ") if i + 1 < len(evs) else []
                if cls == "SizeConstraintSubceededError" and len(nxt) > 2 and nxt[0] == "W" and \
                        nxt[2] == "SizeConstraintExceededError" and f"violator={cp}" in nxt:
                    # the padding of this region overruns an enclosing region: that region's end is where decoding resumes
                    continue
                if end < pos and cls == "SizeConstraintSubceededError":
                    return f"shortfall of {cp} reported although its region already ended at {end} (now at {pos})"
                pos = max(pos, end) if end <= len(data) else len(data)
    r = block[-1]
    if r.startswith("R done"):
        if pos != len(data):
            return f"decoding ended at offset {pos} of {len(data)} without reporting the rest"
    elif r.startswith("R superfluous"):
        rest = r.split("rest=")[1].split(" ")[0]
        if data[pos:].hex() != rest:
            return f"surplus reported as {rest[:40]} but the bytes after the last field/region are {data[pos:].hex()[:40]}"
    return None


def run(ctx, replay_case):
    from props import C07
    rnd = random.Random(ctx.seed)
    L, cases = C07.build_inputs(ctx, rnd)
    cases = [c for c in cases if not c.kind.startswith("wf_")]
    # exhaustive small world: every short string over a small alphabet read as nested size-prefixed / counted types
    cases += ds.small_world(ctx.tier)
    res = ds.run_both(cases, "W")
    wi, wm = res["W"]
    ds.correspondence_violation(ctx, "DEC warn", cases, "W", wi, wm)
    # the lenient interpretation (Lean: strict decoding under the relaxed tables, driver op DECL) on every input: whenever it accepts,
    # the implementation's warn-mode decode must return the same object and, its value warnings removed, show exactly the lenient events
    # (this ties the model function the theorems of Props/C08L.lean speak about to the implementation)
    len_model = core.run_model([f"DECL {c.tname} {'-' if c.cc is None else c.cc} {1 if c.enc else 0} {c.data.hex() or '-'}" for c in cases])
    n_len = n_lenbad = 0
    for c, w, lm in zip(cases, wi, len_model):
        if not lm or not lm[-1].startswith("R done"):
            continue
        n_len += 1
        got = [l for l in w if not (l.startswith("W ") and "ValueConstraintViolatedError" in l)]
        if got != lm:
            n_lenbad += 1
            if n_lenbad <= 2:
                k, e, g = __import__("suites").first_diff(lm, got)
                ctx.violations.append({"kind": "concrete", "signature": "lenient",
                                       "what": f"the lenient interpretation accepts this {c.tname}, but the warn-mode decode minus its value warnings is not the lenient reading (line {k})",
                                       "replay": {**c.replay("W"), "expected": (e or "")[:200], "observed": (g or "")[:200]}})
    G = gen.Gen(L, rnd)
    stats = collections.Counter()
    stats["lenient_accepts"] = n_len
    stats["lenient_mismatch"] = n_lenbad
    for c, w in zip(cases, wi):
        o = ds.outcome(w)
        stats["outcome:" + o] += 1
        v = None
        sig = None
        if o.startswith("crash") or (o.startswith("raised") and not allowed_escape(w)):
            site = canon.crash_site("W", c.tname, c.cc, c.enc, c.data) if o.startswith("crash") else None
            v = f"warn-mode decoding of {c.tname} aborted: {w[-1][:120]}" + (f" in {site[1]}" if site else "")
            sig = f"escape:{site[0]}:{site[1]}" if site else f"escape:{o}"
        else:
            t = tiling_problem(c, w, L)
            if t:
                v, sig = "tiling: " + t, "tiling:" + t.split(" ")[0]
            else:
                ws = [l for l in ds.events_of(w) if l.startswith("W ")]
                if ws and all("ValueConstraintViolatedError" in l for l in ws) and o == "done":
                    stats["value_only"] += 1
                    evs = ds.events_of(w)
                    for i, l in enumerate(evs):
                        p = l.split(" ")
                        if p[0] == "M" and p[4] != "..." and p[3] in L["prims"]:
                            invalid = not G.is_valid(p[3], int(p[4]))
                            nxt = evs[i + 1] if i + 1 < len(evs) else ""
                            warned = nxt.startswith("W ") and f"path={p[2]} " in nxt and f" value={p[4]} " in nxt + " "
                            if invalid != warned:
                                v = f"value-only run: field {p[2]}={p[4]} ({p[3]}) is {'out of range' if invalid else 'valid'} but is {'' if warned else 'not '}followed by its warning"
                                sig = "value-only"
                                break
        if v:
            stats["violation"] += 1
            if len([x for x in ctx.violations if x.get("signature") == sig]) < 2:
                ctx.violations.append({"kind": "concrete", "signature": sig, "what": v,
                                       "replay": {**c.replay("W"), "result": w[-1][:200]}})
        else:
            stats["ok"] += 1
    ctx.stats.update({
        "evaluations": len(cases), "distinct_nontrivial": len({(c.tname, c.cc, c.enc, c.data) for c in cases if c.data}),
        "rule": "malformed inputs (size faults at every size field, value faults, truncations, surplus, mutated and arbitrary bytes) for "
                "all types and command codes, decoded in warn mode by the real code; no exception may escape except the two allowed value "
                "errors; tiling: every shown field equals the next input bytes, after an exceeded/subceeded warning the position is the "
                "end the named size field declares, the rest is the reported surplus; value-only runs: a warning directly after each and "
                "only each out-of-range field (pinned declared sets)",
        "samples": [c.replay("W") for c in cases[:: max(1, len(cases) // 5)]][:5],
        "correspondence": {"ops": len(cases)},
        "distribution": {"kinds": ds.kinds_distribution(cases), "results": dict(stats)},
    })


PROP = {"targets": ["TpmProofs.Props.C08W", "TpmProofs.Props.C08N", "TpmProofs.Props.C08V", "TpmProofs.Props.C08L"],
        "module": ["TpmProofs.Props.C08N", "TpmProofs.Props.C08V", "TpmProofs.Props.C08L"],
        "checker_modules": ["TpmProofs.Props.C08W", "TpmProofs.Props.C08N", "TpmProofs.Props.C08V", "TpmProofs.Props.C08L"], "theorems": THEOREMS, "run": run,
        "assumptions": ["no size error escapes, no internal error but the known assertion (every layout of /repo, every command code, streams, every input), "
                        "tiling and the first-problem relation are theorems about the model; the model is tied to the implementation by the warn-mode "
                        "correspondence of this check and the same statements are monitored on the implementation's own observations",
                        "the value-only clause is a theorem: the lenient interpretation is strict decoding under the tables with every declared set widened "
                        "to the field's width (MsgTables.relax); whenever it accepts, warn mode returns the same object and its trace minus the value warnings "
                        "is the lenient trace (Lenient.lean), each value warning directly behind its field (ValueWarn.lean)"]}
