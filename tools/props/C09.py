"""C09 — a command/response stream decodes as its messages decoded one by one."""
import collections
import random

import core
import decsuite as ds
import gen
import msggen

THEOREMS = ["C09.c09_every_stream", "C09.c09_iteration_total", "C09.c09_every_stream_run", "C09.decodeStream_none", "stream_is_iteration", "C09.c09_stream_of_arbitrary_messages", "C09.c09_stream_run", "C09.chain_inv", "C09.c09_first_failing_command", "C09.c09_first_failing_response", "stream_chain_then", "stream_fails_at_command", "stream_fails_at_response", "stream_is_chain", "decode_sh", "decodeCommand_sh", "decodeResponse_sh",
            "decodeStream_acct", "C09.c09_stream_step", "C09.c09_stream_end", "decodeStream_ok", "specStream_inner", "stream_run",
            "MsgWF.c09_stream", "MsgWF.c09_stream_cons", "MsgWF.c01_command", "MsgWF.c01_response",
            "decodeStream_sound", "AcceptIff.stream_accept_iff",
            "C09.c09_objects", "C09.c09_objects_of_accepted", "e2oStream_groups", "separate_stream", "cmd_events_to_obj", "rsp_events_to_obj"]


def run(ctx, replay_case):
    rnd = random.Random(ctx.seed)
    L = gen.load_layout("pinned")
    M = msggen.MsgGen(L, rnd)
    streams = []
    nstreams = 400 if ctx.tier == "quick" else 4000
    ccs = list(M.ccs)
    for i in range(nstreams):
        n = rnd.choice([1, 1, 2, 2, 3, 4]) if ctx.tier == "quick" else rnd.choice([1, 2, 3, 4, 6, 8])
        parts = []
        for j in range(n):
            pr = M.pair(ccs[(i * 7 + j) % len(ccs)] if rnd.random() < 0.7 else None)
            if pr is None:
                continue
            (cv, cb, ci), (rv, rb, ri) = pr
            parts.append(("Command", None, False, cb, cv))
            parts.append(("Response", ci["cc"], bool(ci["encrypt"]) and ri.get("rc", 0) == 0 and bool(ri.get("encrypt")) or
                          (bool(ci["encrypt"]) if ri.get("rc", 0) == 0 else bool(ci["encrypt"])), rb, rv))
        if parts and rnd.random() < 0.2:
            parts = parts[:-1]          # a stream may end after a command
        kind = "stream_ok"
        if parts and rnd.random() < 0.25:
            # corrupt one message
            j = rnd.randrange(len(parts))
            t, cc, enc, b, v = parts[j]
            bb = bytearray(b)
            k = rnd.randrange(len(bb))
            bb[k] ^= 1 << rnd.randrange(8)
            parts[j] = (t, cc, enc, bytes(bb), None)
            kind = "stream_corrupt"
        streams.append((kind, parts))
    cases = [ds.Case("Stream", None, False, b"".join(p[3] for p in parts), kind, None, {"parts": parts}) for kind, parts in streams]
    res = ds.run_both(cases, "S")
    simpl, smodel = res["S"]
    ds.correspondence_violation(ctx, "DEC strict (streams)", cases, "S", simpl, smodel)
    # per-message decodes.  Well-formed streams: boundaries, command code and encrypt flag from the generator (the stated rule,
    # independent of the decoder).  Corrupted streams: the corruption may hit a size field, the command code or a session
    # attribute, so boundaries, code and flag are taken from the bytes themselves, message after message (SEQ).
    singles = []
    index = []
    for ci_, c in enumerate(cases):
        if c.kind != "stream_ok":
            continue
        off = 0
        for j, (t, cc, enc, b, v) in enumerate(c.meta["parts"]):
            singles.append(ds.Case(t, cc, enc, b, "single"))
            index.append((ci_, j, off))
            off += len(b)
    sres = core.run_impl([s.op("S") for s in singles])
    per_stream = collections.defaultdict(list)
    for (ci_, j, off), s, b in zip(index, singles, sres):
        per_stream[ci_].append((j, off, s, b))
    corrupt = [ci_ for ci_, c in enumerate(cases) if c.kind != "stream_ok"]
    seqres = dict(zip(corrupt, core.run_impl([("SEQ", cases[ci_].data) for ci_ in corrupt])))
    nbad = 0
    for ci_, c in enumerate(cases):
        sb = simpl[ci_]
        exp = []
        exp_r = "R done obj=None"
        if c.kind == "stream_ok":
            for j, off, s, b in per_stream[ci_]:
                evs = [ds.strip_pulls(l) for l in ds.events_of(b)]
                exp += evs
                if not b[-1].startswith("R done"):
                    exp_r = b[-1]
                    break
        else:
            sq = seqres[ci_]
            exp = sq[:-1]
            exp_r = "R done obj=None" if sq[-1] == "R end" else sq[-1]
        got = [ds.strip_pulls(l) for l in ds.events_of(sb)]
        # errors carry the command code decoded so far in the *stream*; compare class and details, not cc of depleted
        def norm(r):
            return r.split(" cc=")[0] if r.startswith("R depleted") else r
        if got != exp or norm(sb[-1]) != norm(exp_r):
            nbad += 1
            k, e, g = __import__("suites").first_diff(exp + [norm(exp_r)], got + [norm(sb[-1])])
            ctx.violations.append({"kind": "concrete", "signature": f"stream:{c.kind}",
                                   "what": f"stream decode differs from the messages decoded one by one (at line {k})",
                                   "replay": {**c.replay("S"), "expected": e, "observed": g,
                                              "messages": [(p[0], p[1], p[2], p[3].hex()) for p in c.meta["parts"]]}})
    # the same pairing in warn mode, on streams that end in a way the byte pump has to get right (seed C09e): the empty stream, and
    # streams whose LAST message declares k bytes more than its layout needs, followed by k zero bytes — in warn mode the padding is
    # skipped with a warning, so the stream ends on a byte that produces no event of its own.  Expected: the concatenation of the
    # messages decoded one by one in the same mode, and a clean end.
    wcases = [ds.Case("Stream", None, False, b"", "stream_empty", None, {"parts": []})]
    okstreams = [c for c in cases if c.kind == "stream_ok" and c.meta["parts"]]
    for c in (okstreams if ctx.tier != "quick" else okstreams[:120]):
        parts = list(c.meta["parts"])
        t, cc, enc, b, v = parts[-1]
        k = rnd.choice([1, 2, 2, 3, 7])
        parts[-1] = (t, cc, enc, b[:2] + (len(b) + k).to_bytes(4, "big") + b[6:] + bytes(k), None)
        wcases.append(ds.Case("Stream", None, False, b"".join(p[3] for p in parts), "stream_padded_last", None, {"parts": parts}))
        if rnd.random() < 0.3:
            wcases.append(ds.Case("Stream", None, False, c.data, "stream_ok_warn", None, {"parts": list(c.meta["parts"])}))
    wres = {m: core.run_impl([c.op(m) for c in wcases if m == "W" or c.kind == "stream_empty"]) for m in "SW"}
    wsingles, windex = [], []
    for wi, c in enumerate(wcases):
        for j, (t, cc, enc, b, v) in enumerate(c.meta["parts"]):
            wsingles.append(ds.Case(t, cc, enc, b, "single"))
            windex.append(wi)
    wsres = core.run_impl([x.op("W") for x in wsingles])
    wexp = collections.defaultdict(list)
    wend = {}
    for wi, b in zip(windex, wsres):
        if wi in wend:
            continue                      # a message decoded on its own did not complete: the stream stops there, the same way
        wexp[wi] += [ds.strip_pulls(l) for l in ds.events_of(b)]
        if not b[-1].startswith("R done"):
            wend[wi] = b[-1].split(" cc=")[0] if b[-1].startswith("R depleted") else b[-1]
    nwbad = 0
    for mode, blocks in wres.items():
        these = [(wi, c) for wi, c in enumerate(wcases) if mode == "W" or c.kind == "stream_empty"]
        for (wi, c), sb in zip(these, blocks):
            got = [ds.strip_pulls(l) for l in ds.events_of(sb)]
            want_r = wend.get(wi, "R done obj=None")
            got_r = sb[-1].split(" cc=")[0] if sb[-1].startswith("R depleted") else sb[-1]
            if got != wexp[wi] or got_r != want_r:
                nwbad += 1
                if nwbad <= 3:
                    k, e, g = __import__("suites").first_diff(wexp[wi] + [want_r], got + [got_r])
                    ctx.violations.append({"kind": "concrete", "signature": f"stream:{c.kind}",
                                           "what": f"{'warn' if mode == 'W' else 'strict'}-mode decode of a stream ({c.kind}) differs from its messages decoded one by one (at line {k})",
                                           "replay": {**c.replay(mode), "expected": e, "observed": g,
                                                      "messages": [(p[0], p[1], p[2], p[3].hex()) for p in c.meta["parts"]]}})
    # the hypothesis of the stream theorem (`specStream … = some _`) holds of the well-formed streams: the Lean specification, given
    # the exchanges the model splits the stream into, dictates exactly the stream's bytes and as many events as the implementation emits
    okc = [c for c in cases if c.kind == "stream_ok"]
    msp = core.run_model([f"MSPEC Stream - 0 {c.data.hex() or '-'}" for c in okc])
    nspec = 0
    idx = {id(c): i for i, c in enumerate(cases)}
    for c, sp in zip(okc, msp):
        im = simpl[idx[id(c)]]
        nev = sum(1 for l in im if l.startswith("M "))
        if not c.data:
            continue
        if im[-1].startswith("R done") and sp != [f"MS ok bytes={len(c.data)} events={nev}"]:
            nspec += 1
            if nspec <= 3:
                ctx.violations.append({"kind": "correspondence",
                                       "what": "the stream specification does not dictate what the implementation decodes from a well-formed stream",
                                       "replay": {"correspondence": "MSPEC Stream", **c.replay("S"), "model": sp[0] if sp else "<none>",
                                                  "impl": f"{len(c.data)} bytes, {nev} events, {im[-1][:80]}"}})
    # objects: one per message, in order
    objs = core.run_impl([("OBJS", c.data) for c in okc])
    nobj = 0
    for c, ob in zip(okc, objs):
        ccs_ = []
        for p in c.meta["parts"]:
            ccs_.append(dict(p[4][3])["commandCode"][2] if p[0] == "Command" else ccs_[-1])
        # type, command code and the whole object (the generator's value tree, rendered like the implementation's object)
        exp = [f"O {p[0]} cc={cc_} {gen.obj_str(p[4])}" for p, cc_ in zip(c.meta["parts"], ccs_)]
        if ob != exp:
            nobj += 1
            k, e, g = __import__("suites").first_diff(exp, ob)
            ctx.violations.append({"kind": "concrete", "signature": "stream:objects",
                                   "what": f"events_to_objs of a decoded stream is not one object per message in order (message {k})",
                                   "replay": {**c.replay("S"), "expected": e[:300], "observed": g[:300]}})
    # events_to_objs: model (`separateEvents` + `e2oStream`) vs implementation on the events of every stream (strict and warn
    # mode, corrupted streams included) and of truncated streams (partial event lists)
    eops = []
    for c in cases:
        eops.append(("E2OS", "S", c.data))
        eops.append(("E2OS", "W", c.data))
        if c.data:
            eops.append(("E2OS", rnd.choice("SW"), c.data[:rnd.randrange(len(c.data))]))
    eimpl = core.run_impl(eops)
    emodel = core.run_model([core.op_line(o) for o in eops])
    ebad = [i for i in range(len(eops)) if eimpl[i] != emodel[i]]
    if ebad:
        i = min(ebad, key=lambda j: len(eops[j][2]))
        k, e, g = __import__("suites").first_diff(emodel[i], eimpl[i])
        ctx.violations.append({"kind": "correspondence", "what": "events_to_objs model and implementation disagree",
                               "replay": {"correspondence": "E2OS", "mode": {"S": "strict", "W": "warn"}[eops[i][1]], "hex": eops[i][2].hex(),
                                          "line": k, "model": (e or "")[:300], "impl": (g or "")[:300], "disagreements": len(ebad)}})
    e2os_kinds = collections.Counter(("raises" if (l and l[-1] == "O crash") else "objects") for l in eimpl)
    lens = collections.Counter(len(c.meta["parts"]) for c in cases)
    ctx.stats.update({
        "evaluations": len(cases) + len(singles) + len(okc),
        "distinct_nontrivial": len({c.data for c in cases if len(c.meta["parts"]) > 1}),
        "rule": "streams of 1..n generated command/response pairs over all command codes (sessions, encryption, failed responses; "
                "optionally ending after a command; 25% with one corrupted message): stream events == concatenation of the per-message "
                "decodes (response under the preceding command's code and encrypt flag), first failing message's events and error; "
                "events_to_objs == one object per message; non-trivial = more than one message",
        "samples": [{"messages": len(c.meta["parts"]), "hex": c.data.hex()[:120]} for c in cases[:: max(1, len(cases) // 5)]][:5],
        "correspondence": {"ops": len(cases) + len(eops), "stream_spec_ops": len(okc), "events_to_objs_ops": len(eops), "stream_spec_rejections_or_mismatches": nspec},
        "distribution": {"kinds": ds.kinds_distribution(cases), "messages_per_stream": {str(k): v for k, v in sorted(lens.items())},
                         "stream_failures": nbad, "warn_mode_end_cases": ds.kinds_distribution(wcases), "warn_mode_end_failures": nwbad, "object_failures": nobj, "events_to_objs_results": dict(e2os_kinds),
                         "outcomes": dict(collections.Counter(ds.outcome(b) for b in simpl))},
    })


PROP = {"targets": ["TpmProofs.Props.C09E", "TpmProofs.Props.C09S"], "module": ["TpmProofs.Props.C09E", "TpmProofs.Props.C09S"],
        "checker_modules": ["TpmProofs.Props.C09E", "TpmProofs.Props.C09S"], "theorems": THEOREMS, "run": run,
        "assumptions": ["the pairing is a theorem for well-formed exchanges with exact observations (MsgWF.c09_stream) and, in either mode, for ARBITRARY messages "
                        "whose own decodes complete and consume exactly their bytes (C09.c09_stream_of_arbitrary_messages, from the shift equation of "
                        "TpmProofs/Shift.lean); streams in which a message's own decode fails or runs out of input are monitored + tied by correspondence",
                        "'one object per message' (events_to_objs) is a theorem for every cleanly ending stream (C09.c09_objects) over the model "
                        "`separateEvents`/`e2oStream`, tied by the E2OS correspondence; for streams that raise it is tied by correspondence only"]}
