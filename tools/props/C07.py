"""C07 — warn mode and strict mode agree up to the first problem."""
import collections
import random

import core
import decsuite as ds
import gen
import msggen

THEOREMS = ["C07.c07_prim", "C07.c07_pump_events_mode_free", "runWalker_acct",
            "MRel.bind", "MRel.ownCatch", "MRel.msgCatch", "decode_mrel", "decodeCommand_mrel", "decodeResponse_mrel", "decodeStream_mrel",
            "runWalker_mrel", "runWalker_nw", "C07.c07_strict_ok", "C07.c07_first_problem", "C07.c07_same_stop",
            "C07.c07_strict_no_warning", "C07.c07_no_warning",
            # "for an out-of-range value the offending event is emitted first, then the warning" - at every position (Props/C08V.lean)
            "C08.c08_annotated", "C08.c08_value_warning_follows_its_field", "C08.c08_offending_field_is_warned"]


def build_inputs(ctx, rnd):
    from props import C06
    L, M, wf = ds.wellformed(rnd, ctx.tier, per_type=1 if ctx.tier == "quick" else 3, per_cc=1 if ctx.tier == "quick" else 3)
    first = core.run_impl([c.op("S") for c in wf])
    faults = []
    for c, b in zip(wf, first):
        if not ds.usable(ctx, c, b, L, ctx.stats.setdefault("inputs", {})):
            continue
        # single faults in every kind of input, streams included (a fault in an earlier message of a stream: does decoding
        # resume at the right byte of the next message?)
        sf = ds.size_faults(c, b, L, rnd, "quick")
        if c.tname == "Stream" and len(sf) > 12:
            sf = rnd.sample(sf, 12)
        faults += sf
        faults += ds.value_faults(c, b, L, rnd, ctx.tier, limit=4)
        # two faults at once: two different size fields (outer + inner region, authSize + commandSize, …), or a size and a value
        import msggen as _mg
        pos = _mg.size_field_positions(b, L)
        vpos = _mg.value_field_positions(b, L)
        for _ in range(2 if len(pos) >= 2 else 0):
            (o1, w1, v1, p1), (o2, w2, v2, p2) = rnd.sample(pos, 2)
            d = _mg.put(_mg.put(c.data, o1, w1, max(0, min((1 << (8 * w1)) - 1, v1 + rnd.choice([-2, -1, 1, 2, 5])))),
                        o2, w2, max(0, min((1 << (8 * w2)) - 1, v2 + rnd.choice([-2, -1, 1, 2, 5]))))
            if d != c.data:
                faults.append(ds.Case(c.tname, c.cc, c.enc, d, "two_size_faults", None, {"fields": [p1, p2]}))
        # the same fault in two nested regions that end at the same byte (a last parameter's TPM2B inside commandSize, a buffer
        # inside its structure's TPM2B, …): both too long with the padding supplied, or both too short - two warnings of one
        # kind arrive back to back, typically while a byte buffer is being folded by the printer
        def _end(o, w, v, pth):
            return (o - 2) + v if pth.endswith(("commandSize", "responseSize")) else o + w + v
        same = [(a, b2) for i, a in enumerate(pos) for b2 in pos[i + 1:] if _end(*a) == _end(*b2) and _end(*a) <= len(c.data)]
        # pairs whose inner region is itself a structure that ends in a further region (a buffer) come first
        deep = [(a, b2) for a, b2 in same if any(x[0] > b2[0] and _end(*x) == _end(*b2) for x in pos)]
        rest_ = [pr for pr in same if pr not in deep]
        for a, b2 in rnd.sample(deep, min(len(deep), 2)) + rnd.sample(rest_, min(len(rest_), 2)):
            k = rnd.choice([1, 2, 3])
            for sign in (1, -1):
                if min(a[2], b2[2]) + sign * k < 0 or max(a[2], b2[2]) + k + 4 >= 1 << (8 * min(a[1], b2[1])):
                    continue
                # too long: the outer region (the earlier size field) by j more than the inner one - once the inner region's
                # padding has been passed over, the outer one is still not filled
                j = rnd.choice([0, 1, 2, 4]) if sign > 0 else 0
                d = _mg.put(_mg.put(c.data, a[0], a[1], a[2] + sign * k + j), b2[0], b2[1], b2[2] + sign * k)
                if sign > 0:
                    e = _end(*a)
                    d = d[:e] + bytes(rnd.randrange(256) for _ in range(k + j)) + d[e:]
                faults.append(ds.Case(c.tname, c.cc, c.enc, d, "nested_same_fault", None, {"fields": [a[3], b2[3]]}))
        if pos and vpos:
            o1, w1, v1, p1 = rnd.choice(pos)
            o2, w2, p2, pn = rnd.choice(vpos)
            bad = _mg.invalid_values(L, pn, rnd)
            if bad and o1 != o2:
                d = _mg.put(_mg.put(c.data, o1, w1, max(0, v1 - 1)), o2, w2, rnd.choice(bad))
                faults.append(ds.Case(c.tname, c.cc, c.enc, d, "size_and_value_fault", None, {"fields": [p1, p2]}))
        n = len(c.data)
        for k in sorted(set(rnd.sample(range(n), min(n, 4)))) if n else []:
            faults.append(ds.Case(c.tname, c.cc, c.enc, c.data[:k], "truncated"))
        faults.append(ds.Case(c.tname, c.cc, c.enc, c.data + bytes([rnd.randrange(256)]), "surplus"))
    if ctx.tier == "quick" and len(faults) > 9000:
        keep = [f for f in faults if f.kind == "nested_same_fault"]
        other = [f for f in faults if f.kind != "nested_same_fault"]
        keep = rnd.sample(keep, min(len(keep), 1500))
        faults = keep + rnd.sample(other, min(len(other), 9000 - len(keep)))
    rndc = C06.build(ctx, rnd, L, M)
    if ctx.tier == "quick":
        rndc = rnd.sample(rndc, min(len(rndc), 3000))
    return L, wf + faults + rndc


def final_as_warning(block):
    """events + the final depleted/superfluous problem (a warning in warn mode, an exception in strict mode)"""
    r = block[-1]
    evs = ds.events_of(block)
    if r.startswith("R depleted") or r.startswith("R superfluous"):
        key = r.split(" obj=")[0]
        return evs, key
    return evs, None


def relation_violation(s, w):
    """None if the C07 relation holds between the strict block s and the warn block w"""
    so = ds.outcome(s)
    wo = ds.outcome(w)
    if so.startswith("crash"):
        return None  # strict mode itself failed internally (C06's subject)
    se, sfinal = final_as_warning(s)
    we, wfinal = final_as_warning(w)
    k = next((i for i, l in enumerate(we) if l.startswith("W ")), None)
    if so == "done":
        if we != se or k is not None or wo != "done":
            return "strict accepts, but warn mode does not emit the identical events without warning"
        return None
    if so in ("depleted", "superfluous"):
        if k is not None and k <= len(se):
            return "warn mode warns before the point where strict mode reports the length mismatch"
        if we[:len(se)] != se or wfinal != sfinal:
            return f"strict: {s[-1][:80]}; warn mode's events/final problem differ: {w[-1][:80]}"
        return None
    # strict raised a constraint error
    err = s[-1].split(" rem=")[0][len("R raised "):]
    if k is None:
        # warn mode raised too (unknown command code / no union member) or crashed before warning
        if wo.startswith("raised") and w[-1].split(" rem=")[0][len("R raised "):] == err and we == se:
            # the only problems warn mode cannot continue after: a command code without layouts, a selector without union member
            ty = next((f[5:] for f in err.split(" ") if f.startswith("type=")), "")
            pa = next((f[5:] for f in err.split(" ") if f.startswith("path=")), "")
            if err.startswith("ValueConstraintViolatedError") and (pa == ".commandCode" or ty.startswith("TPMU_")):
                return None
            return f"warn mode raises {err[:80]} itself instead of emitting it as a warning and continuing"
        if wo.startswith("crash") and we[:len(se)] == se[:len(we)]:
            return "known-crash"
        return f"strict raises {err[:60]}, warn mode emits no warning ({w[-1][:60]})"
    first = we[k].split(" ", 2)[2]
    if err.startswith("ValueConstraintViolatedError"):
        if we[:k - 1] != se or k == 0 or not we[k - 1].startswith("M "):
            return "value error: warn mode's events before the warning are not strict mode's events plus the offending event"
    else:
        if we[:k] != se:
            return "warn mode's events before its first warning differ from strict mode's events before raising"
    if first != err:
        return f"first warning '{first[:90]}' differs from the strict error '{err[:90]}'"
    return None


def run(ctx, replay_case):
    rnd = random.Random(ctx.seed)
    L, cases = build_inputs(ctx, rnd)
    res = ds.run_both(cases, "SW")
    (si, sm), (wi, wm) = res["S"], res["W"]
    ds.correspondence_violation(ctx, "DEC strict", cases, "S", si, sm)
    ds.correspondence_violation(ctx, "DEC warn", cases, "W", wi, wm)
    stats = collections.Counter()
    for c, s, w in zip(cases, si, wi):
        v = relation_violation(s, w)
        if ds.outcome(w) != "done" or any(l.startswith("W ") for l in w):
            pass
        else:
            if ds.outcome(s) != "done" and not ds.outcome(s).startswith("crash"):
                v = v or "warn mode emits no warning but strict mode does not accept"
        stats["known-crash" if v == "known-crash" else ("violation" if v else "ok")] += 1
        stats["strict:" + ds.outcome(s)] += 1
        if v and v != "known-crash":
            ctx.violations.append({"kind": "concrete", "signature": "modes:" + v.split(":")[0][:40],
                                   "what": v, "replay": {**c.replay("S"), "strict": s[-1][:200], "warn_result": w[-1][:200]}})
    ctx.stats.update({
        "evaluations": 2 * len(cases), "distinct_nontrivial": len({(c.tname, c.cc, c.enc, c.data) for c in cases if c.data}),
        "rule": "well-formed inputs, size/value faults, truncations, surplus, arbitrary/mutated bytes for all types and command codes; "
                "both modes on the same bytes (real code); relation: identical events up to the first problem, first warning == strict "
                "error (class, paths, limits, counted bytes, value), value errors preceded by the offending event, accept <=> no warning",
        "samples": [c.replay("S") for c in cases[:: max(1, len(cases) // 5)]][:5],
        "correspondence": {"ops": 2 * len(cases)},
        "distribution": {"kinds": ds.kinds_distribution(cases), "relation": dict(stats)},
    })


PROP = {"targets": ["TpmProofs.Props.C07", "TpmProofs.Props.C08V"], "module": ["TpmProofs.Props.C07", "TpmProofs.Props.C08V"],
        "checker_modules": ["TpmProofs.Props.C07", "TpmProofs.Props.C08V"], "theorems": THEOREMS, "run": run,
        "assumptions": ["the relation between the modes (runWalker_mrel) is a theorem about the model for every input; the model is tied to the "
                        "implementation by correspondence in both modes, and the relation is also monitored on the implementation"]}
