"""C05 — input length mismatches are reported as depleted / superfluous, never absorbed."""
import collections
import random

import core
import decsuite as ds

THEOREMS = ["C05.c05_root_path", "C05.c05_root_path_silent", "marshalRunAt_rr", "runWalkerAt_rr", "decode_map", "decodeCommand_map", "decodeResponse_map", "decodeStream_map",
            "C05.c05_superfluous_exact", "C05.c05_done_exact", "C05.take_depleted", "C05.c05_cc",
            "C05.c05_surplus_walker", "runWalker_acct",
            "TRB.bind", "take_tr", "decode_tr", "decodeCommand_tr", "decodeResponse_tr", "runWalker_tr",
            "C05.c05_truncated", "C05.c05_cut_beyond", "C05.c05_truncated_type", "C05.c05_truncated_command", "C05.c05_truncated_response",
            "C05.c05_stream_truncated", "C05.c05_stream_walker", "C05.c05_stream_silent_iff", "silent_walker_ok", "decodeStream_roots", "decodeStream_srb", "decodeStream_fuel", "SRB.bind", "SRB.boundary"]


def cc_of(events_lines):
    cc = "-"
    for l in events_lines:
        p = l.split(" ")
        if p[0] == "M" and p[1] == ".commandCode":
            cc = p[3]
    return cc


def run(ctx, replay_case):
    rnd = random.Random(ctx.seed)
    L, M, wf = ds.wellformed(rnd, ctx.tier, per_type=1 if ctx.tier == "quick" else 3, per_cc=1 if ctx.tier == "quick" else 4)
    full = core.run_impl([c.op("S") for c in wf])
    derived = []
    for c, b in zip(wf, full):
        if not b[-1].startswith("R done") or not ds.widths_ok(b, L):
            ctx.violations.append({"kind": "concrete", "signature": f"wf-rejected:{c.kind}",
                                   "what": "a well-formed input is not accepted by strict decoding",
                                   "replay": {**c.replay("S"), "result": b[-1]}})
            continue
        n = len(c.data)
        ks = range(n) if (ctx.tier == "thorough" or n <= 20) else sorted(set(rnd.sample(range(n), 20)) | {0, 1, n - 1})
        for k in ks:
            derived.append(ds.Case(c.tname, c.cc, c.enc, c.data[:k], "truncated", None, {"full": b, "cut": k, "base": c}))
        if c.tname != "Stream":
            # (long surpluses too, and whole messages as surplus: what the error carries is ALL the bytes left - seed C05l cut the
            # stored bytes to the 32 its message shows)
            for m in (1, 2, 5, rnd.choice([31, 32, 33, 48, 100, 300, 1000])):
                suffix = bytes(rnd.randrange(256) for _ in range(m)) if (rnd.random() < 0.8 or not c.data) else (c.data * (m // len(c.data) + 1))[:m]
                derived.append(ds.Case(c.tname, c.cc, c.enc, c.data + suffix, "surplus", None,
                                       {"full": b, "suffix": suffix, "base": c}))
    # the empty input, for every type
    for c in wf[:: max(1, len(wf) // 150)]:
        derived.append(ds.Case(c.tname, c.cc, c.enc, b"", "empty", None, {"full": None, "cut": 0, "base": c}))
    if ctx.tier == "quick" and len(derived) > 16000:
        derived = rnd.sample(derived, 16000)
    res = ds.run_both(derived, "S")
    impl, model = res["S"]
    ds.correspondence_violation(ctx, "DEC strict (truncations, suffixes)", derived, "S", impl, model)
    bad = collections.Counter()
    for c, b in zip(derived, impl):
        evs = [ds.strip_pulls(l) for l in ds.events_of(b)]
        if c.kind == "surplus":
            fe = [ds.strip_pulls(l) for l in ds.events_of(c.meta["full"])]
            exp_r = f"R superfluous rest={c.meta['suffix'].hex()} cc={cc_of(fe)} obj=None"
            if evs != fe or b[-1] != exp_r:
                bad["surplus"] += 1
                ctx.violations.append({"kind": "concrete", "signature": "surplus",
                                       "what": "bytes after a complete value are not reported as exactly the surplus",
                                       "replay": {**c.replay("S"), "expected": exp_r, "observed": b[-1]}})
            continue
        k = len(c.data)
        if c.kind == "empty":
            # no field can be complete; only structure events at offset 0 may precede the error
            if c.tname == "Stream":
                ok = b == ["R done obj=None"]
            else:
                ok = b[-1] == "R depleted cc=-" or (b[-1].startswith("R done") and not evs == [] and False)
                # a type whose well-formed encoding is empty (no fields) is complete on the empty input
                basefull = None
                if not ok and b[-1].startswith("R done"):
                    ok = all(l.split(" ")[3] == "..." for l in evs)
            if not ok:
                bad["empty"] += 1
                ctx.violations.append({"kind": "concrete", "signature": "empty-input",
                                       "what": "an empty input is not reported as depleted",
                                       "replay": {**c.replay("S"), "observed": b[-1]}})
            continue
        fe_lines = ds.events_of(c.meta["full"])
        fe = [ds.strip_pulls(l) for l in fe_lines]
        offs = ds.event_offsets(fe_lines, L)
        expected = [e for e, o in zip(fe, offs) if o <= k]
        boundary = False
        if c.tname == "Stream":
            parts = c.meta["base"].meta["parts"]
            boundary = k in (0, parts[0])
            if expected and expected[-1].startswith("M . ") and offs[len(expected) - 1] == k:
                expected = expected[:-1]
        exp_r = "R done obj=None" if boundary else f"R depleted cc={cc_of(expected)}"
        if evs != expected or b[-1] != exp_r:
            bad["truncated"] += 1
            ctx.violations.append({"kind": "concrete", "signature": "truncated",
                                   "what": f"input cut at {k}: expected {len(expected)} events then '{exp_r}', observed {len(evs)} events then '{b[-1]}'",
                                   "replay": {**c.replay("S"), "whole": c.meta["base"].data.hex()}})
    # the same decodes below a caller-supplied root path (`root_path=`, as the `Canonical` facade passes it): length mismatches,
    # the clean end of a stream at a message boundary and the command code carried by the errors must not depend on where the
    # caller roots the paths.  The implementation is compared with itself (events and outcome, root prefix stripped).
    rooted = [c for c in derived if c.kind != "truncated" or c.meta["cut"] % 3 == 0]
    rooted = (wf[:: max(1, len(wf) // 400)] + rooted)[: (1500 if ctx.tier == "quick" else 20000)]
    rbase = core.run_impl([c.op("S") for c in rooted])
    rroot = core.run_impl([("DECROOT", "S", c.tname, c.cc, c.enc, c.data, ".ROOTQ") for c in rooted])
    for c, b0, b1 in zip(rooted, rbase, rroot):
        if b0 != b1:
            bad["rooted"] += 1
            if bad["rooted"] <= 3:
                k, e, g = __import__("suites").first_diff(b0, b1)
                ctx.violations.append({"kind": "concrete", "signature": f"root-path:{c.tname}:{b1[-1].split(' ')[1] if b1 else '-'}",
                                       "what": f"decoding a {c.tname} ({c.kind}) below a caller-supplied root path differs from decoding it at the default root (line {k})",
                                       "replay": {**c.replay("S"), "root_path": ".ROOTQ", "expected": e, "observed": g}})
    # ... and the model below the same root (`marshalRunAt`, driver op DECR; theorem C05.c05_root_path: it is the default-root
    # observation re-rooted) against the implementation below that root, unstripped
    rmodel = core.run_model([f"DECR S {c.tname} {'-' if c.cc is None else c.cc} {1 if c.enc else 0} {c.data.hex() or '-'} .ROOTQ" for c in rooted])
    rraw = core.run_impl([("DECROOTRAW", "S", c.tname, c.cc, c.enc, c.data, ".ROOTQ") for c in rooted])
    nrm = 0
    for c, a, b in zip(rooted, rraw, rmodel):
        if a != b:
            nrm += 1
            if nrm == 1:
                k, e, g = __import__("suites").first_diff(b, a)
                ctx.violations.append({"kind": "correspondence", "what": "correspondence 'DECR (decoding below a caller-supplied root)' no longer checks: model and implementation disagree",
                                       "replay": {"correspondence": "DECR", **c.replay("S"), "root_path": ".ROOTQ", "line": k, "model": e, "impl": g, "disagreements": nrm}})
    ctx.stats.update({
        "evaluations": len(derived) + len(wf),
        "distinct_nontrivial": len({(c.tname, c.cc, c.data) for c in derived}),
        "rule": "every truncation point (inputs <= 20 bytes; 20 sampled cuts otherwise; all in thorough) and 1/2/5-byte suffixes "
                "of well-formed structures, commands, responses and streams of every type/command code; the empty input per "
                "type; expected events = those of the whole input complete at the cut, expected error = depleted with the "
                "command code decoded so far / superfluous with exactly the suffix; streams end cleanly only at a boundary",
        "samples": [c.replay("S") for c in derived[:: max(1, len(derived) // 5)]][:5],
        "correspondence": {"ops": len(derived), "rooted_decodes_compared": len(rooted), "rooted_model_vs_impl_disagreements": nrm},
        "distribution": {"kinds": ds.kinds_distribution(derived), "failures": dict(bad), "rooted_kinds": ds.kinds_distribution(rooted),
                         "outcomes": dict(collections.Counter(ds.outcome(b) for b in impl))},
    })


PROP = {"targets": ["TpmProofs.Props.C05S", "TpmProofs.Props.C05R"], "module": ["TpmProofs.Props.C05S", "TpmProofs.Props.C05R"],
        "checker_modules": ["TpmProofs.Props.C05S", "TpmProofs.Props.C05R"], "theorems": THEOREMS, "run": run,
        "assumptions": ["truncation (depleted after exactly the complete fields) is a theorem for every input: structures, commands, responses "
                        "(c05_truncated) and streams (c05_stream_truncated); the exactness of superfluous/done and the surplus after a conforming "
                        "value are theorems; all of it is also monitored on the real code and tied by correspondence"]}
