"""C18 — response codes are classified and named by the TPM 2.0 format rules."""
import collections
import random

import core
import gen

THEOREMS = ["C18.c18_masks", "C18.c18_format", "C18.c18_format_repo", "C18.c18_high_bits", "C18.c18_rows_class",
            "C18.c18_rows_partition", "C18.c18_names_pinned", "C18.classify_table", "C18.rows_table",
            "C18.c18_row_details", "C18.c18_row_details_repo"]


def run(ctx, replay_case):
    rnd = random.Random(ctx.seed)
    highs = [0, 1 << 12, 1 << 31, 0xFFFFF000, rnd.randrange(1, 1 << 20) << 12]
    vals = []
    for low in range(4096):
        if low == 0 or (low >> 7) & 1 or (low >> 8) & 1:
            for h in highs:
                # (words with reserved high bits set and all low twelve bits clear included: they are not zero, hence not SUCCESS,
                # and have neither bit 7 nor bit 8: a TPM 1.2 style code - seed C18k keyed a memo of the text on the low bits)
                vals.append(h | low)
    ops = [("INT", "TPM_RC", v) for v in vals]
    bops = [("BITS", "TPM_RC", v) for v in vals if v & 0x180]      # rows: TPM 2.0 codes (c18_rows_partition speaks of their four layouts)
    impl = core.run_impl(ops + bops)
    model = core.run_model([core.op_line(o) for o in ops + bops])
    spec = core.run_model([f"INTP TPM_RC {v}" for v in vals])
    n = len(ops)
    corr = [i for i in range(len(ops + bops)) if impl[i] != model[i]]
    mon = [i for i in range(n) if impl[i] != spec[i]]
    # the text of a code is a function of the code: the same sweep in the opposite order (other codes formatted before) must give
    # the same texts
    impl_rev = core.run_impl(list(reversed(ops)))[::-1]
    mon += [i for i in range(n) if impl_rev[i] != spec[i] and i not in mon]
    for i in range(n):
        if impl_rev[i] != spec[i] and impl[i] == spec[i]:
            impl[i] = impl_rev[i]
    for i in mon[:3]:
        ctx.violations.append({"kind": "concrete", "signature": f"rc:text:{vals[i] & 0xFFF:#x}",
                               "what": f"TPM_RC({vals[i]:#x}): text form differs from the TPM 2.0 format rules",
                               "replay": {"value": vals[i], "expected": spec[i][0], "observed": impl[i][0]}})
    # rows partition the 32-bit word (implementation's own rows)
    nrow = 0
    for j, (_, _, v) in enumerate(bops):
        rows = [l.split(" ") for l in impl[n + j]]
        cover = [0] * 32
        ok = all(r[0] == "F" and len(r) == 5 for r in rows)
        if ok:
            for _, name, mask, fval, row in rows:
                mask = int(mask)
                for b in range(32):
                    if (mask >> b) & 1:
                        cover[b] += 1
                exp = "".join((("1" if (v >> b) & 1 else "0") if (mask >> b) & 1 else ".") for b in range(31, -1, -1))
                ok = ok and row == exp
        if not ok or any(c != 1 for c in cover):
            nrow += 1
            if nrow <= 2:
                ctx.violations.append({"kind": "concrete", "signature": "rc:rows",
                                       "what": f"TPM_RC({v:#x}): the bit rows do not partition the 32-bit word",
                                       "replay": {"value": v, "rows": impl[n + j]}})
    # the classification carried by the rows' details: the same as the text form (which is checked against the format rules above)
    import re
    dops = [("RCD", v) for v in vals if v & 0x180]
    det = core.run_impl(dops)
    dmodel = core.run_model([core.op_line(o) for o in dops])
    dcorr = [i for i in range(len(dops)) if det[i] != dmodel[i]]
    ndet = 0
    for v, sp, dl in zip([v for v in vals if v & 0x180], [spec[i] for i in range(n) if vals[i] & 0x180], det):
        text = sp[0].split("fmt=", 1)[1]
        m = re.fullmatch(r"TPM_RC\.(\w+)(?: \((.*)\))?", text)
        rows = {l.split(" ", 2)[1]: l.split(" ", 2)[2] for l in dl if l.startswith("D ") and len(l.split(" ", 2)) == 3}
        problem = None
        if not m:
            continue
        name, attr = m.group(1), m.group(2)
        fmt1 = bool(v & 0x80)
        if "code" in rows and rows["code"] != name:
            problem = f"the code row says {rows['code'].split(':')[0]!r} but the code is {name}"
        elif attr and attr != "Vendor-defined" and attr not in rows.values():
            problem = f"no row carries {attr!r}"
        elif not fmt1 and (v & 0x100) and rows.get("severity") != ("Warning" if v & 0x800 else "Error"):
            problem = f"the severity row says {rows.get('severity')!r}"
        elif any(l.startswith("D crash") for l in dl):
            problem = dl[0]
        if problem:
            ndet += 1
            if ndet <= 3:
                ctx.violations.append({"kind": "concrete", "signature": "rc:row-details",
                                       "what": f"TPM_RC({v:#x}): the bit rows do not carry the classification of the text form {text!r}: {problem}",
                                       "replay": {"value": v, "text": text, "rows": dl}})
    if dcorr and not ndet:
        i = dcorr[0]
        ctx.violations.append({"kind": "correspondence", "what": "response-code row-details model and implementation disagree",
                               "replay": {"correspondence": "RCD", "value": dops[i][1], "model": dmodel[i], "impl": det[i],
                                          "disagreements": len(dcorr)}})
    if corr and not mon and not nrow:
        i = corr[0]
        o = (ops + bops)[i]
        ctx.violations.append({"kind": "correspondence", "what": "response-code model and implementation disagree",
                               "replay": {"correspondence": o[0], "value": o[2], "model": model[i], "impl": impl[i],
                                          "disagreements": len(corr)}})
    classes = collections.Counter()
    for b in impl[:n]:
        t = b[0].split("fmt=", 1)[1]
        classes["SUCCESS" if t.endswith("SUCCESS") else "vendor" if "Vendor" in t else "parameter" if "Parameter" in t
                else "session" if "Session" in t else "handle" if "Handle" in t else "fmt0"] += 1
    ctx.stats.update({
        "evaluations": len(ops) + len(bops), "distinct_nontrivial": len(set(vals)) - 1,
        "rule": "all values of the low 12 bits with bit 7 or bit 8 set, plus zero, each with 5 high-bit patterns (0, bit 12, "
                "bit 31, 0xFFFFF000, one seeded); text compared with the Lean bit-position spec rendered with the pinned "
                "name maps; rows checked for partition of 32 bits; both compared with the model; the rows' free-text details (code name, "
                "parameter/session/handle number, severity) checked against the text form",
        "samples": [{"value": hex(vals[i]), "text": impl[i][0]} for i in range(0, n, max(1, n // 6))][:6],
        "exhaustive": True,
        "correspondence": {"ops": len(ops) + len(bops) + len(dops), "model_vs_impl_disagreements": len(corr) + len(dcorr),
                           "impl_vs_spec_disagreements": len(mon), "row_failures": nrow, "row_detail_failures": ndet},
        "distribution": {"classes": dict(classes)},
    })


PROP = {"targets": ["TpmProofs.Props.C18"], "module": "TpmProofs.Props.C18", "theorems": THEOREMS, "run": run,
        "assumptions": ["rendering of a classification to text (rcRender) is modelled and tied by the exhaustive correspondence, not proved against a second source"]}
