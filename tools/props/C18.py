"""C18 — response codes are classified and named by the TPM 2.0 format rules."""
import collections
import random

import core
import gen

THEOREMS = ["C18.c18_masks", "C18.c18_format", "C18.c18_format_repo", "C18.c18_high_bits", "C18.c18_rows_class",
            "C18.c18_rows_partition", "C18.c18_names_pinned", "C18.classify_table", "C18.rows_table"]


def run(ctx, replay_case):
    rnd = random.Random(ctx.seed)
    highs = [0, 1 << 12, 1 << 31, 0xFFFFF000, rnd.randrange(1, 1 << 20) << 12]
    vals = []
    for low in range(4096):
        if low == 0 or (low >> 7) & 1 or (low >> 8) & 1:
            for h in highs:
                if low == 0 and h:
                    continue
                vals.append(h | low)
    ops = [("INT", "TPM_RC", v) for v in vals]
    bops = [("BITS", "TPM_RC", v) for v in vals if v]
    impl = core.run_impl(ops + bops)
    model = core.run_model([core.op_line(o) for o in ops + bops])
    spec = core.run_model([f"INTP TPM_RC {v}" for v in vals])
    n = len(ops)
    corr = [i for i in range(len(ops + bops)) if impl[i] != model[i]]
    mon = [i for i in range(n) if impl[i] != spec[i]]
    for i in mon[:3]:
        ctx.violations.append({"kind": "concrete", "signature": f"rc:text:{vals[i] & 0xFFF:#x}",
                               "what": f"TPM_RC({vals[i]:#x}): text form differs from the TPM 2.0 format rules",
                               "replay": {"value": vals[i], "expected": spec[i][0], "observed": impl[i][0]}})
    # rows partition the 32-bit word (implementation's own rows)
    nrow = 0
    for j, (_, _, v) in enumerate(bops):
        rows = [l.split(" ") for l in impl[n + j]]
        cover = [0] * 32
        ok = all(r[0] == "F" and len(r) == 5 for r in rows)
        if ok:
            for _, name, mask, fval, row in rows:
                mask = int(mask)
                for b in range(32):
                    if (mask >> b) & 1:
                        cover[b] += 1
                exp = "".join((("1" if (v >> b) & 1 else "0") if (mask >> b) & 1 else ".") for b in range(31, -1, -1))
                ok = ok and row == exp
        if not ok or any(c != 1 for c in cover):
            nrow += 1
            if nrow <= 2:
                ctx.violations.append({"kind": "concrete", "signature": "rc:rows",
                                       "what": f"TPM_RC({v:#x}): the bit rows do not partition the 32-bit word",
                                       "replay": {"value": v, "rows": impl[n + j]}})
    if corr and not mon and not nrow:
        i = corr[0]
        o = (ops + bops)[i]
        ctx.violations.append({"kind": "correspondence", "what": "response-code model and implementation disagree",
                               "replay": {"correspondence": o[0], "value": o[2], "model": model[i], "impl": impl[i],
                                          "disagreements": len(corr)}})
    classes = collections.Counter()
    for b in impl[:n]:
        t = b[0].split("fmt=", 1)[1]
        classes["SUCCESS" if t.endswith("SUCCESS") else "vendor" if "Vendor" in t else "parameter" if "Parameter" in t
                else "session" if "Session" in t else "handle" if "Handle" in t else "fmt0"] += 1
    ctx.stats.update({
        "evaluations": len(ops) + len(bops), "distinct_nontrivial": len(set(vals)) - 1,
        "rule": "all values of the low 12 bits with bit 7 or bit 8 set, plus zero, each with 5 high-bit patterns (0, bit 12, "
                "bit 31, 0xFFFFF000, one seeded); text compared with the Lean bit-position spec rendered with the pinned "
                "name maps; rows checked for partition of 32 bits; both compared with the model",
        "samples": [{"value": hex(vals[i]), "text": impl[i][0]} for i in range(0, n, max(1, n // 6))][:6],
        "exhaustive": True,
        "correspondence": {"ops": len(ops) + len(bops), "model_vs_impl_disagreements": len(corr),
                           "impl_vs_spec_disagreements": len(mon), "row_failures": nrow},
        "distribution": {"classes": dict(classes)},
    })


PROP = {"targets": ["TpmProofs.Props.C18"], "module": "TpmProofs.Props.C18", "theorems": THEOREMS, "run": run,
        "assumptions": ["rendering of a classification to text (rcRender) is modelled and tied by the exhaustive correspondence, not proved against a second source"]}
