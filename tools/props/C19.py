"""C19 — the command line is a faithful front-end to the decoder."""
import collections
import os
import random
import re
import subprocess
import tempfile
from concurrent.futures import ThreadPoolExecutor

import canon
import core
import gen
import msggen
from props import C15

THEOREMS = ["C19.c19_refuse", "C19.c19_refuse_response", "C19.c19_default", "C19.c19_type", "C19.c19_type_exact",
            "C02.c02_strict", "C11.c11_obj_to_events"]
ANSI = re.compile(r"\x1b\[[0-9;]*m")


def cli(args, timeout=600):
    env = dict(os.environ, PYTHONPATH=os.path.join(canon.REPO, "src"))
    p = subprocess.run(["/venv/bin/python", "-m", "tpmstream"] + args, capture_output=True, env=env, timeout=timeout)
    return p.returncode, p.stdout.decode("utf-8", "replace"), p.stderr.decode("utf-8", "replace")


def library_lines(fmt_in, fmt_out, tname, cc, container, enc=False):
    """what the library produces for the same bytes (colour codes stripped); None if the library raises"""
    import importlib
    mods = {"auto": ("tpmstream.io.auto", "Auto"), "binary": ("tpmstream.io.binary", "Binary"), "hex": ("tpmstream.io.hex", "Hex"),
            "pcapng": ("tpmstream.io.pcapng", "Pcapng"), "swtpm-log": ("tpmstream.io.swtpm_log", "SWTPMLog")}
    outs = {"binary": ("tpmstream.io.binary", "Binary"), "events": ("tpmstream.io.events", "Events"), "pretty": ("tpmstream.io.pretty", "Pretty")}
    FI = getattr(importlib.import_module(mods[fmt_in][0]), mods[fmt_in][1])
    FO = getattr(importlib.import_module(outs[fmt_out][0]), outs[fmt_out][1])
    from tpmstream.spec.structures.constants import TPM_CC
    tp = canon.resolve_type(tname)
    kw = dict(tpm_type=tp, buffer=(b for b in container), command_code=TPM_CC(cc) if cc is not None else None, abort_on_error=False)
    if enc:
        kw["parameter_encryption"] = True
    text = ""
    try:
        for line in FO.unmarshal(FI.marshal(**kw)):
            if isinstance(line, bytes):
                text += " " + line.hex()
            else:
                text += line + "\n"
        return ANSI.sub("", text), None
    except Exception as e:  # noqa
        return ANSI.sub("", text), type(e).__name__


def run(ctx, replay_case):
    rnd = random.Random(ctx.seed)
    L = gen.load_layout("pinned")
    M = msggen.MsgGen(L, rnd)
    tmp = tempfile.mkdtemp(prefix="c19_", dir=os.path.join(core.VERIF, ".cache") if os.path.isdir(os.path.join(core.VERIF, ".cache")) else None)
    jobs = []      # (description, args, expectation fn)
    cc_names = {v: n for n, v in L["cc"]}
    n_conv = 40 if ctx.tier == "quick" else 300
    files = []
    for i in range(n_conv):
        msgs = []
        for _ in range(rnd.choice([1, 2])):
            pr = M.pair()
            if pr:
                msgs += [pr[0], pr[1]]
        if not msgs:
            continue
        data = b"".join(m[1] for m in msgs)
        if rnd.random() < 0.3:          # malformed: the CLI decodes in warn mode
            bb = bytearray(data)
            bb[rnd.randrange(len(bb))] ^= 1 << rnd.randrange(8)
            data = bytes(bb)
        fmt_in = rnd.choice(["binary", "hex", "swtpm-log", "pcapng", "auto"])
        if fmt_in == "binary" or fmt_in == "auto":
            cont = data
        elif fmt_in == "hex":
            cont = C15.render_hex(data, rnd)
        elif fmt_in == "swtpm-log":
            cont = C15.render_swtpm([m[1] for m in msgs], rnd) if data == b"".join(m[1] for m in msgs) else None
        else:
            cont = canon.make_pcapng([m[1] for m in msgs]) if data == b"".join(m[1] for m in msgs) else None
        if cont is None:
            fmt_in, cont = "binary", data
        fmt_out = rnd.choice(["pretty", "events", "binary"])
        path = os.path.join(tmp, f"in{i}.bin")
        with open(path, "wb") as f:
            f.write(cont)
        jobs.append(("convert", ["convert", "--in", fmt_in, "--out", fmt_out, path], ("Stream", None, fmt_in, fmt_out, cont, data)))
        # the same bytes spread over several files, one of them empty (the files are read one after the other)
        if i % (6 if ctx.tier == "quick" else 3) == 0 and fmt_in in ("binary", "hex", "auto") and len(cont) >= 2:
            cuts = sorted(rnd.sample(range(1, len(cont)), min(len(cont) - 1, rnd.choice([1, 2]))))
            parts = [cont[a:b] for a, b in zip([0] + cuts, cuts + [len(cont)])]
            parts.insert(rnd.randrange(len(parts) + 1), b"")
            paths = []
            for j, part in enumerate(parts):
                pj = os.path.join(tmp, f"in{i}_part{j}.bin")
                with open(pj, "wb") as f:
                    f.write(part)
                paths.append(pj)
            jobs.append(("convert-files", ["convert", "--in", fmt_in, "--out", fmt_out] + paths, ("Stream", None, fmt_in, fmt_out, cont, data)))
        # a single message with --type
        m = msgs[0]
        p2 = os.path.join(tmp, f"msg{i}.bin")
        with open(p2, "wb") as f:
            f.write(m[1])
        if rnd.random() < 0.5:
            jobs.append(("convert-type", ["convert", "--in", "binary", "--out", fmt_out, "--type", "Command", p2],
                         ("Command", None, "binary", fmt_out, m[1], m[1])))
        else:
            r = msgs[1]
            p3 = os.path.join(tmp, f"rsp{i}.bin")
            with open(p3, "wb") as f:
                f.write(r[1])
            ccv = m[2]["cc"]
            jobs.append(("convert-type", ["convert", "--in", "binary", "--out", fmt_out, "--type", "Response", "--command", cc_names[ccv], p3],
                         ("Response", ccv, "binary", fmt_out, r[1], r[1])))
    # refusals
    anyfile = jobs[0][1][-1]
    for args in (["convert", "--in", "binary", "--type", "TPM2B_DIGES", anyfile], ["convert", "--in", "binary", "--type", "Response", anyfile],
                 ["convert", "--in", "binary", "--type", "Response", "--command", "GetRandm", anyfile], ["example", "GetRandm"]):
        jobs.append(("refuse", args, None))
    # the argument grid: every combination of --in / --type / --command (/ --out) on small fixed files, so that the dispatch
    # logic is covered exhaustively over this small world (model PLAN vs the real command line vs the stated behaviour)
    gpair = None
    for _ in range(50):
        gpair = M.pair(dict(L["cc"])["GetRandom"])
        if gpair and gpair[1][2].get("rc", 0) == 0 and not gpair[0][2]["nsess"]:
            break
    gfiles = {}
    if gpair:
        dg = M.G.gen(L["consts"]["TPM2B_DIGEST"]) if "TPM2B_DIGEST" in L["consts"] else None
        contents = {"Stream": gpair[0][1] + gpair[1][1], "Command": gpair[0][1], "Response": gpair[1][1],
                    "TPM2B_DIGEST": dg[1] if dg else b"\x00\x00"}
        for k, v in contents.items():
            for enc in ("binary", "hex"):
                pth = os.path.join(tmp, f"grid_{k}_{enc}.bin")
                with open(pth, "wb") as f:
                    f.write(v if enc == "binary" else v.hex().encode())
                gfiles[(k, enc)] = (pth, v if enc == "binary" else v.hex().encode(), v)
    gjobs = []
    outs_ = ["events"] if ctx.tier == "quick" else ["events", "pretty", "binary"]
    for fin in (None, "auto", "binary", "hex"):
        for typ in (None, "CommandResponseStream", "Command", "Response", "TPM2B_DIGEST", "TPM2B_DIGES"):
            for cmd in (None, "GetRandom", "GetRandm", "0x999"):      # a number that names no command is an unknown name too (seed C19h)
                for fo in outs_:
                    if not gfiles:
                        continue
                    kind_ = "Stream" if typ in (None, "CommandResponseStream") else (typ if typ in ("Command", "Response") else "TPM2B_DIGEST")
                    pth, cont, data = gfiles[(kind_, "hex" if fin == "hex" else "binary")]
                    args = ["convert"] + (["--in", fin] if fin else []) + ["--out", fo] + (["--type", typ] if typ else []) + \
                           (["--command", cmd] if cmd else []) + [pth]
                    gjobs.append((args, fin or "auto", typ, cmd, fo, kind_, cont, data))
    # type
    tjobs = []
    for i in range(12 if ctx.tier == "quick" else 80):
        k = rnd.random()
        if k < 0.4:
            key = rnd.choice([x for x in L["structures"] if L["types"][x]["kind"] != "union"])
            r = M.G.gen(key)
            data = r[1] if r else b"\x00"
        elif k < 0.7:
            pr = M.pair()
            data = pr[0][1] if pr else b"\x00"
        else:
            pr = M.pair()
            data = pr[1][1] if pr else b"\x00"
        path = os.path.join(tmp, f"t{i}.bin")
        with open(path, "wb") as f:
            f.write(data)
        tjobs.append((path, data))
        if i < 4:
            with open(path + ".hex", "w") as f:
                f.write(data.hex())
    # very short files: the empty file and single bytes decode strictly as several types (seed C19f: a guard for inputs too short
    # for format detection refused them also with an explicit --in)
    for data in [b"", b"\x01", b"\x40", bytes([rnd.randrange(256)]), b"\x00\x01"]:
        path = os.path.join(tmp, f"short{len(tjobs)}.bin")
        with open(path, "wb") as f:
            f.write(data)
        tjobs.append((path, data))
    # files of the listed known findings are replayed on every run
    try:
        import json as _json
        for ln in open(os.path.join(core.VERIF, "known_findings.jsonl")):
            if not ln.strip() or ln.startswith("#"):
                continue
            k = _json.loads(ln)
            if k.get("property") == "C19" and k.get("kind") == "finding" and k.get("replay", {}).get("file_hex"):
                data = bytes.fromhex(k["replay"]["file_hex"])
                path = os.path.join(tmp, f"known{len(tjobs)}.bin")
                with open(path, "wb") as f:
                    f.write(data)
                tjobs.append((path, data))
    except FileNotFoundError:
        pass
    # example
    # type names: types that other declared types derive from (an example of a derived type is not an example of X) and others
    # the names the command line accepts as types (tpmstream.spec.all_types); unions are left out: an example of a union can
    # not be re-decoded on its own (its member is chosen by a selector that lives outside it), so "re-decodes to what is shown"
    # is not checkable for them
    tnames = [x for x in L["structures"] if L["types"][x]["kind"] != "union"]
    parents = [n for n in ("TPM2B_DIGEST", "TPM_HANDLE", "TPM_ALG_ID", "TPMS_SCHEME_HASH", "UINT8", "UINT16", "UINT32", "TPM_ST",
                           "TPMS_EMPTY", "TPM2B_PUBLIC", "TPMT_PUBLIC") if n in tnames]
    allcc = [n for n, _ in L["cc"]]
    ex_names = (rnd.sample(allcc, 9) if ctx.tier == "quick" else allcc) \
        + (rnd.sample(parents, 4) + rnd.sample(tnames, 3) if ctx.tier == "quick" else parents + rnd.sample(tnames, 20))
    # command codes that occur in the bundled captures (scanned with dpkt, not with the code under test): `example X` must
    # print at least one example for them
    in_corpus = {int.from_bytes(c[6:10], "big") for _, c, _ in core.corpus_messages() if len(c) >= 10}

    def do(job):
        return cli(job[1])
    with ThreadPoolExecutor(16) as ex:
        results = list(ex.map(do, jobs))
        gres = list(ex.map(lambda gj: cli(gj[0]), gjobs))
        tres = list(ex.map(lambda tj: cli(["type", "--in", "binary", tj[0]]), tjobs))
        hres = list(ex.map(lambda tj: cli(["type", "--in", "hex", tj[0] + ".hex"]), tjobs[:4]))
        eres = list(ex.map(lambda n: cli(["example", n], timeout=1200), ex_names))
    stats = collections.Counter()

    def viol(sig, what, replay):
        stats["violation"] += 1
        if len([v for v in ctx.violations if v.get("signature") == sig]) < 2:
            ctx.violations.append({"kind": "concrete", "signature": sig, "what": what, "replay": replay})
    plans = core.run_model([f"PLAN {j[1][j[1].index('--in') + 1] if '--in' in j[1] else 'auto'} "
                            f"{j[1][j[1].index('--type') + 1] if '--type' in j[1] else '-'} "
                            f"{j[1][j[1].index('--command') + 1] if '--command' in j[1] else '-'}" for j in jobs if j[0] != "refuse" or j[1][0] == "convert"])
    pi = 0
    for job, (rc, out, err) in zip(jobs, results):
        kind, args, exp = job
        if kind != "refuse" or args[0] == "convert":
            plan = plans[pi][0]
            pi += 1
        else:
            plan = None
        if kind == "refuse" and "Did you mean" in err and args[0] == "convert":
            # the suggestion is a usable one: not the rejected command line again, also when the rejected name is attached to its
            # option with `=` (the README's spelling; seed C19l replaced whole argv tokens only)
            joined, i_ = [], 0
            while i_ < len(args):
                if args[i_] in ("--type", "--command", "--in", "--out") and i_ + 1 < len(args):
                    joined.append(args[i_] + "=" + args[i_ + 1])
                    i_ += 2
                else:
                    joined.append(args[i_])
                    i_ += 1
            for form in (args, joined):
                rc2, out2, err2 = (rc, out, err) if form is args else cli(form)
                stats["suggestions"] += 1
                prop_ = err2.split("Did you mean:", 1)[1].strip().split("\n")[0].strip() if "Did you mean:" in err2 else None
                if rc2 == 0 or prop_ is None:
                    viol("cli:refuse", f"`tpmstream {' '.join(form[:-1])} <file>` was not refused with a non-zero status and a suggestion (status {rc2})",
                         {"argv": form, "status": rc2, "stderr": err2[:300]})
                elif prop_.split(" ", 1)[-1].strip() == " ".join(form).strip():
                    viol("cli:suggestion", f"`tpmstream {' '.join(form[:-1])} <file>`: the suggestion is the rejected command line itself",
                         {"argv": form, "status": rc2, "stderr": err2[:400]})
        if kind == "refuse":
            stats["refusal"] += 1
            if rc == 0 or "Did you mean" not in err and "requires" not in err:
                viol("cli:refuse", f"`tpmstream {' '.join(args[:-1])} <file>` was not refused with a non-zero status and a suggestion (status {rc})",
                     {"argv": args, "status": rc, "stderr": err[:300]})
            elif out.strip():
                viol("cli:refuse", f"`tpmstream {' '.join(args[:-1])} <file>` is refused but prints a decode all the same",
                     {"argv": args, "status": rc, "stdout": out[:300]})
            if plan is not None and plan != "L refused":
                ctx.violations.append({"kind": "correspondence", "what": "CLI dispatch model disagrees with the command line",
                                       "replay": {"argv": args, "model": plan, "status": rc}})
            continue
        tname, cc, fmt_in, fmt_out, cont, data = exp
        stats[f"{kind}:{fmt_in}->{fmt_out}"] += 1
        lib, lib_exc = library_lines(fmt_in, fmt_out, tname, cc, cont)
        if not plan.startswith("L run"):
            ctx.violations.append({"kind": "correspondence", "what": "CLI dispatch model disagrees with the command line",
                                   "replay": {"argv": args, "model": plan, "status": rc}})
        if lib_exc is None:
            ok = (rc == 0 and ANSI.sub("", out).rstrip("\n") == lib.rstrip("\n"))
        else:
            ok = rc != 0 and ANSI.sub("", out).rstrip("\n").startswith(lib.rstrip("\n")[:max(0, len(lib.rstrip("\n")) - 1)])
        if not ok:
            viol(f"cli:convert:{fmt_out}", f"`convert --in {fmt_in} --out {fmt_out}` output/status differs from the library (status {rc}, library exception {lib_exc})",
                 {"argv": args, "file_hex": cont.hex(), "status": rc, "stdout_head": out[:200], "library_head": lib[:200]})
        elif fmt_out == "binary" and lib_exc is None:
            # the hex of every decoded byte, in order: for a well-formed input that is the input itself
            digits = re.sub(r"\s", "", out)
            impl = canon.impl_dec("W", tname, cc, False, data, unmarshal=True)
            u = next((l[2:] for l in impl if l.startswith("U ")), "?")
            if digits != (u if u != "-" else ""):
                viol("cli:binary", "`--out binary` does not print the hex of every decoded byte in order",
                     {"argv": args, "file_hex": cont.hex(), "stdout": digits[:200], "expected": u[:200]})
    # the argument grid
    gplans = core.run_model([f"PLAN {g[1]} {g[2] or '-'} {g[3] or '-'}" for g in gjobs]) if gjobs else []
    getrandom = dict(L["cc"])["GetRandom"]
    for g, (rc, out, err), pl in zip(gjobs, gres, gplans):
        args, fin, typ, cmd, fo, kind_, cont, data = g
        stats["grid"] += 1
        plan = pl[0]
        refused_ok = rc != 0 and ("Did you mean" in err or "requires" in err) and "Traceback" not in err
        # what the statement says
        if typ in (None, "CommandResponseStream"):
            stated = "run"
        elif typ == "TPM2B_DIGES" or (typ == "Response" and cmd != "GetRandom"):
            stated = "refuse"
        elif fin == "auto":
            stated = None        # a custom type with auto-detection: not covered by the statement (the code raises RuntimeError)
        else:
            stated = "run"
        lib, lib_exc = library_lines(fin, fo, kind_ if stated == "run" or plan.startswith("L run") else "Stream",
                                     getrandom if kind_ == "Response" else None, cont) if (stated == "run" or plan.startswith("L run")) else ("", None)
        ran_ok = rc == 0 and lib_exc is None and ANSI.sub("", out).rstrip("\n") == lib.rstrip("\n")
        observed = "refused" if refused_ok else ("run" if ran_ok else f"status {rc}" + (" RuntimeError" if "RuntimeError" in err else ""))
        if stated == "refuse" and not refused_ok:
            viol("cli:grid:refuse", f"`tpmstream {' '.join(args[:-1])} <file>` is not refused with a non-zero status and a suggestion ({observed})",
                 {"argv": args, "status": rc, "stderr": err[-300:]})
        if stated == "run" and not ran_ok:
            viol("cli:grid:run", f"`tpmstream {' '.join(args[:-1])} <file>` does not print what the library produces and exit 0 ({observed})",
                 {"argv": args, "file_hex": cont.hex(), "status": rc, "stdout_head": out[:200], "library_head": lib[:200], "stderr": err[-300:]})
        model_obs = {"L refused": "refused"}.get(plan, "run" if plan.startswith("L run") else "status 1 RuntimeError")
        if model_obs != observed and not (plan.startswith("L crashed") and rc != 0 and "RuntimeError" in err):
            ctx.violations.append({"kind": "correspondence", "what": "CLI dispatch model disagrees with the command line",
                                   "replay": {"argv": args, "model": plan, "status": rc, "observed": observed}})
    # type: exactly the types under which the bytes decode strictly
    tmodel = core.run_model([f"TYPES {d.hex() or '-'}" for _, d in tjobs])
    for (path, data), (rc, out, err), tm in zip(tjobs, tres, tmodel):
        stats["type"] += 1
        listed = [l for l in out.split("\n") if l.strip()]
        expected = []
        from tpmstream.spec import all_types
        from tpmstream.spec.commands import CommandResponseStream, Response
        # the monitor's own ground truth: strict library decodes
        for t in all_types:
            if t is CommandResponseStream or t.__name__.startswith("TPMU"):
                continue
            ccs = [None] if t is not Response else [v for _, v in L["cc"]]
            for ccv in ccs:
                b = canon.impl_dec("S", t.__name__, ccv, False, data)
                if b[-1].startswith("R done"):
                    expected.append(t.__name__ if t is not Response else f"Response (TPM_CC.{cc_names[ccv]})")
        if rc != 0 and "AssertionError: Started parsing Response with parameter_encryption" in err:
            viol("cli:type:AssertionError:process_response", "`type` ends with a traceback: the parameter_encryption assert of process_response",
                 {"argv": ["type", "--in", "binary", "<file>"], "file_hex": data.hex(), "stderr": err[-300:]})
        elif rc != 0 or listed != expected:
            viol("cli:type", f"`type` lists {len(listed)} types, strict decoding accepts {len(expected)} (status {rc})",
                 {"file_hex": data.hex(), "listed": listed[:10], "expected": expected[:10], "stderr": err[-300:]})
        if [l[2:] for l in tm] != expected:
            ctx.violations.append({"kind": "correspondence", "what": "type-listing model disagrees with strict decoding by the library",
                                   "replay": {"file_hex": data.hex(), "model": [l[2:] for l in tm][:10], "impl": expected[:10]}})
    # example X: only examples whose command code / type is X, each re-decoding to what is shown
    for name, (rc, out, err) in zip(ex_names, eres):
        stats["example"] += 1
        if rc != 0:
            viol("cli:example", f"`example {name}` exits with status {rc}", {"argv": ["example", name], "stderr": err[-300:]})
            continue
        blocks = [b for b in out.split("\n\n") if b.strip()]
        if not blocks and dict(L["cc"]).get(name) in in_corpus:
            viol("cli:example", f"`example {name}` prints nothing although the bundled captures contain that command", {"argv": ["example", name]})
        budget = 5 if ctx.tier == "quick" else 50
        for blk in blocks:
            head = blk.split("\n")[0]
            m = re.match(r"^(\w+):((?: [0-9a-f]*)*)$", head)
            if not m:
                viol("cli:example", f"`example {name}`: unparsable header line", {"header": head[:200]})
                break
            tname, hx = m.group(1), re.sub(r"\s", "", m.group(2))
            data = bytes.fromhex(hx)
            if tname == "Command":
                if len(data) < 10 or int.from_bytes(data[6:10], "big") != dict(L["cc"]).get(name):
                    viol("cli:example", f"`example {name}` prints a command with another command code", {"hex": hx})
                    break
                args = ("Command", None)
            elif tname == "Response" and name in dict(L["cc"]):
                args = ("Response", dict(L["cc"])[name])
            elif tname == name:
                args = (tname, None)
            else:
                viol("cli:example", f"`example {name}` prints an example of {tname}", {"header": head[:200]})
                break
            budget -= 1
            if budget < 0:
                continue        # the headers of all blocks are checked, the re-decode of the first ones
            lines, exc = library_lines("binary", "pretty", args[0], args[1], data)
            shown = "\n".join(blk.split("\n")[1:])
            if args[0] == "Response" and (exc is not None or ANSI.sub("", shown).rstrip() != lines.rstrip()):
                # a response whose sessions request parameter encryption is shown as decoded under that flag (the examples
                # come from streams, where the flag follows from the command's sessions)
                lines, exc = library_lines("binary", "pretty", args[0], args[1], data, enc=True)
            if exc is None and ANSI.sub("", shown).rstrip() != lines.rstrip():
                # the examples come from captures decoded in warn mode and are printed from the decoded object: what is shown are the
                # example's rows.  A capture with an out-of-range value (bundled: a Create command with session handle 0x7ffc)
                # re-decodes to the same rows plus the decoder's warning row; the rows shown must all be reproduced, in order.
                kept = "\n".join(l for l in lines.split("\n") if not l.startswith("Warning: "))
                if kept.rstrip() == ANSI.sub("", shown).rstrip():
                    stats["example_redecode_adds_warning_rows"] += 1
                    lines = kept
            if exc is not None or ANSI.sub("", shown).rstrip() != lines.rstrip():
                viol("cli:example", f"`example {name}`: the printed example does not re-decode to what is shown", {"hex": hx, "type": tname})
                break
    for (path, data), (rc, out, err), (rcb, outb, errb) in zip(tjobs[:4], hres, tres[:4]):
        stats["type_hex"] += 1
        if (rc, out) != (rcb, outb):
            viol("cli:type:hex", "`type --in hex` lists something else than `type --in binary` for the same bytes",
                 {"file_hex": data.hex(), "hex_status": rc, "binary_status": rcb, "hex": out[:200], "binary": outb[:200]})
    subprocess.run(["rm", "-rf", tmp])
    ctx.stats.update({
        "evaluations": len(jobs) + len(gjobs) + len(tjobs) + len(ex_names), "distinct_nontrivial": len({tuple(j[1][:-1]) + (j[2][4] if j[2] else b"",) for j in jobs}),
        "rule": "the real command line run as a subprocess on generated files: convert over input formats {binary, hex, swtpm-log, pcapng, auto} x output "
                "formats {pretty, events, binary} x {stream, --type Command, --type Response --command X}, well-formed and corrupted; stdout (colour stripped) and "
                "status compared with the library on the same bytes; the full argument grid {--in absent, auto, binary, hex} x {--type absent, CommandResponseStream, "
                "Command, Response, a structure, an unknown name} x {--command absent, known, unknown} on fixed small files: dispatch model vs command line vs statement; --out binary compared with the decoded bytes; refusals; `type` compared with strict library "
                "decodes under every type and command code and with the Lean listing; `example X` headers/commands/re-decode",
        "samples": [{"argv": j[1][:-1]} for j in jobs[:: max(1, len(jobs) // 5)]][:5],
        "correspondence": {"subprocess_calls": len(jobs) + len(gjobs) + len(tjobs) + len(ex_names), "argument_grid": len(gjobs)},
        "distribution": dict(stats),
    })


PROP = {"targets": ["TpmProofs.Props.C19"], "module": "TpmProofs.Props.C19", "theorems": THEOREMS, "run": run,
        "assumptions": ["argparse, difflib.get_close_matches, file handling, print and colorama's stripping of colour codes are not modelled; that part is "
                        "tied by running the command line and comparing with the library in-process (the suggestion text is only checked to exist)"]}
