"""C02 — re-encoding the events of a decodable input reproduces the input bytes."""
import collections
import random

import core
import decsuite as ds

THEOREMS = ["C02.c02_strict", "C02.c02_slices", "C02.c02_structural", "C02.c02_warning", "C02.c02_width",
            "C02.c02_field", "runWalker_acct", "decode_acct",
            "runWalker_acctw", "C02.c02_warn_value_only", "C02.c02_stream", "C02.c02_stream_slices", "silent_facts"]


def run(ctx, replay_case):
    rnd = random.Random(ctx.seed)
    L, M, wf = ds.wellformed(rnd, ctx.tier)
    # corpus messages (accepted or not) and value-corrupted variants for the warn-mode clause
    corpus = []
    msgs = core.corpus_messages()
    for f, c, r in (msgs if ctx.tier == "thorough" else rnd.sample(msgs, 300)):
        cc = int.from_bytes(c[6:10], "big")
        corpus.append(ds.Case("Command", None, False, c, "corpus_cmd"))
        corpus.append(ds.Case("Response", cc, False, r, "corpus_rsp"))
    # "every input that strict decoding accepts": also inputs that should NOT be accepted — if one is, its events must still
    # re-encode to it.  Regions padded with k surplus bytes (all size fields consistently increased) and single size faults of a
    # sample of messages (seed C02f: strict mode swallowed an overrun of the session area and accepted bytes that are in no event)
    wfm = [c for c in wf if c.kind in ("wf_cmd", "wf_rsp")]
    wfm = wfm if ctx.tier == "thorough" else rnd.sample(wfm, min(len(wfm), 150))
    odd = []
    for c, b in zip(wfm, core.run_impl([c.op("S") for c in wfm])):
        if b[-1].startswith("R done") and ds.widths_ok(b, L):
            odd += ds.pad_faults(c, b, L, rnd, ctx.tier)
            sf = ds.size_faults(c, b, L, rnd, ctx.tier)
            odd += sf if ctx.tier == "thorough" else rnd.sample(sf, min(len(sf), 6))
    # ... and inputs with a field value outside its declared set: strict mode should reject them; if it accepts one, the events must
    # still re-encode to it (seed C02h: a yes/no octet was normalised to 0/1 when the typed value was built, so 0x02 was accepted and
    # re-encoded as 0x01)
    oddv = []
    wfv = [c for c in wf if c.kind in ("wf_cmd", "wf_rsp", "wf_struct")]
    wfv = wfv if ctx.tier == "thorough" else rnd.sample(wfv, min(len(wfv), 400))
    for c, b in zip(wfv, core.run_impl([c.op("S") for c in wfv])):
        if b[-1].startswith("R done") and ds.widths_ok(b, L):
            oddv += ds.value_faults(c, b, L, rnd, ctx.tier, limit=3)
    strict_cases = wf + corpus + odd + oddv
    res = ds.run_both(strict_cases, "S", kind="DECU")
    impl, model = res["S"]
    ds.correspondence_violation(ctx, "DECU strict (events, re-encoding, slices)", strict_cases, "S", impl, model)
    accepted = 0
    for c, b in zip(strict_cases, impl):
        if b[-1].startswith("R done") and not (b[-1] == "R done obj=None" and c.tname != "Stream"):
            accepted += 1
            u, s = b[-3], b[-2]
            if u != "U " + (c.data.hex() or "-") or s != "S ok":
                ctx.violations.append({"kind": "concrete", "signature": f"reencode:{c.kind}",
                                       "what": f"re-encoding the events of an accepted {c.tname} input does not reproduce the input",
                                       "replay": {**c.replay("S"), "reencoded": u[2:], "slices": s[2:]}})
    # warn mode with value problems only
    base = [c for c in wf if c.kind in ("wf_cmd", "wf_rsp", "wf_struct")]
    base = base if ctx.tier == "thorough" else rnd.sample(base, min(len(base), 500))
    first = core.run_impl([c.op("S") for c in base])
    vf = []
    for c, b in zip(base, first):
        if b[-1].startswith("R done") and ds.widths_ok(b, L):
            vf += ds.value_faults(c, b, L, rnd, ctx.tier, limit=3)
    resw = ds.run_both(vf, "W", kind="DECU")
    wimpl, wmodel = resw["W"]
    ds.correspondence_violation(ctx, "DECU warn (value faults)", vf, "W", wimpl, wmodel)
    value_only = 0
    for c, b in zip(vf, wimpl):
        ws = [l for l in b if l.startswith("W ")]
        if all("ValueConstraintViolatedError" in l for l in ws) and b[-1].startswith("R done"):      # value problems only (possibly none reported)
            value_only += 1
            u, s = b[-3], b[-2]
            if u != "U " + (c.data.hex() or "-") or s != "S ok":
                ctx.violations.append({"kind": "concrete", "signature": "reencode:warn_value_only",
                                       "what": "warn mode with only out-of-range values: re-encoding the events does not reproduce the input",
                                       "replay": {**c.replay("W"), "reencoded": u[2:], "slices": s[2:]}})
    ctx.stats.update({
        "evaluations": len(strict_cases) + len(vf),
        "distinct_nontrivial": len({(c.tname, c.cc, c.data) for c in strict_cases + vf if len(c.data) > 0}),
        "rule": "G1 well-formed structures (every type), commands/responses (every command code, sessions, encryption, failed "
                "responses), streams, corpus packets; strict decode + Binary.unmarshal of the emitted events on the real code: "
                "concatenation == input and every primitive event == the input slice at its offset; warn mode on value-corrupted "
                "variants where all warnings are value warnings; all compared with the model; non-trivial = non-empty input",
        "samples": [c.replay("S") for c in strict_cases[:: max(1, len(strict_cases) // 5)]][:5],
        "correspondence": {"ops": len(strict_cases) + len(vf)},
        "distribution": {"kinds": ds.kinds_distribution(strict_cases + vf), "strict_accepted": accepted,
                         "warn_value_only_runs": value_only},
    })


PROP = {"targets": ["TpmProofs.Props.C02S"], "module": "TpmProofs.Props.C02S", "theorems": THEOREMS, "run": run,
        "assumptions": ["c02_strict covers structures, commands and responses (outcome done); streams end silently and are covered by c02_stream; "
                        "the warn-mode clause (only value warnings) is C02.c02_warn_value_only"]}
