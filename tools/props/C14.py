"""C14 — the printers show every event and every byte exactly once, in order."""
import collections
import random

import core
import decsuite as ds

THEOREMS = ["C14.c14_decoder_buffers", "C14.c14_decoder_shown", "C14.decoder_endsOk", "C14.c14_ends_tables", "runWalker_endsOk", "decode_eo", "decodeCommand_ms", "decodeResponse_ms", "decodeStream_ms", "C14.c14_rows_are_blocks", "C14.c14_blocks_partition", "C14.c14_decoder_rows", "C14.c14_buffers_are_blocks", "C14.run_inRun", "C14.c14_warnings_once", "C14.prettyGo_info", "C14.c14_decoder_hex", "C14.c14_accepted_hex_is_input", "C14.decoder_classes", "C14.streamBytes_eq", "C14.decoder_shaped", "C14.c14_shape_tables", "C14.c14_decoder_total", "runWalker_gd", "decode_gd", "decodeCommand_gd",
            "decodeResponse_gd", "decodeStream_gm", "C14.c14_total_b", "C14.shaped_of_b", "C14.c14_hex", "C14.c14_hex_top", "C14.c14_row_columns", "C14.c14_total", "C14.c14_total_top",
            "C14.foldBytes_hex", "C14.foldElems_hex", "C14.c14_events_rows"]


def run(ctx, replay_case):
    from props import C07
    rnd = random.Random(ctx.seed)
    L, cases = C07.build_inputs(ctx, rnd)
    if ctx.tier == "quick":
        keep = [c for c in cases if c.kind == "nested_same_fault"]
        keep = rnd.sample(keep, min(len(keep), 800))
        other = [c for c in cases if c.kind != "nested_same_fault"]
        cases = keep + rnd.sample(other, min(len(other), 5000 - len(keep)))
    ops = [c.op(m, "PRINT") for c in cases for m in "SW"]
    owners = [(c, m) for c in cases for m in "SW"]
    impl = core.run_impl(ops)
    model = core.run_model([core.op_line(o) for o in ops])
    corr = [i for i in range(len(ops)) if impl[i] != model[i]]
    if corr:
        i = min(corr, key=lambda j: len(ops[j][5]))
        k, e, g = __import__("suites").first_diff(model[i], impl[i])
        ctx.violations.append({"kind": "correspondence", "what": "printer model and implementation disagree",
                               "replay": {"correspondence": "PRINT", **owners[i][0].replay(owners[i][1]), "line": k, "model": e, "impl": g,
                                          "disagreements": len(corr)}})
    stats = collections.Counter()
    for (c, m), b in zip(owners, impl):
        if b and b[0].startswith("P decode-crash"):
            stats["decode-crash (C06/C08 subject)"] += 1
            continue
        prow = [l for l in b if l.startswith("P")]
        erow = [l for l in b if l.startswith("E")]
        u = next((l for l in b if l.startswith("U ")), "U ? 0").split(" ")
        problem = None
        kline = next((l for l in b if l.startswith("K ")), "K ?")
        stats["shaped" if kline == "K 1" else "not shaped"] += 1
        if kline != "K 1":
            problem = "the decoder produced an event stream outside the hypothesis of the printers' totality theorem (a value of no primitive class, a byte-buffer child without a value, or a list whose run is ended by a byte-buffer parent)"
        elif any(l.startswith("P crash") or "?unparsed" in l for l in prow):
            problem = "pretty printer failed: " + next(l for l in prow if "crash" in l or "?unparsed" in l)
        elif any(l.startswith("E crash") or "?unparsed" in l for l in erow):
            problem = "events printer failed: " + next(l for l in erow if "crash" in l or "?unparsed" in l)
        else:
            hexcat = "".join(l.split(" ")[4] for l in prow if l.startswith("P ") and l.split(" ")[4] != "-")
            if hexcat != (u[1] if u[1] != "-" else ""):
                problem = "the hex column concatenated over all rows differs from the bytes of the decoded fields"
            elif m == "S" and c.kind.startswith("wf_") and hexcat != c.data.hex():
                problem = "well-formed input: the hex column does not reproduce the whole input"
            else:
                pi = [l.split(" ")[1] for l in prow if l.startswith("P! ")]
                ei = [l.split(" ")[1] for l in erow if l.startswith("E! ")]
                if pi != [str(i) for i in range(len(pi))] or ei != pi:
                    problem = f"warnings are not shown exactly once in order (pretty {pi}, events {ei})"
                elif len(erow) != int(u[2]):
                    problem = f"events printer shows {len(erow)} rows for {u[2]} events"
                else:
                    # every primitive / structure event outside byte buffers has its row: compare names in order
                    pn = [(l.split(" ")[1], l.split(" ")[3]) for l in prow if l.startswith("P ") and l.split(" ")[1] != "-"]
                    en = []
                    skip_parent = None
                    for l in erow:
                        if l.startswith("E! "):
                            continue
                        t, path = l.split(" ")[1], l.split(" ")[2]
                        last = "." + path.rsplit(".", 1)[-1] if path != "." else "."
                        if skip_parent is not None and path.rsplit("[", 1)[0] == skip_parent and "[" in path.rsplit(".", 1)[-1]:
                            continue
                        skip_parent = None
                        if t == "list[BYTE]":
                            skip_parent = path
                        en.append((t, last))
                    # the events of non-byte lists themselves are neither structure nor primitive events: their row is optional
                    # (the printer shows it for empty lists), but when there is one it stands at the list event's place in event order
                    def islist(t):
                        return t.startswith("list[") and t != "list[BYTE]"
                    k = 0
                    for j, ev in enumerate(en):
                        if k < len(pn) and pn[k] == ev:
                            k += 1
                        elif not islist(ev[0]):
                            problem = f"rows and events do not correspond one to one in order (row {k}: {pn[k] if k < len(pn) else 'end'} vs event {j}: {ev})"
                            break
                    if problem is None and k < len(pn):
                        problem = f"rows and events do not correspond one to one in order (row {k}: {pn[k]} has no event at its place)"
                    if problem is None:
                        # a warning's row stands where its event stands: as many field rows before it as there are field events
                        # before the warning (a byte buffer counts as the one row it is; the optional rows of non-byte lists are
                        # not counted on either side - the printer shows the row of an EMPTY list only after the warnings it met
                        # while looking for the list's first element)
                        fe, seen, skip_parent = [], 0, None
                        for l in erow:
                            if l.startswith("E! "):
                                fe.append(seen)
                                continue
                            t, path = l.split(" ")[1], l.split(" ")[2]
                            if skip_parent is not None and path.rsplit("[", 1)[0] == skip_parent and "[" in path.rsplit(".", 1)[-1]:
                                continue
                            skip_parent = path if t == "list[BYTE]" else None
                            if not islist(t):
                                seen += 1
                        fr, seen = [], 0
                        for l in prow:
                            if l.startswith("P! "):
                                fr.append(seen)
                            elif l.startswith("P ") and l.split(" ")[1] != "-" and not islist(l.split(" ")[1]):
                                seen += 1
                        if fe != fr:
                            k_ = next((i for i, (a_, b_) in enumerate(zip(fe, fr)) if a_ != b_), 0)
                            problem = (f"warning {k_} is not shown where it occurred: {fr[k_] if k_ < len(fr) else '?'} field rows precede its row, "
                                       f"{fe[k_] if k_ < len(fe) else '?'} field events precede the warning")
        if problem is None:
            # a byte buffer's value column is the text form of its bytes: printable ASCII (0x20..0x7e) as itself, every other byte
            # as '.' (seed C14j: the translate table rebuilt with 0x7f passing through)
            for l in prow:
                q = l.split(" ", 5)
                if l.startswith("P list[BYTE] ") and len(q) >= 5 and q[4] != "-":
                    want = "".join(chr(b_) if 32 <= b_ <= 126 else "." for b_ in bytes.fromhex(q[4]))
                    got = q[5] if len(q) > 5 else ""
                    if got.strip() != want.strip():
                        problem = f"value column of the byte buffer {q[3]} is {got!r}, the text form of its bytes {q[4][:40]} is {want!r}"
                        break
        if problem is None:
            # bit rows: an attribute word that is not a list element is followed by one bit row per field of its type (pinned
            # layout; TPM_RC's rows depend on the code's format, so only "some"), every other row — list elements included — by none
            # (seed C14f: the elements of `list[TPMA_CC]` got bit rows)
            rows_ = [l.split(" ") for l in prow if l.startswith("P ")]
            j = 0
            while j < len(rows_) and problem is None:
                r = rows_[j]
                nbits = 0
                while j + 1 + nbits < len(rows_) and rows_[j + 1 + nbits][1] == "-":
                    nbits += 1
                for b_ in rows_[j + 1: j + 1 + nbits]:
                    if problem is None and r[1] != "-" and int(b_[2]) != int(r[2]) + 1:
                        problem = f"indentation of a bit row: row {b_[3]} below {r[3]} (depth {r[2]}) is indented to depth {b_[2]}"
                if r[1] != "-":
                    pr = L["prims"].get(r[1])
                    is_attr = pr is not None and (pr.get("flavour") == "bitfield" or r[1] == "TPM_RC")
                    elem = r[3].endswith("]")
                    has_value = len(r) > 5 and r[4] != "-"
                    if elem and nbits:
                        problem = f"bit rows after a list element: row {r[3]} ({r[1]}) is followed by {nbits} bit rows"
                    elif is_attr and not elem and has_value:
                        want = len(pr["masks"]) if pr.get("flavour") == "bitfield" else None
                        if want is not None and nbits != want:      # TPM_RC: the rows depend on the code (none for SUCCESS); C18 decides them
                            problem = f"bit rows missing or surplus: attribute word {r[3]} ({r[1]}) is followed by {nbits} bit rows, its type has {want if want is not None else 'some'} fields"
                    elif not is_attr and nbits:
                        problem = f"bit rows after a value that is no attribute word: row {r[3]} ({r[1]}) is followed by {nbits} bit rows"
                j += 1 + nbits
        stats["violation" if problem else "ok"] += 1
        if problem and len([v for v in ctx.violations if v.get("signature") == "print:" + problem.split(":")[0][:30]]) < 2:
            ctx.violations.append({"kind": "concrete", "signature": "print:" + problem.split(":")[0][:30], "what": problem,
                                   "replay": c.replay(m)})
    ctx.stats.update({
        "evaluations": len(ops), "distinct_nontrivial": len({(c.tname, c.cc, c.enc, c.data, m) for c, m in owners if c.data}),
        "rule": "event streams of well-formed, fault-enumerated and arbitrary inputs of all types/command codes, both modes, rendered by "
                "Pretty.unmarshal and Events.unmarshal of the real code; rows split into their columns by the colour codes; checks: no "
                "printer failure, hex column == re-encoded events (== whole input when well-formed), warnings once and in order in both "
                "printers, one events-printer row per event, pretty rows correspond one-to-one in order to the structure/primitive/byte-"
                "buffer/empty-list events; every row compared with the model (type, depth, name, hex, value, bit rows)",
        "samples": [c.replay(m) for c, m in owners[:: max(1, len(owners) // 5)]][:5],
        "correspondence": {"ops": len(ops), "model_vs_impl_disagreements": len(corr)},
        "distribution": {"kinds": ds.kinds_distribution(cases), "results": dict(stats)},
    })


PROP = {"targets": ["TpmProofs.Props.C14B"], "module": "TpmProofs.Props.C14B", "checker_modules": ["TpmProofs.Props.C14B", "TpmProofs.EndsOk"], "theorems": THEOREMS, "run": run,
        "assumptions": ["final string padding and colour codes are not modelled (rows are compared column-wise)",
                        "that decoder-produced streams are shaped and no list run in them is ended by a byte buffer (`shownB` = `shapedB` && `endsOk`; C14.c14_decoder_shown)  (`shapedB`: values of primitive classes, byte-buffer children carry values) is a theorem "
                        "(C14.decoder_shaped: every layout of /repo, commands, responses, streams, either mode, every input); it is additionally evaluated on every "
                        "stream by the model (K line of PRINT) and independently on the implementation's events"]}
