"""C16 — protocol integers carry their value, width, validity and name faithfully."""
import collections
import random

import core
import gen
import intsuite

THEOREMS = ["C16.c16_width", "C16.c16_roundtrip", "C16.c16_roundtrip_bytes", "C16.c16_owners_tables",
            "C16.c16_toBytes_declared", "C16.c16_valid_iff", "C16.c16_declared_fit_tables", "C16.c16_valid_fits",
            "C16.c16_format_enum_member", "C16.c16_format_int_named", "C16.c16_format_int_member", "C16.c16_ops"]


def run(ctx, replay_case):
    rnd = random.Random(ctx.seed)
    L = gen.load_layout("pinned")
    ops, pin_ops = [], []
    per_prim = {}
    for pn in L["prim_order"]:
        xs = intsuite.int_values(L, pn, rnd, ctx.tier)
        per_prim[pn] = xs
        for x in xs:
            ops.append(("INT", pn, x))
            pin_ops.append(f"INTP {pn} {x}")
    impl = core.run_impl(ops)
    model = core.run_model([core.op_line(o) for o in ops])
    pinned = core.run_model(pin_ops)
    corr = [i for i in range(len(ops)) if impl[i] != model[i]]
    mon = [i for i in range(len(ops)) if impl[i] != pinned[i]]
    for i in mon[:200]:
        _, pn, x = ops[i]
        a, b = impl[i][0], pinned[i][0]
        field = next((k for k, (u, w) in enumerate(zip(a.split(" ", 3), b.split(" ", 3))) if u != w), 0)
        what = ["", "validity", "byte form", "text form"][min(field, 3)]
        ctx.violations.append({"kind": "concrete", "signature": f"int:{pn}:{what}",
                               "what": f"{pn}({x}): {what} differs from what the pinned declaration dictates",
                               "replay": {"type": pn, "value": x, "expected": b, "observed": a}})
    if corr and not mon:
        i = corr[0]
        ctx.violations.append({"kind": "correspondence", "what": "typed-integer model and implementation disagree",
                               "replay": {"correspondence": "INT", "type": ops[i][1], "value": ops[i][2],
                                          "model": model[i], "impl": impl[i], "disagreements": len(corr)}})
    # the enumeration machinery's filtering, exercised at run time after the parent enumeration has been used (seed C16f: a member
    # cache filled on first use was copied into subsets derived afterwards)
    der = core.run_impl_fresh([("ENUMDERIVE",)])[0]
    derbad = [l for l in der if " ok " not in l]
    for l in derbad[:3]:
        ctx.violations.append({"kind": "concrete", "signature": "enum-derive:" + l.split(" ")[1],
                               "what": f"TPM_ALG.by_type_{l.split(' ')[1]} derived after TPM_ALG had been used does not hold exactly the members of those kinds: {l.split(' ', 2)[2][:200]}",
                               "replay": {"sequence": ["TPM_ALG(0x000B); list(TPM_ALG)", "D = TPM_ALG.by_type_" + l.split(" ")[1], "ValidValues(D).get(x)"], "observed": l}})
    # int emulation (operators in both operand orders), implementation against the plain integer
    others = [0, 1, -1, 2, 3, 7, 255, -128, 1 << 16, (1 << 32) - 1, 1 << 63]
    emu_bad = 0
    emu_cases = 0
    for pn in L["prim_order"]:
        xs = per_prim[pn]
        pick = sorted(set(xs[:3] + xs[-3:] + rnd.sample(xs, min(len(xs), 6 if ctx.tier == "quick" else 40))))
        emu_cases += len(pick) * len(others) * len(intsuite.BINOPS) * 2
        bad = intsuite.int_emulation_failures(pn, pick, others)
        for x, opn, detail in bad[:2]:
            emu_bad += 1
            ctx.violations.append({"kind": "concrete", "signature": f"emu:{pn}:{opn.split('(')[0]}",
                                   "what": f"{pn}({x}) does not behave like the plain integer under {opn}",
                                   "replay": {"type": pn, "value": x, "operation": opn, "detail": detail}})
    flav = collections.Counter(L["prims"][pn]["flavour"] for pn in L["prim_order"])
    outcome = collections.Counter(b[0].split(" ")[1] for b in impl)
    ctx.stats.update({
        "evaluations": len(ops) + emu_cases,
        "distinct_nontrivial": len({(o[1], o[2]) for o in ops}),
        "rule": "for each of the 102 primitive types: all values of 1-byte types (2-byte: 1500 random in quick, all in "
                "thorough), interval end points +-2 of every declared item, width limits, seeded random in-width values; "
                "validity/byte form/text form compared with the Lean model over the PINNED tables (response codes: the "
                "bit-position spec) and with the model over the regenerated tables; operators in both operand orders vs "
                "the plain integer over boundary operands; distinct = distinct (type, value)",
        "samples": [{"type": o[1], "value": o[2], "impl": impl[i][0]} for i, o in list(enumerate(ops))[:: max(1, len(ops) // 6)]][:6],
        "exhaustive": ctx.tier == "thorough",
        "correspondence": {"ops": len(ops), "model_vs_impl_disagreements": len(corr),
                           "impl_vs_pinned_disagreements": len(mon), "operator_failures": emu_bad},
        "distribution": {"flavours": dict(flav), "valid_vs_invalid": dict(outcome)},
    })


PROP = {
    "targets": ["TpmProofs.Props.C16"], "module": "TpmProofs.Props.C16", "theorems": THEOREMS, "run": run,
    "assumptions": ["text form = format(value) (what both printers use); str() of _INT-flavoured types is decimal by construction of numeric() and is not judged",
                    "operator table is read from the source text of numeric() (AST patterns); CPython's int operators are trusted"],
}
