"""C01 — well-formed encodings decode to exactly the field-by-field event sequence."""
import collections
import random

import core
import gen
import suites

THEOREMS = ["decode_ok", "C01.c01_walker", "C01.c01_top", "intOfBytes_intToBytes", "intToBytes_length"]


def run(ctx, replay_case):
    rnd = random.Random(ctx.seed)
    per_type = 4 if ctx.tier == "quick" else 30
    L, cases, novalue = suites.g1_cases(rnd, per_type)
    if replay_case and replay_case.get("type") and "hex" in replay_case:
        pass
    res = suites.run_g1(cases)
    if res["gen_spec_mismatch"]:
        raise RuntimeError(f"harness bug: generator and pinned spec disagree, e.g. {cases[res['gen_spec_mismatch'][0]][0]}")
    for i in sorted(res["monitor"], key=lambda i: len(cases[i][2]))[:5]:
        key, v, b = cases[i]
        exp = suites.expected_lines(res["spec"][i], len(b), v)
        k, e, g = suites.first_diff(exp, res["impl"][i])
        ctx.violations.append({"kind": "concrete", "signature": f"decode:{key}:{e.split(' ')[0]}",
                               "what": f"well-formed encoding of {key} does not decode to the events/object the layout dictates",
                               "replay": {"type": key, "hex": b.hex(), "mode": "strict", "line": k,
                                          "expected": e, "observed": g}})
    if res["corr"]:
        i = min(res["corr"], key=lambda i: len(cases[i][2]))
        k, e, g = suites.first_diff(res["model"][i], res["impl"][i])
        ctx.violations.append({"kind": "correspondence", "what": "model and implementation disagree on a well-formed encoding",
                               "replay": {"correspondence": "DEC strict G1", "type": cases[i][0], "hex": cases[i][2].hex(),
                                          "model": e, "impl": g, "disagreements": len(res["corr"])}})
    kinds = collections.Counter(L["types"][k]["kind"] for k, _, _ in cases)
    sizes = collections.Counter(min(len(b) // 16 * 16, 256) for _, _, b in cases)
    ctx.stats.update({
        "evaluations": len(cases),
        "distinct_nontrivial": len({(k, b) for k, _, b in cases if len(b) > 0}),
        "rule": "G1: conforming value trees per the pinned layout for every non-union type incl. the 468 handle/parameter "
                "areas (random draws + one per boundary value of every union selector); oracle = Lean `spec` over the "
                "pinned tables (events, offsets, object), compared with the implementation's strict decode incl. "
                "pull counts; distinct = distinct (type, encoding), non-trivial = non-empty encoding",
        "samples": [{"type": k, "hex": b.hex()[:80]} for k, _, b in cases[:: max(1, len(cases) // 6)]][:6],
        "correspondence": {"ops": len(cases), "model_vs_impl_disagreements": len(res["corr"]),
                           "impl_vs_spec_disagreements": len(res["monitor"])},
        "distribution": {"types_covered": len({k for k, _, _ in cases}), "types_without_value": novalue,
                         "by_kind": dict(kinds), "encoding_length_buckets": {str(k): v for k, v in sorted(sizes.items())}},
    })


PROP = {
    "targets": ["TpmProofs.Props.C01"],
    "module": "TpmProofs.Props.C01",
    "theorems": THEOREMS,
    "run": run,
    "assumptions": ["conformance of a value tree to a layout is `spec … = some _` (TpmModel/Spec.lean)"],
}
