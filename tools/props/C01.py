"""C01 — well-formed encodings decode to exactly the field-by-field event sequence."""
import collections
import random

import core
import decsuite as ds
import gen
import suites

THEOREMS = ["decode_ok", "C01.c01_walker", "C01.c01_top", "intOfBytes_intToBytes", "intToBytes_length",
            "decodeArea_ok", "decodeSized_ok", "decodeCommand_ok", "decodeResponse_ok", "decodeStream_ok",
            "MsgWF.c01_command_walker", "MsgWF.c01_command", "MsgWF.c01_response", "MsgWF.c09_stream", "MsgWF.tag_sizes",
            "AcceptIff.type_accept_iff", "AcceptIff.command_accept_iff", "AcceptIff.response_accept_iff", "AcceptIff.stream_accept_iff"]


def run(ctx, replay_case):
    rnd = random.Random(ctx.seed)
    per_type = 4 if ctx.tier == "quick" else 30
    L, cases, novalue = suites.g1_cases(rnd, per_type)
    if replay_case and replay_case.get("type") and "hex" in replay_case:
        pass
    res = suites.run_g1(cases)
    if res["gen_spec_mismatch"]:
        raise RuntimeError(f"harness bug: generator and pinned spec disagree, e.g. {cases[res['gen_spec_mismatch'][0]][0]}")
    for i in sorted(res["monitor"], key=lambda i: len(cases[i][2]))[:5]:
        key, v, b = cases[i]
        exp = suites.expected_lines(res["spec"][i], len(b), v)
        k, e, g = suites.first_diff(exp, res["impl"][i])
        ctx.violations.append({"kind": "concrete", "signature": f"decode:{key}:{e.split(' ')[0]}",
                               "what": f"well-formed encoding of {key} does not decode to the events/object the layout dictates",
                               "replay": {"type": key, "hex": b.hex(), "mode": "strict", "line": k,
                                          "expected": e, "observed": g}})
    if res["corr"]:
        i = min(res["corr"], key=lambda i: len(cases[i][2]))
        k, e, g = suites.first_diff(res["model"][i], res["impl"][i])
        ctx.violations.append({"kind": "correspondence", "what": "model and implementation disagree on a well-formed encoding",
                               "replay": {"correspondence": "DEC strict G1", "type": cases[i][0], "hex": cases[i][2].hex(),
                                          "model": e, "impl": g, "disagreements": len(res["corr"])}})
    # --- the same well-formed encodings decoded right after a decode that was abandoned (rejected or truncated input, strict and
    # warn mode): what a decode yields must not depend on what was decoded before (state left behind by an aborted decode)
    poisons = [("DEC", "S", "TPM2B_DIGEST", None, False, bytes.fromhex("0004dead")),
               ("DEC", "W", "TPM2B_DIGEST", None, False, bytes.fromhex("0004dead")),
               ("DEC", "S", "TPM2B_ECC_POINT", None, False, bytes.fromhex("0008000201")),
               ("DEC", "S", "TPMT_HA", None, False, bytes.fromhex("0099")),
               ("DEC", "S", "Command", None, False, bytes.fromhex("80020000001b0000017b00000009020000000000")),
               ("DEC", "S", "TPM2B_PUBLIC", None, False, bytes.fromhex("00100023000b0000000000000010"))]
    sample = rnd.sample(range(len(cases)), min(len(cases), 240 if ctx.tier == "quick" else 2400))
    hops = []
    for n_, i in enumerate(sample):
        hops.append(poisons[n_ % len(poisons)])
        hops.append(res["ops"][i])
    himpl = core.run_impl(hops)
    nhist = 0
    for n_, i in enumerate(sample):
        if himpl[2 * n_ + 1] != res["impl"][i] and i not in res["monitor"]:
            nhist += 1
            if nhist <= 3:
                key, v, b = cases[i]
                k, e, g = suites.first_diff(res["impl"][i], himpl[2 * n_ + 1])
                po = poisons[n_ % len(poisons)]
                ctx.violations.append({"kind": "concrete", "signature": f"decode-after-abandoned:{po[2]}",
                                       "what": f"well-formed encoding of {key} decodes differently right after an abandoned decode of {po[2]}",
                                       "replay": {"history": [{"type": po[2], "mode": {"S": "strict", "W": "warn"}[po[1]], "hex": po[5].hex()},
                                                              {"type": key, "mode": "strict", "hex": b.hex()}],
                                                  "line": k, "expected": e, "observed": g}})
    # --- whole messages: commands, responses (under their command's code and encryption flag) and exchanges as streams.
    # (a) model == implementation; (b) the implementation returns the object the generator built and ends cleanly;
    # (c) the message-level specification (`specCommand` / `specResponse` / `specStream`, the hypothesis of the message
    #     theorems) accepts the message and dictates exactly these bytes and this many events
    _, M, mcases = ds.wellformed(rnd, ctx.tier, structs=False, messages=True, streams=True, per_cc=1 if ctx.tier == "quick" else 6)
    mres = ds.run_both(mcases, "S")
    mimpl, mmodel = mres["S"]
    ds.correspondence_violation(ctx, "DEC strict (well-formed messages)", mcases, "S", mimpl, mmodel)
    mspec = core.run_model([f"MSPEC {c.tname} {c.cc if c.cc is not None else '-'} {1 if c.enc else 0} {c.data.hex()}" for c in mcases])
    spec_bad = 0
    msg_bad = 0
    for c, im, sp in zip(mcases, mimpl, mspec):
        nev = sum(1 for l in im if l.startswith("M "))
        want_r = "R done obj=None" if c.kind == "wf_stream" else f"R done obj={gen.obj_str(c.val)}"
        if im[-1] != want_r or any(l.startswith("W ") for l in im):
            msg_bad += 1
            if msg_bad <= 3:
                ctx.violations.append({"kind": "concrete", "signature": f"decode:{c.kind}",
                                       "what": f"a well-formed {c.tname} does not decode cleanly to the object the layout dictates",
                                       "replay": {**c.replay("S"), "expected": want_r[:400], "observed": im[-1][:400]}})
        elif sp != [f"MS ok bytes={len(c.data)} events={nev}"]:
            spec_bad += 1
            if spec_bad <= 3:
                ctx.violations.append({"kind": "correspondence",
                                       "what": "the message-level specification does not dictate what the implementation decodes from a well-formed message",
                                       "replay": {"correspondence": "MSPEC", **c.replay("S"), "model": sp[0] if sp else "<none>",
                                                  "impl": f"{len(c.data)} bytes, {nev} events, {im[-1][:80]}"}})
    kinds = collections.Counter(L["types"][k]["kind"] for k, _, _ in cases)
    sizes = collections.Counter(min(len(b) // 16 * 16, 256) for _, _, b in cases)
    ctx.stats.update({
        "evaluations": len(cases) + len(mcases),
        "distinct_nontrivial": len({(k, b) for k, _, b in cases if len(b) > 0}),
        "rule": "G1: conforming value trees per the pinned layout for every non-union type incl. the 468 handle/parameter "
                "areas (random draws + one per boundary value of every union selector); oracle = Lean `spec` over the "
                "pinned tables (events, offsets, object), compared with the implementation's strict decode incl. "
                "pull counts; distinct = distinct (type, encoding), non-trivial = non-empty encoding.  "
                "Messages: a command, its response and the exchange as a stream for every command code (sessions, parameter encryption, "
                "failed responses mixed): model == implementation, clean end with the generator's object, and the Lean message "
                "specification accepts the message with exactly its bytes and event count",
        "samples": [{"type": k, "hex": b.hex()[:80]} for k, _, b in cases[:: max(1, len(cases) // 6)]][:6],
        "correspondence": {"ops": len(cases), "decodes_after_an_abandoned_decode": len(sample), "model_vs_impl_disagreements": len(res["corr"]),
                           "impl_vs_spec_disagreements": len(res["monitor"]),
                           "message_ops": len(mcases), "message_spec_rejections_or_mismatches": spec_bad},
        "distribution": {"messages": ds.kinds_distribution(mcases), "message_monitor_failures": msg_bad, "types_covered": len({k for k, _, _ in cases}), "types_without_value": novalue,
                         "by_kind": dict(kinds), "encoding_length_buckets": {str(k): v for k, v in sorted(sizes.items())}},
    })


PROP = {
    "targets": ["TpmProofs.Props.AcceptIff"],
    "module": "TpmProofs.Props.AcceptIff",
    "theorems": THEOREMS,
    "run": run,
    "assumptions": ["conformance of a value tree to a layout is `spec … = some _` (TpmModel/Spec.lean); well-formedness of a message is "
                    "`specCommand` / `specResponse` / `specStream … = some _` (TpmModel/MsgSpec.lean); the check measures on generated "
                    "messages that these predicates accept what the generator and the implementation regard as well-formed"],
}
