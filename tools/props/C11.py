"""C11 — events and Python objects convert into each other without loss."""
import collections
import random

import core
import decsuite as ds
import gen

THEOREMS = ["C11.c11_obj_to_events", "C11.c11_fields", "C11.c11_arms", "C11.c11_tables", "C11.c11_roundtrip", "C11.fieldWith_o2e", "decode_ok",
            "C11.c11_e2o_tables", "C11.c11_e2o_enckey", "C11.c11_events_to_obj", "C11.c11_decoder_object_is_rebuilt", "C11.c11_e2o_msg_tables",
            "C11.c11_type_rebuilt", "C11.c11_command_rebuilt", "C11.c11_response_rebuilt", "cmd_events_to_obj", "rsp_events_to_obj", "area_builds", "spec_builds",
            "fields_builds", "arm_builds", "descend_key", "descend_idx", "spec_under"]


def run(ctx, replay_case):
    rnd = random.Random(ctx.seed)
    L, M, wf = ds.wellformed(rnd, ctx.tier, per_type=2 if ctx.tier == "quick" else 10, per_cc=3 if ctx.tier == "quick" else 10,
                             streams=False)
    ops = [c.op("S", "OBJ") for c in wf]
    impl = core.run_impl(ops)
    # model: obj_to_events of the generated value tree (Lean `o2e` / `o2eMessage` over the regenerated tables)
    mops = [f"O2E {c.tname} {'-' if c.cc is None else c.cc} {gen.val_str(c.val)}" for c in wf]
    model = core.run_model(mops)
    stats = collections.Counter()
    absent = collections.Counter()
    for c, b, mb in zip(wf, impl, model):
        problem = None
        d = next((l for l in b if l.startswith("D ")), "D ?")
        if d != "D " + gen.obj_str(c.val):
            problem = f"the decoder's object is not the generated value: {d[:120]}"
        else:
            flags = {l[0]: l[2:] for l in b if l[:2] in ("Q ", "X ", "Z ", "Y ", "C ", "B ")}
            if flags.get("Q") != "1":
                problem = "the object rebuilt from the events does not equal the decoder's object: " + flags.get("B", "")[:160]
            elif flags.get("Z") != "1":
                problem = "obj_to_events(decoder object) does not reproduce the decoded event list"
            elif flags.get("X") != "1":
                problem = "obj_to_events of the rebuilt object differs from obj_to_events of the decoder's object"
            elif flags.get("Y") != (c.data.hex() or "-"):
                problem = "re-encoding the object does not yield the original bytes"
            elif flags.get("C", "1") != "1" and not (c.tname == "TPM2B_ENCRYPTED_PARAM" and flags.get("C", "").startswith("crash ValueError")):
                problem = "the Canonical facade disagrees (object from bytes / events from object)"
        o2e_impl = [l for l in b if l.startswith("M ")]
        if problem is None and o2e_impl != mb:
            k, e, g = __import__("suites").first_diff(mb, o2e_impl)
            ctx.violations.append({"kind": "correspondence", "what": "obj_to_events model and implementation disagree",
                                   "replay": {"correspondence": "O2E", **c.replay("S"), "line": k, "model": e, "impl": g}})
        s = gen.obj_str(c.val)
        if "=None" in s or "{}" in s:
            absent["with_absent_parts"] += 1
        stats["violation" if problem else "ok"] += 1
        if problem and len([v for v in ctx.violations if v.get("signature") == "obj:" + problem.split(":")[0][:40]]) < 2:
            ctx.violations.append({"kind": "concrete", "signature": "obj:" + problem.split(":")[0][:40], "what": problem,
                                   "replay": c.replay("S")})
    # conversions applied late: one message per parameter class of every command code under an encrypting session (234 classes ask
    # `TPMS_PARAMS.encrypted()` for their layout) is decoded first, and only then are the kept events turned into objects and back
    # (seed C11f: a bounded cache forgets the synthesized class in between, so the rebuilt object is of another class of the same name)
    late = []
    for cc in M.ccs:
        c_ = M.command(cc, nsess=1, decrypt=True)
        if c_:
            late.append(("Command", None, False, c_[1]))
        r_ = M.response(cc, nsess=1, encrypt=True)
        if r_:
            late.append(("Response", cc, True, r_[1]))
    lres = core.run_impl_fresh([("LATE", "S", late)])[0]
    lbad = [l for l in lres if not l.endswith(" ok")]
    stats["late_conversions"] = len(lres)
    stats["late_conversion_failures"] = len(lbad)
    if lbad:
        i = int(lbad[0].split(" ")[1])
        # shrink: the shortest prefix of the history that still fails for this message
        lo, hi = i + 1, len(late)
        while lo < hi:
            mid = (lo + hi) // 2
            r2 = core.run_impl_fresh([("LATE", "S", late[:mid])])[0]
            if not r2[i].endswith(" ok"):
                hi = mid
            else:
                lo = mid + 1
        ctx.violations.append({"kind": "concrete", "signature": "obj:late:" + lbad[0].split(" ")[2],
                               "what": f"after {lo} decodes in one process the object rebuilt from the kept events of decode #{i} does not convert back and forth "
                                       f"without loss: {lbad[0][:120]} ({len(lbad)} of {len(lres)} messages affected)",
                               "replay": {"history": [{"type": t, "command_code": cc, "parameter_encryption": enc, "hex": d.hex()} for t, cc, enc, d in late[:lo]],
                                          "convert_after_all_decodes": i, "mode": "strict"}})
    # events_to_obj: model (Lean `e2oTop`: events -> nested dict -> object) vs implementation, on the events of strict and
    # warn-mode decodes of well-formed, bit-flipped and truncated inputs (partial event lists included)
    eops = []
    for c in wf:
        eops.append(("E2O", "S", c.tname, c.cc, c.enc, c.data))
        if c.data:
            k = rnd.randrange(len(c.data))
            b = bytearray(c.data)
            b[k] ^= 1 << rnd.randrange(8)
            eops.append(("E2O", "W", c.tname, c.cc, c.enc, bytes(b)))
            eops.append(("E2O", "S", c.tname, c.cc, c.enc, bytes(b[:k])))
    eimpl = core.run_impl(eops)
    emodel = core.run_model([core.op_line(o) for o in eops])
    ebad = [i for i in range(len(eops)) if eimpl[i] != emodel[i]]
    e2o_kinds = collections.Counter(("crash" if l[0] == "B crash" else "none" if l[0] == "B None" else "object") for l in eimpl)
    if ebad:
        i = min(ebad, key=lambda j: len(eops[j][5]))
        o = eops[i]
        ctx.violations.append({"kind": "correspondence", "what": "events_to_obj model and implementation disagree",
                               "replay": {"correspondence": "E2O", "mode": {"S": "strict", "W": "warn"}[o[1]], "type": o[2], "command_code": o[3],
                                          "parameter_encryption": bool(o[4]), "hex": o[5].hex(), "model": emodel[i][0][:300],
                                          "impl": eimpl[i][0][:300], "disagreements": len(ebad)}})
    ctx.stats.update({
        "evaluations": len(wf) + len(eops), "distinct_nontrivial": len({(c.tname, c.cc, c.data) for c in wf if len(c.data) > 0}),
        "rule": "well-formed structures of every type and commands/responses of every command code (sessions, encrypted parameters, failed "
                "responses, empty TPM2B payloads, null union arms): decoder object == generated value; events_to_obj(events) == decoder object; "
                "obj_to_events(either) == decoded events exactly; re-encoding == input bytes; Canonical facade; obj_to_events compared with "
                "the Lean model applied to the generated value tree; events_to_obj compared with the Lean model `e2oTop` on the event lists of strict/warn "
                "decodes of well-formed, bit-flipped and truncated inputs",
        "samples": [c.replay("S") for c in wf[:: max(1, len(wf) // 5)]][:5],
        "correspondence": {"ops": len(wf) + len(eops)},
        "distribution": {"kinds": ds.kinds_distribution(wf), "results": dict(stats), "events_to_obj_results": dict(e2o_kinds)},
    })


PROP = {"targets": ["TpmProofs.Props.C11E"], "module": "TpmProofs.Props.C11E", "theorems": THEOREMS, "run": run,
        "assumptions": ["events_to_obj is modelled (`e2oTop`) and tied by the E2O correspondence; 'decoder object == object rebuilt from the events' is a "
                        "theorem for structure types, commands and responses (every layout of /repo, every command code and encryption flag, every accepted input)",
                        "obj_to_events is modelled, proved for every layout and conforming value, and tied by correspondence"]}
