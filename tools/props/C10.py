"""C10 — decoding is incremental: one byte of look-ahead, prefix-stable, source-agnostic."""
import collections
import random

import canon
import core
import decsuite as ds

THEOREMS = ["C10.c10_lookahead", "C10.c10_pulls_bounded", "C10.c10_source", "lookahead_facts", "runWalker_acct",
            "MsgWF.c10_shown", "MsgWF.c01_command", "MsgWF.c01_response", "MsgWF.c09_stream",
            "C10.c10_prefix_stable", "C10.c10_prefix_exact", "runWalker_tr",
            "C10.c10_stream_prefix_stable", "stream_prefix_stable", "runWalker_srb"]
SOURCES = ["bytes", "bytearray", "list", "tuple", "iterator", "generator"]


def run(ctx, replay_case):
    rnd = random.Random(ctx.seed)
    L, M, wf = ds.wellformed(rnd, ctx.tier, per_type=1 if ctx.tier == "quick" else 3, per_cc=1 if ctx.tier == "quick" else 4)
    full = core.run_impl([c.op("S") for c in wf])
    cuts = []
    for c, b in zip(wf, full):
        if not ds.usable(ctx, c, b, L, ctx.stats.setdefault("inputs", {})):
            continue
        n = len(c.data)
        ks = range(n) if (ctx.tier == "thorough" or n <= 24) else sorted(set(rnd.sample(range(n), 24)) | {0, 1, n - 1})
        for k in ks:
            cuts.append(ds.Case(c.tname, c.cc, c.enc, c.data[:k], "prefix", None, {"full": b, "cut": k, "base": c}))
    if ctx.tier == "quick" and len(cuts) > 15000:
        cuts = rnd.sample(cuts, 15000)
    res = ds.run_both(cuts, "S")
    cimpl, cmodel = res["S"]
    ds.correspondence_violation(ctx, "DEC strict (prefixes)", cuts, "S", cimpl, cmodel)
    mres = core.run_model([core.op_line(c.op("S")) for c in wf])
    ds.correspondence_violation(ctx, "DEC strict (well-formed)", wf, "S", full, mres)

    def lookahead_bad(block):
        evs = ds.events_of(block)
        if not ds.widths_ok(block, L):
            return None
        offs = ds.event_offsets(evs, L)
        for l, off in zip(evs, offs):
            if ds.pulls_of(l) > off + 1:
                return l, off
        return None

    nla = 0
    for c, b in list(zip(wf, full)) + list(zip(cuts, cimpl)):
        bad = lookahead_bad(b)
        if bad:
            nla += 1
            ctx.violations.append({"kind": "concrete", "signature": "lookahead",
                                   "what": f"an event was emitted after pulling {ds.pulls_of(bad[0])} bytes although the fields "
                                           f"emitted so far hold only {bad[1]} bytes (more than one byte of look-ahead)",
                                   "replay": {**c.replay("S"), "event": bad[0]}})
    npre = 0
    for c, b in zip(cuts, cimpl):
        fullb = c.meta["full"]
        k = c.meta["cut"]
        fe = [ds.strip_pulls(l) for l in ds.events_of(fullb)]
        pe = [ds.strip_pulls(l) for l in ds.events_of(b)]
        offs = ds.event_offsets(ds.events_of(fullb), L)
        expected = [e for e, o in zip(fe, offs) if o <= k]
        if c.tname == "Stream" and expected and expected[-1].startswith("M . ") and offs[len(expected) - 1] == k:
            # a stream may end cleanly at a message boundary: the next message's root event is not shown
            expected = expected[:-1]
        if pe != fe[:len(pe)]:
            npre += 1
            ctx.violations.append({"kind": "concrete", "signature": "prefix-stability",
                                   "what": "the events of a prefix are not a prefix of the events of the whole input",
                                   "replay": {**c.replay("S"), "whole": c.meta["base"].data.hex()}})
        elif pe != expected:
            npre += 1
            ctx.violations.append({"kind": "concrete", "signature": "complete-fields",
                                   "what": f"cut at {k}: {len(pe)} events emitted, but {len(expected)} fields/structures are complete in the prefix",
                                   "replay": {**c.replay("S"), "whole": c.meta["base"].data.hex()}})
    # sources
    sample = wf + cuts[:: max(1, len(cuts) // 300)]
    sample = sample if ctx.tier == "thorough" else rnd.sample(sample, min(len(sample), 400))
    nsrc = 0
    for src in SOURCES:
        ops = [("DECSRC", "S", c.tname, c.cc, c.enc, c.data, src) for c in sample]
        outs = core.run_impl(ops)
        refs = core.run_impl([c.op("S") for c in sample])
        for c, o, r in zip(sample, outs, refs):
            if [ds.strip_pulls(l) for l in o] != [ds.strip_pulls(l) for l in r]:
                nsrc += 1
                ctx.violations.append({"kind": "concrete", "signature": f"source:{src}",
                                       "what": f"decoding from a {src} source differs from decoding the same bytes from a counting iterator",
                                       "replay": {**c.replay("S"), "source": src}})
    # the text front-ends are lazy byte generators too: decoding hex text / an swtpm log from a one-character-at-a-time source, an
    # event is emitted after pulling no more text than up to the second digit of the look-ahead byte (seed C10f: the hex reader
    # converted whole runs of digits at once).  The positions of the digits are known from the rendering, not from the reader.
    def hex_layouts(data):
        yield "contiguous", data.hex().encode(), [2 * i + 2 for i in range(len(data))]
        txt, pos = b"", []
        for i, x in enumerate(data):
            txt += f"{x:02x}".encode()
            pos.append(len(txt))
            txt += b" " if (i + 1) % 4 else b"\n"
        yield "groups-of-4", txt, pos
        txt, pos = b"", []
        for i, x in enumerate(data):
            txt += b"  " + f"{x:02X}".encode()[:1] + b" " + f"{x:02X}".encode()[1:]
            pos.append(len(txt))
            if (i + 1) % 16 == 0:
                txt += b"\r\n"
        yield "split-pairs", txt + b"\n\n", pos

    def swtpm_layout(parts):
        txt = b"Starting vTPM\n SWTPM_NVRAM_Init: directory\n"
        pos = []
        for i, m in enumerate(parts):
            if i % 3 == 1:
                txt += b" Ctrl Cmd: length 4\n 00 00 00 01 \n Ctrl Rsp: length 4\n 00 00 00 00 \n"
            txt += (b" SWTPM_IO_Read: length %d\n" if i % 2 == 0 else b" SWTPM_IO_Write: length %d\n") % len(m)
            for j in range(0, len(m), 16):
                txt += b" "
                for x in m[j:j + 16]:
                    txt += f"{x:02X}".encode()
                    pos.append(len(txt))
                    txt += b" "
                txt += b"\n"
        return txt, pos

    fops, fmeta = [], []
    fsample = [c for c in wf if c.data][:: max(1, len(wf) // (60 if ctx.tier == "quick" else 600))]
    for c in fsample:
        for name, txt, pos in hex_layouts(c.data):
            fops.append(("DECFRONT", "S", c.tname, c.cc, c.enc, txt, "hex"))
            fmeta.append((c, "hex/" + name, txt, pos))
        if c.tname in ("Command", "Stream"):
            parts = [c.data[sum(c.meta["parts"][:i]):sum(c.meta["parts"][:i + 1])] for i in range(len(c.meta["parts"]))] if c.tname == "Stream" else [c.data]
            txt, pos = swtpm_layout(parts)
            fops.append(("DECFRONT", "S", c.tname, c.cc, c.enc, txt, "swtpm"))
            fmeta.append((c, "swtpm", txt, pos))
    fres = core.run_impl(fops)
    nfront = 0
    for (c, lay, txt, pos), b in zip(fmeta, fres):
        evs = ds.events_of(b)
        if not ds.widths_ok(b, L):
            continue
        offs = ds.event_offsets(evs, L)
        prev = 0
        for l, off in zip(evs, offs):
            allowed = pos[off] if off < len(pos) else len(txt)
            if ds.pulls_of(l) > allowed:
                nfront += 1
                if nfront <= 3:
                    ctx.violations.append({"kind": "concrete", "signature": f"front-lookahead:{lay.split('/')[0]}",
                                           "what": f"decoding {lay} text from a one-character-at-a-time source: an event was emitted after pulling "
                                                   f"{ds.pulls_of(l)} characters although the fields emitted so far ({off} bytes) plus one byte of look-ahead end at character {allowed}",
                                           "replay": {**c.replay("S"), "front_end": lay, "text": txt.decode("latin1")[:400], "event": l}})
                break
    # input spread over several files (`tpmstream convert a.bin b.bin`: `bytes_from_files`): a later file is read only when the
    # decoder's look-ahead reaches it, and a later file that fails on read does not take away the fields of the earlier ones
    # (seed C10l: all files read when the first byte is asked for)
    from tpmstream.io import bytes_from_files
    from tpmstream.io.binary import Binary
    from tpmstream.common.event import MarshalEvent
    from tpmstream.spec.commands import CommandResponseStream
    nfiles = 0
    streams_ = [c for c in wf if c.tname == "Stream" and len(c.data) > 8]
    for c in rnd.sample(streams_, min(len(streams_), 12 if ctx.tier == "quick" else 80)):
        k = rnd.choice([2, 3, 5])
        cutp = sorted(rnd.sample(range(1, len(c.data)), min(k - 1, len(c.data) - 1)))
        parts = [c.data[a:b] for a, b in zip([0] + cutp, cutp + [len(c.data)])]
        starts = [0] + cutp
        fail_at = rnd.choice([None, None, len(parts) - 1])

        class _F:
            mode = "rb"

            def __init__(self, i):
                self.i, self.done, self.when = i, False, None

            def read(self):
                if self.when is None:
                    self.when = emitted[0]
                if fail_at == self.i:
                    raise OSError("read failed")
                if self.done:
                    return b""
                self.done = True
                return parts[self.i]
        emitted = [0]
        files = [_F(i) for i in range(len(parts))]
        nfiles += 1
        problem = None
        try:
            for ev in Binary.marshal(tpm_type=CommandResponseStream, buffer=bytes_from_files(files), abort_on_error=True):
                if isinstance(ev, MarshalEvent) and ev.value is not ...:
                    emitted[0] += type(ev.value)._int_size
        except OSError:
            pass
        except Exception as e_:  # noqa
            if fail_at is None:
                problem = f"decoding the concatenation of {len(parts)} files ended with {type(e_).__name__}"
        for f_ in files:
            # (when a file is first read, the field in progress - at most 8 bytes - is pulled but not yet emitted)
            if problem is None and f_.when is not None and f_.i > 0 and starts[f_.i] > f_.when + 8 + 1:
                problem = (f"file #{f_.i + 1} (stream offset {starts[f_.i]}) was read when the fields emitted so far held only {f_.when} bytes: "
                           f"more than one byte of look-ahead")
        if problem is None and fail_at is not None and emitted[0] + 8 + 1 < starts[fail_at]:
            problem = (f"file #{fail_at + 1} fails on read: only {emitted[0]} bytes of fields were emitted before the failure surfaced, "
                       f"{starts[fail_at]} bytes precede that file")
        if problem:
            ctx.violations.append({"kind": "concrete", "signature": "files:lookahead", "what": "input spread over several files: " + problem,
                                   "replay": {**c.replay("S"), "file_sizes": [len(p_) for p_ in parts], "failing_file": fail_at}})
            break
    ctx.stats.setdefault("inputs", {})["streams_spread_over_files"] = nfiles
    ctx.stats.update({
        "evaluations": len(wf) + len(cuts) + len(sample) * len(SOURCES) + len(fops),
        "distinct_nontrivial": len({(c.tname, c.data) for c in cuts if len(c.data) > 0}) + len(wf),
        "rule": "well-formed structures/commands/responses/streams and their prefixes (every cut point of inputs <= 24 bytes, 24 "
                "sampled cuts otherwise; all in thorough); pull counts from a counting iterator at every event; prefix events "
                "vs whole-input events; six kinds of byte source",
        "samples": [c.replay("S") for c in cuts[:: max(1, len(cuts) // 5)]][:5],
        "correspondence": {"ops": len(cuts) + len(wf)},
        "distribution": {"kinds": ds.kinds_distribution(wf), "cuts": len(cuts), "lookahead_failures": nla,
                         "prefix_failures": npre, "source_failures": nsrc, "sources": SOURCES,
                         "front_end_lookahead": {"decodes": len(fops), "layouts": dict(collections.Counter(m[1] for m in fmeta)), "failures": nfront},
                         "cut_outcomes": dict(collections.Counter(ds.outcome(b) for b in cimpl))},
    })


PROP = {"targets": ["TpmProofs.Props.C05S"], "module": "TpmProofs.Props.C05S", "theorems": THEOREMS, "run": run,
        "assumptions": ["the look-ahead bound and prefix stability (structures, commands, responses, streams) are theorems for every input and every cut; "
                        "also monitored on the real code over six source kinds and tied by correspondence"]}
