"""C13 — a constraint error accounts for every input byte."""
import collections
import random

import core
import decsuite as ds

THEOREMS = ["C13.c13", "C13.c13_suffix", "raised_facts", "runWalker_acct"]


def consumed_after_events(block, L):
    """bytes the decoder consumed without an event, derived from the error's own details (model-free oracle)"""
    r = block[-1]
    kv = dict(t.split("=", 1) for t in r.split(" ")[3:] if "=" in t)
    cls = r.split(" ")[2]
    if cls == "ValueConstraintViolatedError":
        return L["prims"][kv["type"]]["size"] if kv["type"] in L["prims"] else None
    if cls == "SizeConstraintExceededError":
        return max(0, int(kv["max"]) - int(kv["already"]))
    return 0


def run(ctx, replay_case):
    rnd = random.Random(ctx.seed)
    L, M, wf = ds.wellformed(rnd, ctx.tier, per_type=1 if ctx.tier == "quick" else 4)
    first = core.run_impl([c.op("S") for c in wf])
    faults = []
    for c, b in zip(wf, first):
        if c.tname == "Stream" or not ds.usable(ctx, c, b, L, ctx.stats.setdefault("inputs", {})):
            continue
        faults += ds.size_faults(c, b, L, rnd, ctx.tier)
        faults += ds.value_faults(c, b, L, rnd, ctx.tier, limit=4 if ctx.tier == "quick" else None)
        # the fault in the very last field
        pos = __import__("msggen").value_field_positions(b, L)
        if pos:
            off, w, path, pn = pos[-1]
            for x in __import__("msggen").invalid_values(L, pn, rnd)[:2]:
                faults.append(ds.Case(c.tname, c.cc, c.enc, __import__("msggen").put(c.data, off, w, x), "value_fault_last"))
    if ctx.tier == "quick" and len(faults) > 12000:
        faults = rnd.sample(faults, 12000)
    # a constraint error that is raised between two bytes (not on a byte send): a successful response decoded without a command code
    # or under a code that has no layouts is rejected right after its responseCode event, with the whole body unconsumed (seed C13h:
    # the pump attached the remaining bytes only to size errors on that path)
    nolay = [c for c in wf if c.kind == "wf_rsp" and c.meta.get("rc", 0) == 0 and not c.meta.get("anycc")]
    for c in (nolay if ctx.tier != "quick" else rnd.sample(nolay, min(len(nolay), 60))):
        for ccx in (None, 0x123, 0x20000001):
            faults.append(ds.Case("Response", ccx, c.enc, c.data, "no_layout"))
            faults.append(ds.Case("Response", ccx, c.enc, c.data[:10], "no_layout"))
    res = ds.run_both(faults, "S")
    impl, model = res["S"]
    ds.correspondence_violation(ctx, "DEC strict (fault enumeration)", faults, "S", impl, model)
    raised = collections.Counter()
    empty_rem = 0
    for c, b in zip(faults, impl):
        r = b[-1]
        if not r.startswith("R raised"):
            continue
        cls = r.split(" ")[2]
        raised[cls] += 1
        rem = r.rsplit("rem=", 1)[1]
        if rem == "":
            empty_rem += 1
        try:
            rem_b = bytes.fromhex(rem)
        except ValueError:
            rem_b = None
        emitted = ds.event_offsets(ds.events_of(b), L)[-1] if ds.events_of(b) and ds.widths_ok(b, L) else 0
        skipped = 0 if c.kind == "no_layout" and " path=.commandCode " in r else consumed_after_events(b, L)
        ok = rem_b is not None and skipped is not None and c.data.endswith(rem_b) and \
            len(c.data) - len(rem_b) == min(len(c.data), emitted + skipped)
        if not ok:
            ctx.violations.append({"kind": "concrete", "signature": f"remaining:{cls}",
                                   "what": f"{cls}: bytes_remaining is not the unconsumed suffix of the input "
                                           f"(emitted fields {emitted} bytes + consumed offending {skipped} bytes)",
                                   "replay": {**c.replay("S"), "remaining": rem, "emitted_bytes": emitted,
                                              "offending_bytes": skipped, "error": r}})
    # the same accounting through the text front-ends (seed C13f: the hex front-end closed its byte generator when the error passed
    # through it, so the remaining bytes it had not yet produced were lost): the error's remaining bytes are the suffix of the *carried*
    # bytes — the block must be the one the binary decode gives (pull counts aside)
    fsel = [i for i, b in enumerate(impl) if b[-1].startswith("R raised")]
    fsel = fsel[:: max(1, len(fsel) // (300 if ctx.tier == "quick" else 4000))]
    fops = []
    for i in fsel:
        c = faults[i]
        fops.append(("DECFRONT", "S", c.tname, c.cc, c.enc, c.data.hex().encode(), "hex"))
        fops.append(("DECFRONT", "S", c.tname, c.cc, c.enc, b" " + b" ".join(f"{x:02X}".encode() for x in c.data) + b"\n", "hex"))
    fres = core.run_impl(fops)
    nfront = 0
    for k, fb in enumerate(fres):
        i = fsel[k // 2]
        if [ds.strip_pulls(l) for l in fb] != [ds.strip_pulls(l) for l in impl[i]]:
            nfront += 1
            if nfront <= 3:
                ctx.violations.append({"kind": "concrete", "signature": "remaining:hex-front-end",
                                       "what": "the same rejected input given as hex text: the error (or its remaining bytes) differs from the one the binary decode reports",
                                       "replay": {**faults[i].replay("S"), "front_end": "hex", "text": fops[k][5].decode()[:300],
                                                  "expected": impl[i][-1][:300], "observed": fb[-1][:300]}})
    ctx.stats.update({
        "evaluations": len(faults) + len(fops), "distinct_nontrivial": len({(c.tname, c.cc, c.data) for c in faults}),
        "rule": "fault enumeration over well-formed structures/commands/responses of every type and command code: every size "
                "field set to value-k/+k/0/max, constrained leaves set to out-of-range values, the fault in the final field; "
                "for every strict rejection with a constraint error: remaining == input suffix after (bytes of emitted fields + "
                "bytes the error itself says were consumed); compared with the model; distinct = distinct (type, input)",
        "samples": [c.replay("S") for c in faults[:: max(1, len(faults) // 5)]][:5],
        "correspondence": {"ops": len(faults)},
        "distribution": {"kinds": ds.kinds_distribution(faults), "rejections_by_class": dict(raised),
                         "detected_on_last_byte": empty_rem, "through_hex_front_end": len(fops), "hex_front_end_failures": nfront,
                         "outcomes": dict(collections.Counter(ds.outcome(b) for b in impl))},
    })


PROP = {"targets": ["TpmProofs.Props.C13"], "module": "TpmProofs.Props.C13", "theorems": THEOREMS, "run": run,
        "assumptions": []}
