"""C13 — a constraint error accounts for every input byte."""
import collections
import random

import core
import decsuite as ds

THEOREMS = ["C13.c13", "C13.c13_suffix", "raised_facts", "runWalker_acct"]


def consumed_after_events(block, L):
    """bytes the decoder consumed without an event, derived from the error's own details (model-free oracle)"""
    r = block[-1]
    kv = dict(t.split("=", 1) for t in r.split(" ")[3:] if "=" in t)
    cls = r.split(" ")[2]
    if cls == "ValueConstraintViolatedError":
        return L["prims"][kv["type"]]["size"] if kv["type"] in L["prims"] else None
    if cls == "SizeConstraintExceededError":
        return max(0, int(kv["max"]) - int(kv["already"]))
    return 0


def run(ctx, replay_case):
    rnd = random.Random(ctx.seed)
    L, M, wf = ds.wellformed(rnd, ctx.tier, per_type=1 if ctx.tier == "quick" else 4)
    first = core.run_impl([c.op("S") for c in wf])
    faults = []
    for c, b in zip(wf, first):
        if c.tname == "Stream" or not ds.usable(ctx, c, b, L, ctx.stats.setdefault("inputs", {})):
            continue
        faults += ds.size_faults(c, b, L, rnd, ctx.tier)
        faults += ds.value_faults(c, b, L, rnd, ctx.tier, limit=4 if ctx.tier == "quick" else None)
        # the fault in the very last field
        pos = __import__("msggen").value_field_positions(b, L)
        if pos:
            off, w, path, pn = pos[-1]
            for x in __import__("msggen").invalid_values(L, pn, rnd)[:2]:
                faults.append(ds.Case(c.tname, c.cc, c.enc, __import__("msggen").put(c.data, off, w, x), "value_fault_last"))
    if ctx.tier == "quick" and len(faults) > 12000:
        faults = rnd.sample(faults, 12000)
    res = ds.run_both(faults, "S")
    impl, model = res["S"]
    ds.correspondence_violation(ctx, "DEC strict (fault enumeration)", faults, "S", impl, model)
    raised = collections.Counter()
    empty_rem = 0
    for c, b in zip(faults, impl):
        r = b[-1]
        if not r.startswith("R raised"):
            continue
        cls = r.split(" ")[2]
        raised[cls] += 1
        rem = r.rsplit("rem=", 1)[1]
        if rem == "":
            empty_rem += 1
        try:
            rem_b = bytes.fromhex(rem)
        except ValueError:
            rem_b = None
        emitted = ds.event_offsets(ds.events_of(b), L)[-1] if ds.events_of(b) and ds.widths_ok(b, L) else 0
        skipped = consumed_after_events(b, L)
        ok = rem_b is not None and skipped is not None and c.data.endswith(rem_b) and \
            len(c.data) - len(rem_b) == min(len(c.data), emitted + skipped)
        if not ok:
            ctx.violations.append({"kind": "concrete", "signature": f"remaining:{cls}",
                                   "what": f"{cls}: bytes_remaining is not the unconsumed suffix of the input "
                                           f"(emitted fields {emitted} bytes + consumed offending {skipped} bytes)",
                                   "replay": {**c.replay("S"), "remaining": rem, "emitted_bytes": emitted,
                                              "offending_bytes": skipped, "error": r}})
    ctx.stats.update({
        "evaluations": len(faults), "distinct_nontrivial": len({(c.tname, c.cc, c.data) for c in faults}),
        "rule": "fault enumeration over well-formed structures/commands/responses of every type and command code: every size "
                "field set to value-k/+k/0/max, constrained leaves set to out-of-range values, the fault in the final field; "
                "for every strict rejection with a constraint error: remaining == input suffix after (bytes of emitted fields + "
                "bytes the error itself says were consumed); compared with the model; distinct = distinct (type, input)",
        "samples": [c.replay("S") for c in faults[:: max(1, len(faults) // 5)]][:5],
        "correspondence": {"ops": len(faults)},
        "distribution": {"kinds": ds.kinds_distribution(faults), "rejections_by_class": dict(raised),
                         "detected_on_last_byte": empty_rem,
                         "outcomes": dict(collections.Counter(ds.outcome(b) for b in impl))},
    })


PROP = {"targets": ["TpmProofs.Props.C13"], "module": "TpmProofs.Props.C13", "theorems": THEOREMS, "run": run,
        "assumptions": []}
