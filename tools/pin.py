#!/venv/bin/python
"""tools/pin.py — re-pin what the checks compare /repo with, after a reviewed change of /repo (a `fix:` commit): the layout
(pinned/layout.json := generated/layout.json of a fresh translation), the state inventory and the source hashes.  Never run by a
check; the pinned files are committed."""
import hashlib
import json
import os
import shutil
import subprocess
import sys

HERE = os.path.dirname(os.path.abspath(__file__))
VERIF = os.path.dirname(HERE)
REPO = os.environ.get("VERIF_REPO", "/repo")
sys.path.insert(0, os.path.join(HERE, "harness"))
import stateinv  # noqa: E402

subprocess.run(["/venv/bin/python", os.path.join(HERE, "translate.py")], cwd=VERIF, check=True, stdout=subprocess.DEVNULL)
shutil.copy(os.path.join(VERIF, "generated", "layout.json"), os.path.join(VERIF, "pinned", "layout.json"))
root = os.path.join(REPO, "src", "tpmstream")
json.dump(stateinv.inventory(root), open(os.path.join(VERIF, "pinned", "state_inventory.json"), "w"), indent=1)
now = {}
for d, _, fs in os.walk(root):
    for f in fs:
        if f.endswith(".py"):
            p = os.path.join(d, f)
            now[os.path.relpath(p, root)] = hashlib.sha256(open(p, "rb").read()).hexdigest()
json.dump(dict(sorted(now.items())), open(os.path.join(VERIF, "pinned", "source_hashes.json"), "w"), indent=0)
print("pinned: layout, state inventory (%d entries), %d source hashes" % (len(stateinv.inventory(root)), len(now)))
